#![allow(dead_code)]
//! Run context shared by every check: tier, seed, known findings, violation
//! recording, replay artefacts and the evidence file.
//!
//! Exit codes (see DESIGN.md §3): 0 = held on everything explored (known
//! findings are printed and do not fail the run), 1 = at least one violation
//! not listed in known_findings.json, 2 = machinery error (never a verdict).

use serde_json::{Value, json};
use std::collections::{BTreeMap, BTreeSet};
use std::path::PathBuf;
use std::sync::Mutex;
use std::time::Instant;

#[derive(Clone, Copy, PartialEq, Eq, Debug)]
pub enum Tier {
    Quick,
    Thorough,
}

impl Tier {
    pub fn name(self) -> &'static str {
        match self {
            Tier::Quick => "quick",
            Tier::Thorough => "thorough",
        }
    }
    pub fn pick<T>(self, q: T, t: T) -> T {
        match self {
            Tier::Quick => q,
            Tier::Thorough => t,
        }
    }
}

#[derive(Clone, Debug)]
pub struct Finding {
    pub property: String,
    pub key: String,
    pub what: String,
}

#[derive(Clone, Debug)]
pub struct Violation {
    pub key: String,
    pub what: String,
    pub case: Value,
}

pub fn verif_root() -> PathBuf {
    std::env::var_os("VERIF_ROOT")
        .map(PathBuf::from)
        .unwrap_or_else(|| PathBuf::from("/verif"))
}

/// A wall-clock budget of `base_secs` on an idle machine, stretched by how busy the machine is right now
/// (1-minute load average per core, at most 6x): budgets exist to bound a run, not to turn a complete
/// exploration into a capped one when other work shares the cores.
pub fn budget_secs(base_secs: u64) -> u64 {
    let load = std::fs::read_to_string("/proc/loadavg").ok().and_then(|s| s.split_whitespace().next().and_then(|x| x.parse::<f64>().ok())).unwrap_or(0.0);
    let cores = std::thread::available_parallelism().map(|n| n.get()).unwrap_or(1) as f64;
    let factor = (1.0 + load / cores).clamp(1.0, 6.0);
    (base_secs as f64 * factor) as u64
}

pub struct Ctx {
    pub id: &'static str,
    pub tier: Tier,
    pub seed: u64,
    start: Instant,
    findings: Vec<Finding>,
    violations: Mutex<Vec<Violation>>,
    violation_keys: Mutex<BTreeSet<String>>,
    known_hits: Mutex<BTreeMap<String, (String, u64)>>,
    total_violations: std::sync::atomic::AtomicU64,
    notes: Mutex<Vec<String>>,
}

const MAX_RECORDED: usize = 25;

impl Ctx {
    pub fn new(id: &'static str, tier: Tier) -> Ctx {
        let seed = std::env::var("VERIF_SEED")
            .ok()
            .and_then(|s| s.parse::<u64>().ok())
            .unwrap_or(0);
        let findings = load_findings(id);
        Ctx {
            id,
            tier,
            seed,
            start: Instant::now(),
            findings,
            violations: Mutex::new(Vec::new()),
            violation_keys: Mutex::new(BTreeSet::new()),
            known_hits: Mutex::new(BTreeMap::new()),
            total_violations: std::sync::atomic::AtomicU64::new(0),
            notes: Mutex::new(Vec::new()),
        }
    }

    pub fn note(&self, s: impl Into<String>) {
        let s = s.into();
        eprintln!("[{}] {}", self.id, s);
        self.notes.lock().unwrap().push(s);
    }

    fn known(&self, key: &str) -> Option<&Finding> {
        self.findings.iter().find(|f| {
            if let Some(prefix) = f.key.strip_suffix('*') {
                key.starts_with(prefix)
            } else {
                f.key == key
            }
        })
    }

    /// Record a violation. `key` is the canonical identity of the failing case
    /// class (used to match known findings and to de-duplicate), `what` a
    /// one-line description, `case` the replayable artefact.
    pub fn violation(&self, key: impl Into<String>, what: impl Into<String>, case: Value) {
        let key = key.into();
        let what = what.into();
        if let Some(f) = self.known(&key) {
            let mut k = self.known_hits.lock().unwrap();
            let e = k.entry(f.key.clone()).or_insert((f.what.clone(), 0));
            e.1 += 1;
            return;
        }
        self.total_violations
            .fetch_add(1, std::sync::atomic::Ordering::Relaxed);
        let mut keys = self.violation_keys.lock().unwrap();
        if !keys.insert(key.clone()) {
            return;
        }
        let mut v = self.violations.lock().unwrap();
        if v.len() < MAX_RECORDED {
            v.push(Violation { key, what, case });
        }
    }

    pub fn violation_count(&self) -> u64 {
        self.total_violations
            .load(std::sync::atomic::Ordering::Relaxed)
    }

    pub fn has_violation(&self) -> bool {
        self.violation_count() > 0
    }

    /// Machinery error: exit 2 without a verdict.
    pub fn machinery(&self, msg: impl AsRef<str>) -> ! {
        eprintln!("MACHINERY-ERROR property={} {}", self.id, msg.as_ref());
        std::process::exit(2)
    }

    /// Write the evidence file, print KNOWN-FINDING / VIOLATION lines and exit.
    pub fn finish(self, level: &str, mut coverage: Value, assumptions: &[&str]) -> ! {
        let wall = self.start.elapsed().as_secs_f64();
        let violations = self.violations.into_inner().unwrap();
        let total = self
            .total_violations
            .load(std::sync::atomic::Ordering::Relaxed);
        let known = self.known_hits.into_inner().unwrap();
        let root = verif_root();
        let mut replay_paths = Vec::new();
        if !violations.is_empty() {
            let dir = root.join("replays").join(self.id);
            let _ = std::fs::create_dir_all(&dir);
            for (i, v) in violations.iter().enumerate() {
                let p = dir.join(format!("{i}.json"));
                let doc = json!({
                    "property": self.id,
                    "key": v.key,
                    "what": v.what,
                    "tier": self.tier.name(),
                    "case": v.case,
                });
                let _ = std::fs::write(&p, serde_json::to_vec_pretty(&doc).unwrap());
                replay_paths.push(p);
            }
        }
        if let Some(obj) = coverage.as_object_mut() {
            obj.insert(
                "known_findings_hit".into(),
                json!(
                    known
                        .iter()
                        .map(|(k, (w, n))| json!({"key": k, "what": w, "cases": n}))
                        .collect::<Vec<_>>()
                ),
            );
            let notes = self.notes.into_inner().unwrap();
            if !notes.is_empty() {
                obj.insert("notes".into(), json!(notes));
            }
            if !violations.is_empty() {
                obj.insert(
                    "violation_keys".into(),
                    json!(violations.iter().map(|v| v.key.clone()).collect::<Vec<_>>()),
                );
            }
        }
        let ev = json!({
            "property_id": self.id,
            "tier": self.tier.name(),
            "seed": self.seed,
            "level": level,
            "coverage": coverage,
            "assumptions": assumptions,
            "wall_s": (wall * 1000.0).round() / 1000.0,
            "violations": total,
        });
        // A property checked by several engines writes one part per engine
        // (VERIF_PART=<name>); engines/merge_parts.py combines them.
        let (evdir, evpath) = match std::env::var("VERIF_PART") {
            Ok(part) if !part.is_empty() => {
                let d = root.join("target").join("parts");
                let p = d.join(format!("{}.{}.json", self.id, part));
                (d, p)
            }
            _ => {
                let d = root.join("evidence");
                let p = d.join(format!("{}.json", self.id));
                (d, p)
            }
        };
        let _ = std::fs::create_dir_all(&evdir);
        if let Err(e) = std::fs::write(&evpath, serde_json::to_vec_pretty(&ev).unwrap()) {
            eprintln!(
                "MACHINERY-ERROR property={} cannot write evidence: {e}",
                self.id
            );
            std::process::exit(2);
        }
        for (k, (w, n)) in &known {
            println!(
                "KNOWN-FINDING: property={} {} [key={} cases={}]",
                self.id, w, k, n
            );
        }
        if violations.is_empty() {
            println!(
                "OK property={} tier={} wall={:.1}s",
                self.id,
                self.tier.name(),
                wall
            );
            std::process::exit(0);
        }
        for (v, p) in violations.iter().zip(&replay_paths) {
            println!("VIOLATION property={} replay={}", self.id, p.display());
            println!("  key={} :: {}", v.key, v.what);
        }
        std::process::exit(1)
    }
}

fn load_findings(id: &str) -> Vec<Finding> {
    let p = verif_root().join("known_findings.json");
    let Ok(bytes) = std::fs::read(&p) else {
        return Vec::new();
    };
    let Ok(v) = serde_json::from_slice::<Value>(&bytes) else {
        eprintln!("MACHINERY-ERROR known_findings.json does not parse");
        std::process::exit(2);
    };
    let mut out = Vec::new();
    if let Some(arr) = v.get("findings").and_then(|f| f.as_array()) {
        for f in arr {
            let prop = f.get("property").and_then(|s| s.as_str()).unwrap_or("");
            if prop != id {
                continue;
            }
            out.push(Finding {
                property: prop.to_string(),
                key: f
                    .get("key")
                    .and_then(|s| s.as_str())
                    .unwrap_or("")
                    .to_string(),
                what: f
                    .get("what")
                    .and_then(|s| s.as_str())
                    .unwrap_or("")
                    .to_string(),
            });
        }
    }
    out
}

/// Keeps the first `n` samples offered (for the evidence file).
pub struct Samples {
    cap: usize,
    items: Mutex<Vec<Value>>,
}

impl Samples {
    pub fn new(cap: usize) -> Self {
        Samples {
            cap,
            items: Mutex::new(Vec::new()),
        }
    }
    pub fn offer(&self, f: impl FnOnce() -> Value) {
        let mut g = self.items.lock().unwrap();
        if g.len() < self.cap {
            g.push(f());
        }
    }
    pub fn wants(&self) -> bool {
        self.items.lock().unwrap().len() < self.cap
    }
    pub fn take(&self) -> Vec<Value> {
        std::mem::take(&mut *self.items.lock().unwrap())
    }
}
