#!/usr/bin/env python3
"""merge_parts.py <property> <part>...  — combine per-engine evidence parts
(target/parts/<id>.<part>.json) into evidence/<id>.json."""
import json, os, sys
root = os.environ.get("VERIF_ROOT", "/verif")
pid, parts = sys.argv[1], sys.argv[2:]
docs = []
for p in parts:
    path = os.path.join(root, "target", "parts", f"{pid}.{p}.json")
    try:
        docs.append((p, json.load(open(path))))
    except Exception as e:
        print(f"MACHINERY-ERROR property={pid} missing evidence part {p}: {e}", file=sys.stderr)
        sys.exit(2)
cov = {"parts": {}}
tot = lambda k: sum(d["coverage"].get(k, 0) for _, d in docs)
samples = []
for p, d in docs:
    c = d["coverage"]
    cov["parts"][p] = c
    for s in c.get("samples", [])[:3]:
        samples.append({"part": p, "case": s})
level = docs[0][1]["level"]
if level == "model_checking":
    cov["states"] = max(1, tot("states"))
    cov["transitions"] = max(1, tot("transitions"))
    cov["traces_validated_against_impl"] = tot("traces_validated_against_impl")
else:
    # a loom part counts complete schedules as states: each is one evaluation of the oracle
    cov["evaluations"] = max(1, tot("evaluations") + tot("schedules"))
    cov["distinct_nontrivial"] = max(2, tot("distinct_nontrivial"))
    cov["rule"] = " || ".join(f"[{p}] " + d["coverage"].get("rule", "") for p, d in docs)
cov["samples"] = samples
cov["exhaustive"] = all(d["coverage"].get("exhaustive", False) for _, d in docs)
cov["known_findings_hit"] = [k for _, d in docs for k in d["coverage"].get("known_findings_hit", [])]
out = {
    "property_id": pid,
    "tier": docs[0][1]["tier"],
    "seed": docs[0][1]["seed"],
    "level": level,
    "coverage": cov,
    "assumptions": [a for _, d in docs for a in d.get("assumptions", [])],
    "wall_s": round(sum(d["wall_s"] for _, d in docs), 3),
    "violations": sum(d.get("violations", 0) for _, d in docs),
}
os.makedirs(os.path.join(root, "evidence"), exist_ok=True)
json.dump(out, open(os.path.join(root, "evidence", f"{pid}.json"), "w"), indent=1)
