#!/usr/bin/env python3
"""Writes MANIFEST.json from the table below (kept as code so it stays valid and consistent)."""
import json, subprocess
SOURCE_COMMITS = [l.split()[0] for l in subprocess.run(["git","-C","/repo","log","--format=%h %s"],capture_output=True,text=True).stdout.splitlines() if " verif hook" in l]
CHECKS = {}
NA = {}
def check(pid, category, text, note, technique, design_ref, engine, replay=True):
    CHECKS[pid] = dict(
        property_id=pid,
        quick_cmd=f"./run {pid} quick",
        thorough_cmd=f"./run {pid} thorough",
        evidence_file=f"/verif/evidence/{pid}.json",
        engine=engine,
        level_claimed=dict(category=category, text=text, design_ref=design_ref),
        level_note=note,
        technique=technique,
    )
    if replay:
        CHECKS[pid]["replay_cmd_template"] = f"./run {pid} --replay {{path}}"

check("C11", "model_checking",
      "Every history over a 27-30 letter alphabet of sends, failed sends, acks (stale, foreign, future, u64::MAX), advances, resumes, cancels and waits is executed on the real TransferControl next to an exact reference model: un-merged to depth 5 (quick) / 6 (thorough) and breadth-first with state merging to depth 8 / 10, for windows 0,1,4,5,2^48; the stated invariants are evaluated after every step. Concurrent part: loom (DPOR, 3 / 4 preemptions; 2 / 3 for three signalling threads) explores a parked waiter (credit, oversized credit, reconnect) with two or three threads of which at least two cancel with different reasons, raced by acks, resumes and an advance: the waiter's result and the reason read afterwards must be explained by ONE sequential order (first reason wins, permanently).",
      "Sequential part: deadlines are always expired (blocking is C12). Values below 2^56. BFS merging assumes determinism of the implementation; the un-merged tree is the cross-check. Concurrent part: sequentially consistent interleavings at lock/condvar granularity within the preemption bound.",
      "explicit-state bounded-exhaustive history enumeration of the real object against a reference model (replay-based BFS + un-merged tree) + loom stateless model checking of concurrent cancels with a linearization oracle",
      "DESIGN.md §5 C11", "mc+lm")
check("C13", "model_checking",
      "Every history over a 22-letter alphabet of pushes (data lengths 0,1,2,5; wire overheads 0,1,7), resumes at every boundary class (retained starts, mid-chunk, trailing edge, beyond, evicted, other file), advance, cancel and reconnect waits is executed on the real TransferControl for ring capacities 0,1,5,6,12,2^40; after every step the ring is compared with what was pushed and every accepted resume's replay tail is checked for start, contiguity, byte identity and completeness.",
      "Acceptance is checked in the stated direction only (accepted => allowed). BFS merging as for C11.",
      "explicit-state bounded-exhaustive history enumeration of the real object against a reference model (replay-based BFS + un-merged tree)",
      "DESIGN.md §5 C13", "mc")

check("C12", "model_checking",
      "loom (DPOR) explores every interleaving, up to 3 (quick) / 4 (thorough; 3 for the three-signaller harnesses) preemptions, of the real wait_for_credit / wait_for_reconnect with 1-3 signalling threads (all pairs of 13 credit scripts and 10 reconnect scripts; all triples in thorough) and a virtual-clock thread. A missed wake-up leaves the waiter blocked with all other threads finished (loom deadlock); every returned value is checked against all sequential orders of the signalling operations; timeouts must occur at, not before and not after, the virtual deadline.",
      "Sequentially consistent interleavings at lock/condvar granularity within the preemption bound; timed waits wake only on notification or virtual-clock expiry (no other spurious wake-ups); std's Condvar itself is trusted.",
      "stateless model checking of the real code under loom's controlled scheduler (preemption-bounded DPOR) with a linearization oracle",
      "DESIGN.md §5 C12", "lm")

check("C18", "model_checking",
      "Sequential: breadth-first search to a FIXPOINT over the finite state space of the real PeerRegistry with 3 peers and 3 keys (every reachable state, every letter in every state), plus all un-merged histories of depth 6/7; after every step every observer and all nine broadcast forms (json, beve, utf8, raw; raw bytes that are not well-formed for their tag; empty bodies; one sink refusing every other notification) are compared with a reference model. Concurrent: loom explores all interleavings (unbounded DPOR) of 2-3 threads of alias/remove/insert/lookup/broadcast on colliding keys over the real peer.rs; each schedule must be linearizable w.r.t. the same model.",
      "Re-inserting an id that is still present is outside the documented precondition. HashMap iteration order is not controlled (results compared as sets).",
      "explicit-state search to fixpoint on the real object by replay + loom stateless model checking with brute-force linearizability",
      "DESIGN.md §5 C18", "mc+lm")

check("C01", "model_checking",
      "Bounded-exhaustive enumeration of messages (header fields over boundary classes incl. the full product in thorough, 17x17 query/body lengths to 64 KiB, 5 body-capacity relations hitting both into_wire_bytes paths, builder-made typed/complex/aligned bodies) through every emission route (to_vec, write_to, into_wire_bytes, write_message, write_message_streaming, typed/complex writers, write_message_async, short-write sinks, and the bytes received from Server, AsyncServer and the WebSocket server inline/off-reader) against an independent field-table encoder that is itself anchored on the interop fixtures; every parser/reader must return the original fields.",
      "Payload contents use one pattern per length. Client-side emission: every request API of Client / AsyncClient / WebSocketClient x 3 paths x 4 query-format codes x 6 body-format codes x 5 bodies (none .. 70 000 B) is captured from the wire and compared with the oracle and across the three clients. Fixture files anchor the oracle.",
      "bounded-exhaustive input/configuration enumeration of the real encoders/parsers against an independent oracle",
      "DESIGN.md §5 C01", "mc")
check("C02", "model_checking",
      "Every input of five families (three length fields over 29-41 boundary classes x spec x buffer lengths; every single-byte mutation, truncation and field replacement of 40-52 valid frames; two-frame streams cut at every byte; raw strings of every length; headers declaring 16 MiB or >= 2^62) is executed on all ten parsing/reading entry points (33 slots: read sizes 1/7/48/all, reused buffers, Pending-interleaved async) inside child processes; a panic, abort or hang, an accepted inconsistent frame, or returned bytes that are not the input's are violations (u128 reference parser). A second phase sends hostile headers over loopback TCP to Server/AsyncServer and as responses to Client/AsyncClient, and the same payloads (plus frames with trailing bytes / cut short) as one WebSocket message to a WebSocketServer connection, the WebSocket proxy and a pending WebSocketClient call over in-memory streams.",
      "Strings up to 4 KiB are covered as boundary classes and exhaustive single-point mutations, not all 2^32768 strings. Stream readers only get declared sizes <= 16 MiB or >= 2^62 as the property fixes.",
      "bounded-exhaustive input enumeration with child-process isolation against a reference parser",
      "DESIGN.md §5 C02", "mc")
check("C03", "model_checking",
      "All pipelines over a 52-letter request alphabet (every handler kind incl. blocking/middleware-wrapped/registry/struct/custom-erased, every body-format code with well-formed and malformed bodies, bad versions, query formats, non-UTF-8 and unknown paths, notify twins): every letter, every ordered pair, triples over a sub-alphabet, each letter x64 (+ pairs around 62 echoes in thorough), each written in one burst on a fresh connection of four real servers (blocking TCP, async TCP, async over an in-memory stream, WebSocket with inline and off-reader routes), each of them once with a router-wide counting middleware (copying dispatch) and once with no middleware (zero-copy dispatch); thorough: triples over all letters and quadruples over the sub-alphabet. Everything received until the server closes is matched by id against a reference model (exactly one response per request, none for notifies, specified error codes, query echo, arrival order of inline responses, same fields on every transport) and handler/middleware invocation counters are compared per pipeline. A separate block decides requests arriving at the WebSocket off-reader cap (answered by the reader itself): caps 1,2,3 x four blocking route kinds x call / notify / burst: exactly one response with the request's id and query, none for notifies. One additional free-running row (WebSocket, 4 worker threads, outbound queue of 1) is reported as non-deciding.",
      "Handlers are deterministic; TCP rows use real loopback sockets with a 10 s watchdog on predicted events only. Sequences of more than three distinct letters only in the repeated/embedded forms.",
      "bounded-exhaustive enumeration of request pipelines against running endpoints with a reference model",
      "DESIGN.md §5 C03", "mc")
check("C07", "model_checking",
      "Three exhaustively enumerated sub-spaces driven through Router::get + handle/handle_with_ctx/handle_view (view at buffer offsets 0..7): (A1) 15 handler kinds x 6 body formats x hundreds of bodies incl. all 1- and 2-byte strings x 6 middleware configurations; (A2) all 120 registration orders of {route, registry mount, struct mount, 2 middlewares} x mount prefixes x 92 request paths against a reference router; (A3) struct segment tokenisation for depths 0..40 with escapes on both sides of the 16-segment boundary against an independent RFC 6901 tokenizer.",
      "Precedence between a registry and a struct mount that both match is unspecified and not checked; malformed escapes are outside the quantifier.",
      "bounded-exhaustive input/configuration enumeration with differential and reference-model oracles",
      "DESIGN.md §5 C07", "mc")
check("C10", "fault_enumeration",
      "Three parts, no source hooks: (1) every in-process fault (producer failure after every byte, connection cut after/on every response, error to open, missing last, rejecting/tampered verifier, trailer longer than or equal to the stream, unpublishable destination) x 9 pullers x compression x destination absent/pre-existing against the real SVS engine, plus fault-free pulls that start over the stale temp file a killed pull leaves (six length classes); (2) the pulling process is SIGKILLed (strace inject) at every file-system syscall and at every receive of the recorded history; (3) for every prefix of the recorded write/fsync/rename history and every subset of unsynced writes dropped, a file-system model computes the destination: it must be the old or the complete new content; (4) slow consumers, in process: the caller-supplied digest, verifier or consume closure parks on a gate (first / middle / last call) while the pull fails (cut, next error, producer failure) or completes, the gate is held for 7 s, the directory is sampled at the moment the pull returns and after every consumer finished, retries go to the same destination (AsyncClient, WebSocketClient over in-memory streams; blocking Client over TCP).",
      "POSIX rename atomicity; directory fsync not demanded; kill points are syscall entries; transport faults are frame-granular.",
      "exhaustive fault and crash-point enumeration (in-process faults, kill at every syscall, crash-state model over the traced history)",
      "DESIGN.md §5 C10", "mc")
check("C15", "fault_enumeration",
      "Every meaningful (exit cause x connection phase) cell - 14 causes (close, drop, cut, text, bad header, trailing bytes, inline/off-reader/connect-hook panics, cancel, abort, drain) x 5 phases (idle, inline parked, off-reader parked, outbound queue full, during connect hooks) - on all serve_connection* entry points over in-memory streams (streams adopted through adopt_upgraded and, with the first 0 / 1 / 2 / one-frame / one-and-a-half-frame bytes handed over as already read, adopt_upgraded_partially_read), all ordered pairs and triples of cells on 2-3 connections, N same-cell connections, and over loopback TCP the built-in accept loops (serve_listener, serve_listener_with_shutdown with the future resolving while 1-3 connections are alive in every phase, graceful drain, the address-taking twins serve / serve_with_shutdown / serve_with_graceful_drain, failed handshakes, a connection attempt after the loop returned) and the six co-hosting accept helpers each followed by its serve_connection* call; a request the reader rejects by itself is pipelined ahead of the first request; an event log of all hooks, handlers and registry samples is checked per connection. The registry clause under concurrent connections is decided by a loom part: 2-3 overlapping connection lifecycles (insert / alias / remove exactly as with_peer_registry issues them) on the real PeerRegistry, every interleaving for 2 lifecycles and preemption bound 2 (quick) / 3 (thorough) for 3, each connection checking from its own thread that it and its aliases are present while connected and absent afterwards.",
      "tokio multi-thread scheduler interleavings of whole connections are not enumerated (the registry calls they make are, under loom); the drain deadline ZERO is one timer tick.",
      "exhaustive exit-cause x phase enumeration against running connections with an event-log oracle, plus stateless model checking (loom DPOR) of overlapping connection lifecycles on the real registry",
      "DESIGN.md §5 C15", "mc+lm")
check("C16", "model_checking",
      "Explicit-state search over event sequences (off-reader request returning/erroring/panicking, off-reader notify, inline request, release of any parked handler, bursts) to depth 5-6 (quick) / 6-7 (thorough) for caps 1,2,3 (+16 and unlimited in thorough), plain and middleware-wrapped blocking routes; each sequence is replayed on a fresh in-memory WebSocket connection with gated handlers and compared, after every event, with a counter automaton (saturation replies, dropped notifies, inline liveness, slot release on every exit incl. panic, gauge <= cap).",
      "Handlers park on gates (no CPU-bound timing); one connection per scenario; tokio's blocking pool always has a free thread for a permitted handler.",
      "explicit-state enumeration of event sequences replayed on the real server against a reference automaton",
      "DESIGN.md §5 C16", "mc")
check("C17", "model_checking",
      "Every (limit, total size in limit-2..limit+2 plus 48, limit/2, 2*limit, placement of the excess in query/body/both) case on each of thirteen outbound paths (inline and off-reader responses, the same two with handler-returned error responses, a relayed application-error response, handler-pushed notify, four registry broadcasts, proxy-forwarded response, WebSocket client call and notify) over in-memory streams on a paused clock, the notification paths also with the same notification 2 and 3 times in a row (each delivered, or dropped with one report each); every binary message seen by the raw peer must be within the limit, unchanged when it fits, replaced/dropped+reported/refused locally otherwise, and the connection must serve a following echo.",
      "The writer's shutdown-drain call site of the guard is not scripted.",
      "bounded-exhaustive input/configuration enumeration against running endpoints",
      "DESIGN.md §5 C17", "mc")

check("C08", "model_checking",
      "Every (element type of 14, length 0..64 and boundary lengths up to 65537 (0..4096 in thorough), rotation of the per-type boundary value set incl. NaN payloads/infinities/extremes, query length 0..64, receive-buffer misalignment 0..7 + owned dispatch, client form bulk/aligned/generic, route with_typed_slice/with_typed_slice_ref/with_typed) case: bulk bytes == generic encoding for non-empty slices, all encoder x decoder pairs bit-exact, streaming writers == builders, aligned form borrowed iff the payload address is aligned, wrong element type or format rejected; plus a loopback-TCP sweep with Client and AsyncClient.",
      "beve itself is a trusted library. The generic->bulk direction for EMPTY vectors fails on the unchanged tree (six known-finding keys, defect D6).",
      "bounded-exhaustive input enumeration with differential oracles between encoders/decoders/routes",
      "DESIGN.md §5 C08", "mc")

check("C04", "model_checking",
      "Two engines. mc: for AsyncClient and WebSocketClient over an in-memory stream on a paused single-threaded runtime, n <= 5 (thorough 7) concurrent calls x every permutation of the n replies x one extra frame (unknown id, duplicate of reply j, notify reusing in-flight id j) at every position x delivery one-by-one or in one burst; batch_json under every reply order; replies injected while the request's own write is blocked after 48+k bytes; forward_message re-using the id of an in-flight call; batches longer than the blocking client's worker cap (63..4*cores+1 requests, answered in waves in three orders) on all three clients; the blocking Client's reply permutations over loopback TCP; a caller parked INSIDE its own call (gate in the body's Serialize, the call polled on its own OS thread) while another call is issued and answered / left pending / timed out, then resumed or refused locally as too large, then a third call, replies in every order (ids on the wire pairwise distinct, every call its own response). lm: the real blocking client.rs under loom (mock socket, loom channel, 2-3 caller threads + reader + scripted server): in-order, reversed, unknown+duplicate, early-reply and multi-call scripts at preemption bound 2 (3 in thorough); every schedule must give each call the response addressed to its own request id, distinct ids, no hang.",
      "tokio multi-threaded scheduling below transport granularity is not explored for the two tokio clients (single-threaded runtime) except at the one extra scheduling point the harness owns (body serialization); loom explores SC interleavings within the preemption bound; AsyncClient has no notification API (a notify reusing an id may be consumed by that call).",
      "exhaustive enumeration of peer scripts against the running clients (mc) + loom stateless model checking of the blocking client",
      "DESIGN.md §5 C04", "mc+lm")
check("C05", "fault_enumeration",
      "Two engines. mc: forced-stall scripts with exact write credit on in-memory streams - concurrent calls + notify on AsyncClient / WebSocketClient with payloads straddling the 8 KiB writer buffer and the peer accepting exactly k bytes; a large call abandoned after exactly k accepted bytes followed by another call and then by a notify / forwarded notify / batch; 8 and 32 concurrent writers under stalls and short writes; AsyncServer with a write timeout whose response stalls past the deadline, and pipelined responses stalled then released with per-write byte limits around the 8 KiB staging buffer (a peer buffer above 256 MiB is a runaway writer); a call abandoned while another is queued on the writer lock; WebSocket server with concurrent off-reader responses and pushed notifies against a stalled peer; blocking Server and blocking Client over loopback TCP with 24 MiB frames and a 300 ms write timeout (the server's response also read by a paced peer, so that bytes written after the interrupted response are seen and judged by content; the client also with sequences of small / buffer-sized frames until one is interrupted, another while stalled, more after the peer resumes). lm: blocking client under loom with 7..24-byte write quotas and a 1-byte pipe. Everything the peer receives must parse into whole frames and nothing may follow an interrupted write.",
      "TCP rows depend on the kernel filling its socket buffers with 24 MiB (a counter reports that it did); 2-4 writers under forced stalls, not 32 free-running ones.",
      "exhaustive enumeration of stall offsets / interruption points against running endpoints (mc) + loom model checking of the blocking client's writer",
      "DESIGN.md §5 C05", "mc+lm")
check("C06", "fault_enumeration",
      "Two engines. mc: for AsyncClient and WebSocketClient with a paused clock - every fault (peer closes before/after the requests, reset, reply cut after 1/47/48/50/len-1 bytes, five kinds of malformed frame, answer-one-then-close) x 0..3 (thorough 0..16) calls in flight x with/without per-call timeouts; a response arriving 4990/50/2 ms before a 5 s timeout and after it, with and without a sibling call; staggered timeouts; cancellation before start, while awaiting the response, while queued on the writer lock, and mid-write with a sibling call queued behind it; failures that leave the client's writing side open (five malformed frames, half-close, cut reply + half-close) injected while a 20 KB request is stalled mid-write with 0..2 (0..4) earlier calls in flight, the peer then letting the stalled write through or never reading again; a call still pending after a virtual hour is a hang; pending map must be empty; the subscriber must see end-of-stream. lm: blocking client under loom - close before/after read, partial response, malformed header, answer-then-close, timeout vs late reply, reply racing the timeout (virtual clock), a malformed frame from a peer that never reads again while one / one of two callers is stalled mid-write: no schedule may leave a thread blocked.",
      "Promptness is decided as 'returns without waiting for something that never comes', not as wall-clock latency.",
      "exhaustive fault-script enumeration against the running clients (mc) + loom model checking of the blocking client",
      "DESIGN.md §5 C06", "mc+lm")
check("C09", "model_checking",
      "Real SVS handlers (/_svs/open|next|cancel, real producer thread and bounded channel) driven session by session: chunk sizes 1..8 (+16, 4096, 1 MiB), every payload length 0..3c+1, channel depths 0,1,2,4,8, both compressions, all five producer kinds, every composition of write sizes for n <= 10, failure and panic injection at every byte position, every cancel point, unknown ids, and gate disciplines forcing producer-first / consumer-first at each rendezvous; plus the blocking, async and WebSocket pullers over real transports on a boundary subset. Several streams on ONE router: every interleaving of the next calls of 2 streams (<= 3 responses each) and of 3 streams (<= 2 each; covering subset in quick), one extra event (cancel in request / notify form, next past the end, unknown id, late open) at every position, sequential reuse of a router after a finished / cancelled / failed stream, every order of the 1-byte writes of concurrent writer sessions; several pulls through one connection on all three transports, sequentially (every puller pair, abandoned / cancelled / failing first streams) and, for the async clients, concurrently.",
      "zstd output is judged by decompression; large chunk sizes use boundary lengths only.",
      "bounded-exhaustive enumeration of sessions/configurations against the real handlers with a byte-exact oracle",
      "DESIGN.md §5 C09", "mc")
check("C14", "model_checking",
      "Two engines. mc: every operation x every pointer of an 869-pointer universe (all <= 3-token pointers over 9 tokens incl. escapes/empty/indices, malformed forms, root forms) from three start trees; all histories to depth 3 (thorough 5) + BFS to depth 6 (10) in a small scope; each request repeated through Router::with_registry under three prefixes and seven body formats on twin registries; oracle = serde_json document + callable set with an independent RFC 6901 tokenizer; a model-free sweep over array-index spellings RFC 6901 forbids (\"01\", \"+1\", ...) checks only the stated read-back and unrelated-unchanged clauses for writes that succeed. lm: real registry.rs under loom (unbounded DPOR): all pairs (and triples) of 14 request scripts on colliding pointers (incl. two-pointer readers against multi-key root merges) must be serialisable.",
      "The JSON returned by reading a callable's own pointer, error texts and codes of well-formed but impossible requests are unspecified and not compared; \"\" and \"/\" both address the root as in the implementation.",
      "bounded-exhaustive history/input enumeration against a reference model (mc) + loom linearizability checking",
      "DESIGN.md §5 C14", "mc+lm")

check("C19", "fault_enumeration",
      "A scripted fake node (real TCP listener owned by the harness, with a connect(2) seam so that a refused attempt is counted exactly) plays every outcome sequence of length <= max_attempts+2 over the seven-outcome alphabet (refused, accepted-then-closed, closed-while-idle, silent-until-timeout, malformed reply, application error, success) for max_attempts 1,2 (thorough 1,2,3), followed by a healthy phase of two calls, against Fleet and AsyncFleet (call_json and call_message); every error-code class (1..9, 10, 4095, 4096, 4097, u32::MAX) as the application-error reply on every script of length <= 2 that contains one; a connection that swallowed a request stays silent afterwards; all 4^4 tag-subset assignments over 2 tags x every requested subset for broadcasts; 27 prefixes that decide how the cached connection came to be (earlier call, connect_all, health_check, reconnect_disconnected after each failure kind, disconnect_all, the node dead during the maintenance call) x outcome scripts x recovery operation; add_node / remove_node sequences (incl. re-adding a name with other tags) from three initial node sets x tag subsets x node health for broadcast_json, map_reduce_json and filter_nodes. Oracle as the property states it: attempts <= max, every retry preceded by a transport failure, nothing after a reply, result = that reply or the last transport error, never wedged, broadcast addresses exactly the matching nodes.",
      "Real loopback TCP and a 150 ms node timeout: verdicts depend only on counts and results, every step waits for a positive event under a heartbeat watchdog, and a violation must reproduce from its recorded case. A malformed reply may be classified either way.",
      "exhaustive fault-sequence enumeration against the running fleets with a scripted node",
      "DESIGN.md §5 C19", "mc")

ALL = [f"C{i:02d}" for i in range(1, 20)]
for pid in ALL:
    if pid not in CHECKS:
        NA[pid] = "check not built yet in this round (planned: see DESIGN.md §5); not claimed until it runs"

manifest = dict(
    version=1,
    setup_cmd="./setup.sh",
    hooks=dict(
        guard="--cfg repe_verif (scripted transports, accessors) and --cfg repe_verif_loom (std->loom shadow)",
        enable="RUSTFLAGS=\"--cfg repe_verif\" for the mc engine, RUSTFLAGS=\"--cfg repe_verif_loom\" for the lm (loom) engine; set by engines/dispatch",
        baseline_off_cmd="cd /repo && cargo nextest run --workspace --no-fail-fast --test-threads 8 --offline || cargo test --workspace --no-fail-fast --offline",
        source_commits=SOURCE_COMMITS,
        add_only=True,
    ),
    engines=[
        dict(name="mc", path="/verif/mc", serves_properties=sorted(p for p, c in CHECKS.items() if "mc" in c["engine"]),
             kind_free_text="Rust harness crate linking the real repe crate: bounded-exhaustive history/input/environment-script enumeration with reference models"),
        dict(name="lm", path="/verif/lm", serves_properties=sorted(p for p, c in CHECKS.items() if "lm" in c["engine"]),
             kind_free_text="loom (DPOR, preemption-bounded) exploration of thread interleavings of the real repe sources built with --cfg repe_verif_loom"),
    ],
    checks=[CHECKS[p] for p in ALL if p in CHECKS],
    not_applicable=[dict(property_id=p, reason=NA[p]) for p in ALL if p in NA],
    notes="See DESIGN.md. Exit codes: 0 held, 1 VIOLATION, 2 machinery error. known_findings.json lists recorded defects.",
)
json.dump(manifest, open("/verif/MANIFEST.json", "w"), indent=1)
print("claimed:", [p for p in ALL if p in CHECKS])
