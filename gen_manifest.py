#!/usr/bin/env python3
"""Writes MANIFEST.json from the table below (kept as code so it stays valid and consistent)."""
import json, subprocess
SOURCE_COMMITS = [l.split()[0] for l in subprocess.run(["git","-C","/repo","log","--format=%h %s"],capture_output=True,text=True).stdout.splitlines() if " verif hook" in l]
CHECKS = {}
NA = {}
def check(pid, category, text, note, technique, design_ref, engine, replay=True):
    CHECKS[pid] = dict(
        property_id=pid,
        quick_cmd=f"./run {pid} quick",
        thorough_cmd=f"./run {pid} thorough",
        evidence_file=f"/verif/evidence/{pid}.json",
        engine=engine,
        level_claimed=dict(category=category, text=text, design_ref=design_ref),
        level_note=note,
        technique=technique,
    )
    if replay:
        CHECKS[pid]["replay_cmd_template"] = f"./run {pid} --replay {{path}}"

check("C11", "model_checking",
      "Every history over a 27-30 letter alphabet of sends, failed sends, acks (stale, foreign, future, u64::MAX), advances, resumes, cancels and waits is executed on the real TransferControl next to an exact reference model: un-merged to depth 5 (quick) / 6 (thorough) and breadth-first with state merging to depth 8 / 10, for windows 0,1,4,5,2^48; the stated invariants are evaluated after every step.",
      "Deadlines are always expired (blocking is C12). Values below 2^56. BFS merging assumes determinism of the implementation; the un-merged tree is the cross-check.",
      "explicit-state bounded-exhaustive history enumeration of the real object against a reference model (replay-based BFS + un-merged tree)",
      "DESIGN.md §5 C11", "mc")
check("C13", "model_checking",
      "Every history over a 22-letter alphabet of pushes (data lengths 0,1,2,5; wire overheads 0,1,7), resumes at every boundary class (retained starts, mid-chunk, trailing edge, beyond, evicted, other file), advance, cancel and reconnect waits is executed on the real TransferControl for ring capacities 0,1,5,6,12,2^40; after every step the ring is compared with what was pushed and every accepted resume's replay tail is checked for start, contiguity, byte identity and completeness.",
      "Acceptance is checked in the stated direction only (accepted => allowed). BFS merging as for C11.",
      "explicit-state bounded-exhaustive history enumeration of the real object against a reference model (replay-based BFS + un-merged tree)",
      "DESIGN.md §5 C13", "mc")

check("C12", "model_checking",
      "loom (DPOR) explores every interleaving, up to 3 (quick) / 4 (thorough) preemptions, of the real wait_for_credit / wait_for_reconnect with 1-3 signalling threads (all pairs of 10 credit scripts and 8 reconnect scripts; all triples in thorough) and a virtual-clock thread. A missed wake-up leaves the waiter blocked with all other threads finished (loom deadlock); every returned value is checked against all sequential orders of the signalling operations; timeouts must occur at, not before and not after, the virtual deadline.",
      "Sequentially consistent interleavings at lock/condvar granularity within the preemption bound; timed waits wake only on notification or virtual-clock expiry (no other spurious wake-ups); std's Condvar itself is trusted.",
      "stateless model checking of the real code under loom's controlled scheduler (preemption-bounded DPOR) with a linearization oracle",
      "DESIGN.md §5 C12", "lm")

check("C18", "model_checking",
      "Sequential: breadth-first search to a FIXPOINT over the finite state space of the real PeerRegistry with 3 peers and 3 keys (every reachable state, every letter in every state), plus all un-merged histories of depth 6/7; after every step every observer and all four broadcast encodings (one sink refusing) are compared with a reference model. Concurrent: loom explores all interleavings (unbounded DPOR) of 2-3 threads of alias/remove/insert/lookup/broadcast on colliding keys over the real peer.rs; each schedule must be linearizable w.r.t. the same model.",
      "Re-inserting an id that is still present is outside the documented precondition. HashMap iteration order is not controlled (results compared as sets).",
      "explicit-state search to fixpoint on the real object by replay + loom stateless model checking with brute-force linearizability",
      "DESIGN.md §5 C18", "mc+lm")

ALL = [f"C{i:02d}" for i in range(1, 20)]
for pid in ALL:
    if pid not in CHECKS:
        NA[pid] = "check not built yet in this round (planned: see DESIGN.md §5); not claimed until it runs"

manifest = dict(
    version=1,
    setup_cmd="./setup.sh",
    hooks=dict(
        guard="--cfg repe_verif (scripted transports, accessors) and --cfg repe_verif_loom (std->loom shadow)",
        enable="RUSTFLAGS=\"--cfg repe_verif\" for the mc engine, RUSTFLAGS=\"--cfg repe_verif_loom\" for the lm (loom) engine; set by engines/dispatch",
        baseline_off_cmd="cd /repo && cargo nextest run --workspace --no-fail-fast --test-threads 8 --offline || cargo test --workspace --no-fail-fast --offline",
        source_commits=SOURCE_COMMITS,
        add_only=True,
    ),
    engines=[
        dict(name="mc", path="/verif/mc", serves_properties=sorted(p for p, c in CHECKS.items() if "mc" in c["engine"]),
             kind_free_text="Rust harness crate linking the real repe crate: bounded-exhaustive history/input/environment-script enumeration with reference models"),
        dict(name="lm", path="/verif/lm", serves_properties=sorted(p for p, c in CHECKS.items() if "lm" in c["engine"]),
             kind_free_text="loom (DPOR, preemption-bounded) exploration of thread interleavings of the real repe sources built with --cfg repe_verif_loom"),
    ],
    checks=[CHECKS[p] for p in ALL if p in CHECKS],
    not_applicable=[dict(property_id=p, reason=NA[p]) for p in ALL if p in NA],
    notes="See DESIGN.md. Exit codes: 0 held, 1 VIOLATION, 2 machinery error. known_findings.json lists recorded defects.",
)
json.dump(manifest, open("/verif/MANIFEST.json", "w"), indent=1)
print("claimed:", [p for p in ALL if p in CHECKS])
