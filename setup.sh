#!/bin/sh
# Builds both engines offline from files on disk. Safe to re-run.
set -e
here=$(cd "$(dirname "$0")" && pwd)
export CARGO_NET_OFFLINE=true
mkdir -p "$here/target" "$here/evidence"
for c in mc lm; do
  [ -f "$here/$c/Cargo.toml" ] || continue
  [ -f "$here/$c/Cargo.lock" ] || cp /repo/Cargo.lock "$here/$c/Cargo.lock"
done
( cd "$here/mc" && CARGO_TARGET_DIR="$here/target/mc" RUSTFLAGS="--cfg repe_verif" cargo build --release --offline )
if [ -f "$here/lm/Cargo.toml" ]; then
  ( cd "$here/lm" && CARGO_TARGET_DIR="$here/target/lm" RUSTFLAGS="--cfg repe_verif_loom" cargo build --release --offline )
fi
