//! C15 (registry clause, concurrent part) — "with a peer registry attached, the
//! peer and its aliases are present from connect until [disconnect] and absent
//! afterwards", for connections whose hooks run on different threads.
//!
//! `WebSocketServer::with_peer_registry` makes exactly three kinds of registry
//! call on behalf of a connection: `insert(peer)` from its connect hook,
//! `alias(id, key)` from the embedder's connect hook, `remove(id)` from its
//! disconnect hook (the mc part of C15 decides *that* and *when* those hooks
//! run, per connection). Here each loom thread is one connection executing
//! that lifecycle on the real `PeerRegistry`, and the clause is checked in the
//! connection's own thread while it is connected and after it disconnected, on
//! every interleaving of 2–3 overlapping lifecycles (the reconnect race: an old
//! connection disconnecting while its successors take over its aliases).
//!
//! The oracle asserts only what the clause states and only where it is
//! unambiguous: a key is claimed by at most one *concurrent* connection, so
//! while that connection is connected the key must resolve to it.

use crate::harness::{self, violation};
use repe::{NotifyBody, PeerHandle, PeerId, PeerRegistry, PeerSendError, PeerSink};
use std::sync::Arc;

const KEYS: [&str; 2] = ["k0", "k1"];

struct NullSink;
impl PeerSink for NullSink {
    fn send_notify(&self, _m: &str, _b: NotifyBody) -> Result<(), PeerSendError> {
        Ok(())
    }
}

#[derive(Clone, Debug, PartialEq, Eq)]
pub enum Step {
    /// connect hook of `with_peer_registry`
    Connect(u64),
    /// embedder's connect hook: claim a key (possibly held by an older connection)
    Alias(u64, usize),
    /// the connection is connected here: it and the listed aliases must be present
    Connected(u64, Vec<usize>),
    /// disconnect hook of `with_peer_registry`
    Disconnect(u64),
    /// the connection has ended: it and every alias to it must be absent
    Ended(u64),
}

#[derive(Clone, Debug)]
pub struct Spec {
    pub name: String,
    pub threads: Vec<Vec<Step>>,
    /// connections still connected when all threads finished, with their aliases
    pub live_at_end: Vec<(u64, Vec<usize>)>,
    pub ended_at_end: Vec<u64>,
    /// preemption bound (None = every interleaving)
    pub bound: Option<usize>,
}

fn check_connected(reg: &PeerRegistry, p: u64, keys: &[usize], when: &str) {
    if reg.get(PeerId(p)).is_none() {
        violation("C15:registry:peer-absent-while-connected", format!("{when}: connection {p} is connected but the registry does not hold it"));
    }
    let listed = reg.aliases_for(PeerId(p));
    for k in keys {
        let got = reg.get_by(KEYS[*k]).map(|h| h.peer_id().0);
        if got != Some(p) {
            violation("C15:registry:alias-lost-while-connected", format!(
                "{when}: connection {p} claimed alias {:?} in its connect hook and is still connected, nobody else claimed it since, yet it resolves to {got:?}", KEYS[*k]));
        }
        if !listed.iter().any(|s| s == KEYS[*k]) {
            violation("C15:registry:alias-lost-while-connected", format!(
                "{when}: connection {p} is connected and holds alias {:?}, but aliases_for lists {listed:?}", KEYS[*k]));
        }
    }
}

fn check_ended(reg: &PeerRegistry, p: u64, when: &str) {
    if reg.get(PeerId(p)).is_some() {
        violation("C15:registry:present-after-disconnect", format!("{when}: connection {p} ran its disconnect hook but the registry still holds it"));
    }
    let listed = reg.aliases_for(PeerId(p));
    if !listed.is_empty() {
        violation("C15:registry:present-after-disconnect", format!("{when}: connection {p} has ended but still lists aliases {listed:?}"));
    }
    for k in KEYS {
        if reg.get_by(k).map(|h| h.peer_id().0) == Some(p) {
            violation("C15:registry:present-after-disconnect", format!("{when}: connection {p} has ended but alias {k:?} still resolves to it"));
        }
    }
}

fn exec(reg: &PeerRegistry, step: &Step) -> String {
    match step {
        Step::Connect(p) => {
            reg.insert(PeerHandle::new(PeerId(*p), Arc::new(NullSink)));
            String::new()
        }
        Step::Alias(p, k) => {
            if !reg.alias(PeerId(*p), KEYS[*k]) {
                violation("C15:registry:peer-absent-while-connected", format!(
                    "connection {p} is connected (its insert hook returned) but alias({:?}) reports it unknown", KEYS[*k]));
            }
            String::new()
        }
        Step::Connected(p, keys) => {
            check_connected(reg, *p, keys, "while connected");
            // what else the connection sees is schedule dependent: record it for non-vacuity
            format!("{:?}/{:?}", reg.get_by(KEYS[0]).map(|h| h.peer_id().0), reg.get_by(KEYS[1]).map(|h| h.peer_id().0))
        }
        Step::Disconnect(p) => {
            reg.remove(PeerId(*p));
            String::new()
        }
        Step::Ended(p) => {
            check_ended(reg, *p, "after its disconnect hook");
            String::new()
        }
    }
}

pub fn body(spec: &Spec) {
    let reg = PeerRegistry::new();
    // connection 0 is the old one: connected earlier, holds both keys
    for s in [Step::Connect(0), Step::Alias(0, 0), Step::Alias(0, 1), Step::Connected(0, vec![0, 1])] {
        exec(&reg, &s);
    }
    let mut hs = Vec::new();
    for script in spec.threads.iter().cloned() {
        let reg = reg.clone();
        hs.push(loom::thread::spawn(move || script.iter().map(|s| exec(&reg, s)).collect::<Vec<_>>().join(",")));
    }
    let seen: Vec<String> = hs.into_iter().map(|h| h.join().unwrap()).collect();
    for (p, keys) in &spec.live_at_end {
        check_connected(&reg, *p, keys, "after every hook returned");
    }
    for p in &spec.ended_at_end {
        check_ended(&reg, *p, "after every hook returned");
    }
    harness::outcome(seen.join("|"));
}

pub fn catalogue(thorough: bool) -> Vec<Spec> {
    use Step::*;
    // (name, lifecycle, live at end?, aliases claimed)
    let old_leaves = ("old-disconnects", vec![Disconnect(0), Ended(0)]);
    let succ = |p: u64, k: usize, leaves: bool| {
        let mut v = vec![Connect(p), Alias(p, k), Connected(p, vec![k])];
        if leaves {
            v.extend([Disconnect(p), Ended(p)]);
        }
        v
    };
    let both = |p: u64, leaves: bool| {
        let mut v = vec![Connect(p), Alias(p, 0), Alias(p, 1), Connected(p, vec![0, 1])];
        if leaves {
            v.extend([Disconnect(p), Ended(p)]);
        }
        v
    };
    let mut out = Vec::new();
    // two lifecycles: the old connection ends while one successor takes over
    for (nm, script, live) in [
        ("succ1-takes-k0", succ(1, 0, false), Some((1u64, vec![0usize]))),
        ("succ1-takes-k1", succ(1, 1, false), Some((1, vec![1]))),
        ("succ1-takes-both", both(1, false), Some((1, vec![0, 1]))),
        ("succ1-takes-k0-and-leaves", succ(1, 0, true), None),
        ("succ1-takes-both-and-leaves", both(1, true), None),
    ] {
        out.push(Spec {
            name: format!("2/{}|{nm}", old_leaves.0),
            threads: vec![old_leaves.1.clone(), script],
            live_at_end: live.clone().into_iter().collect(),
            ended_at_end: if live.is_some() { vec![0] } else { vec![0, 1] },
            bound: None,
        });
    }
    // three lifecycles: two successors split the old connection's keys
    for (nm, a, b, live, ended) in [
        ("succ1-k0|succ2-k1", succ(1, 0, false), succ(2, 1, false), vec![(1u64, vec![0usize]), (2, vec![1])], vec![0u64]),
        ("succ1-k0-leaves|succ2-k1", succ(1, 0, true), succ(2, 1, false), vec![(2, vec![1])], vec![0, 1]),
    ] {
        out.push(Spec {
            name: format!("3/{}|{nm}", old_leaves.0),
            threads: vec![old_leaves.1.clone(), a, b],
            live_at_end: live,
            ended_at_end: ended,
            bound: Some(if thorough { 3 } else { 2 }),
        });
    }
    if thorough {
        out.push(Spec {
            name: format!("3/{}|succ1-k0-leaves|succ2-k1-leaves", old_leaves.0),
            threads: vec![old_leaves.1.clone(), succ(1, 0, true), succ(2, 1, true)],
            live_at_end: vec![],
            ended_at_end: vec![0, 1, 2],
            bound: Some(3),
        });
        // the old connection stays; a successor takes one key and leaves: the old one keeps the other
        out.push(Spec {
            name: "2/succ1-k0-leaves|succ2-k1-leaves(old stays)".into(),
            threads: vec![succ(1, 0, true), succ(2, 1, true)],
            live_at_end: vec![(0, vec![])],
            ended_at_end: vec![1, 2],
            bound: Some(4),
        });
    }
    out
}
