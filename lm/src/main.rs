//! `lm <property> <quick|thorough>`            parent: runs every loom harness of the property
//! `lm <property> --replay <file>`              re-executes one recorded failing schedule
//! `lm child <property> <tier> <harness> <bound|none> <max_secs>`   one harness, in-process loom
//!
//! Built with `--cfg repe_verif_loom`, so the repe sources under test use
//! loom's Mutex/Condvar/RwLock/atomics/mpsc/thread and a virtual clock.

mod c12;
mod c14;
mod c15;
mod c18;
mod client_h;
#[path = "../../common/ctx.rs"]
mod ctx;
mod harness;

use ctx::{Ctx, Tier};
use harness::Job;
use serde_json::json;

fn usage() -> ! {
    eprintln!("usage: lm <Cxx> <quick|thorough> | lm <Cxx> --replay <file>");
    std::process::exit(2)
}

fn child(args: &[String]) {
    let prop = args[0].as_str();
    let thorough = args[1] == "thorough";
    let name = args[2].as_str();
    let bound = args[3].parse::<usize>().ok();
    let max_secs: u64 = args[4].parse().unwrap_or(60);
    match prop {
        "C12" => {
            let spec = c12::catalogue(thorough)
                .into_iter()
                .find(|s| s.name == name)
                .unwrap_or_else(|| {
                    eprintln!("unknown harness {name}");
                    std::process::exit(2)
                });
            harness::run_child(bound, max_secs, move || c12::body(&spec));
        }
        "C11" => {
            c12::set_for_c11();
            let spec = c12::catalogue_c11(thorough).into_iter().find(|s| s.name == name).unwrap_or_else(|| {
                eprintln!("unknown harness {name}");
                std::process::exit(2)
            });
            harness::run_child(bound, max_secs, move || c12::body(&spec));
        }
        "C04" | "C05" | "C06" => {
            let spec = client_h::catalogue(prop, thorough)
                .into_iter()
                .find(|s| s.name == name)
                .unwrap_or_else(|| {
                    eprintln!("unknown harness {name}");
                    std::process::exit(2)
                });
            harness::run_child(bound, max_secs, move || client_h::body(&spec));
        }
        "C14" => {
            let spec = c14::catalogue(thorough)
                .into_iter()
                .find(|s| s.name == name)
                .unwrap_or_else(|| {
                    eprintln!("unknown harness {name}");
                    std::process::exit(2)
                });
            harness::run_child(bound, max_secs, move || c14::body(&spec));
        }
        "C15" => {
            let spec = c15::catalogue(thorough)
                .into_iter()
                .find(|s| s.name == name)
                .unwrap_or_else(|| {
                    eprintln!("unknown harness {name}");
                    std::process::exit(2)
                });
            harness::run_child(bound, max_secs, move || c15::body(&spec));
        }
        "C18" => {
            let spec = c18::catalogue(thorough)
                .into_iter()
                .find(|s| s.name == name)
                .unwrap_or_else(|| {
                    eprintln!("unknown harness {name}");
                    std::process::exit(2)
                });
            harness::run_child(bound, max_secs, move || c18::body(&spec));
        }
        _ => {
            eprintln!("unknown property {prop}");
            std::process::exit(2)
        }
    }
}

/// Generic parent for linearizability-style loom catalogues.
fn run_catalogue(
    id: &'static str,
    tier: Tier,
    names: Vec<(String, Option<usize>)>,
    bound: Option<usize>,
    deadlock_key: &str,
    samples: Vec<serde_json::Value>,
    rule: &str,
    assumptions: &[&str],
) -> ! {
    let ctx = Ctx::new(id, tier);
    let jobs: Vec<Job> = names
        .iter()
        .map(|(n, b)| Job { name: n.clone(), bound: b.or(bound), max_secs: tier.pick(40, 600) })
        .collect();
    let sum = harness::run_jobs(&ctx, tier.name(), jobs, deadlock_key);
    if sum.distinct_outcomes.len() < 2 && !ctx.has_violation() {
        ctx.machinery("vacuous exploration: fewer than 2 distinct outcomes over all harnesses");
    }
    let coverage = json!({
        "states": sum.schedules.max(1),
        "transitions": sum.schedules.max(1),
        "traces_validated_against_impl": sum.schedules,
        "samples": samples,
        "exhaustive": sum.incomplete.is_empty(),
        "harnesses": sum.harnesses,
        "schedules": sum.schedules,
        "preemption_bound": bound,
        "incomplete_harnesses(cap hit)": sum.incomplete,
        "distinct_outcomes": sum.distinct_outcomes.len(),
        "harnesses_with_single_outcome": sum.single_outcome_harnesses,
        "per_harness": sum.per_harness.iter().map(|h| {
            let mut h = h.clone();
            if let Some(o) = h.get_mut("outcomes") { *o = json!(o.as_object().map(|m| m.len()).unwrap_or(0)); }
            h
        }).collect::<Vec<_>>(),
        "rule": rule,
    });
    ctx.finish("model_checking", coverage, assumptions)
}

fn run_c12(tier: Tier) -> ! {
    let ctx = Ctx::new("C12", tier);
    let thorough = tier == Tier::Thorough;
    let specs = c12::catalogue(thorough);
    let bound = Some(tier.pick(3, 4));
    let jobs: Vec<Job> = specs
        .iter()
        .map(|s| {
            // three signalling threads + waiter + clock: one preemption less in the thorough tier,
            // so that every harness completes (the per-harness bound is in the evidence)
            let b = if thorough && s.name.contains("/3/") { Some(3) } else { bound };
            Job { name: s.name.clone(), bound: b, max_secs: tier.pick(40, 600) }
        })
        .collect();
    let sum = harness::run_jobs(&ctx, tier.name(), jobs, "C12:missed-wakeup");
    if sum.schedules < 1000 && !ctx.has_violation() {
        ctx.machinery("vacuous exploration: fewer than 1000 schedules in total");
    }
    let samples: Vec<_> = specs
        .iter()
        .take(4)
        .map(|s| json!({"harness": s.name, "waiter": format!("{:?}", s.waiter), "signaller_threads": format!("{:?}", s.threads)}))
        .collect();
    let coverage = json!({
        "states": sum.schedules.max(1),
        "transitions": sum.schedules.max(1),
        "traces_validated_against_impl": sum.schedules,
        "samples": samples,
        "exhaustive": sum.incomplete.is_empty(),
        "harnesses": sum.harnesses,
        "schedules": sum.schedules,
        "preemption_bound": bound,
        "incomplete_harnesses(cap hit)": sum.incomplete,
        "distinct_outcomes": sum.distinct_outcomes,
        "harnesses_with_single_outcome": sum.single_outcome_harnesses,
        "per_harness": sum.per_harness,
        "rule": "each harness = 1 waiter + 1..3 signalling threads (+ clock thread) over the real stream.rs under loom DPOR with the stated preemption bound; 'states'/'transitions' count complete schedules (loom is stateless); every schedule's result is checked against all sequential orders of the signalling operations",
    });
    ctx.finish(
        "model_checking",
        coverage,
        &[
            "loom explores sequentially consistent interleavings at lock/condvar/atomic granularity up to the preemption bound",
            "condition-variable timeouts are modelled by a virtual clock: a timed wait is woken only by a notification or when the harness advances the clock past its deadline",
            "spurious wake-ups other than timer expiry are not modelled",
        ],
    )
}

fn main() {
    let args: Vec<String> = std::env::args().collect();
    if args.len() >= 2 && args[1] == "child" {
        if args.len() < 7 {
            usage();
        }
        child(&args[2..]);
        return;
    }
    if args.len() < 3 {
        usage();
    }
    let prop = args[1].to_uppercase();
    if args[2] == "--replay" {
        let Some(path) = args.get(3) else { usage() };
        let doc: serde_json::Value =
            serde_json::from_slice(&std::fs::read(path).unwrap_or_default()).unwrap_or_default();
        let case = &doc["case"];
        let job = Job {
            name: case["harness"].as_str().unwrap_or("").to_string(),
            bound: case["preemption_bound"].as_u64().map(|b| b as usize),
            max_secs: 600,
        };
        let ck = case["loom_checkpoint"].as_str().map(std::path::PathBuf::from);
        let tier = case["tier"].as_str().unwrap_or("quick").to_string();
        let r = harness::spawn_child(&prop, &tier, &job, ck.as_deref().map(|p| (p, u64::MAX / 4)), "deadlock");
        match r {
            harness::ChildResult::Ok { schedules, .. } => {
                println!("replay: property held ({schedules} schedules from the checkpoint on)");
                std::process::exit(0)
            }
            harness::ChildResult::Violation { key, what, .. } => {
                println!("replay: VIOLATION reproduced: {key} :: {what}");
                std::process::exit(1)
            }
            harness::ChildResult::Machinery(m) => {
                eprintln!("replay: machinery error: {m}");
                std::process::exit(2)
            }
        }
    }
    let tier = match args[2].as_str() {
        "quick" => Tier::Quick,
        "thorough" => Tier::Thorough,
        _ => usage(),
    };
    match prop.as_str() {
        "C12" => run_c12(tier),
        "C11" => {
            let specs = c12::catalogue_c11(tier == Tier::Thorough);
            let samples: Vec<_> = specs.iter().take(3).map(|s| json!({"harness": s.name, "waiter": format!("{:?}", s.waiter), "signaller_threads": format!("{:?}", s.threads)})).collect();
            run_catalogue(
                "C11",
                tier,
                specs.iter().map(|s| (s.name.clone(), if s.threads.len() >= 3 { Some(tier.pick(2, 3)) } else { None })).collect(),
                Some(tier.pick(3, 4)),
                "C11:concurrent:missed-wakeup",
                samples,
                "concurrent part of C11: 1 waiter (credit / reconnect / oversized credit) + 2..3 threads of which at least two cancel with different reasons (plus acks, resumes, an advance racing them) over the real stream.rs under loom DPOR with the stated preemption bound; the waiter's result and the reason read once every thread has finished must be explained by one sequential order of the operations (the first cancel of that order is the reason everywhere)",
                &[
                    "loom explores sequentially consistent interleavings at lock/condvar/atomic granularity up to the preemption bound",
                    "the sequential part of C11 (every operation sequence up to the depth bound against the reference model) is the mc engine's",
                ],
            )
        }
        "C04" | "C05" | "C06" => {
            let id: &'static str = match prop.as_str() { "C04" => "C04", "C05" => "C05", _ => "C06" };
            let specs = client_h::catalogue(id, tier == Tier::Thorough);
            let samples = specs.iter().take(3).map(|s| json!({"harness": s.name, "callers": format!("{:?}", s.callers), "server_script": format!("{:?}", s.server)})).collect();
            run_catalogue(
                id,
                tier,
                specs.iter().map(|s| (s.name.clone(), s.bound)).collect(),
                Some(tier.pick(2, 3)),
                match id { "C04" => "C04:hang", "C05" => "C05:hang", _ => "C06:hang" },
                samples,
                "each harness = caller threads + the blocking client's reader thread + main as scripted server/clock over the real client.rs under loom (mock socket, loom channel with virtual-clock timeouts); a thread left blocked when all others finished is a hang",
                &["sequentially consistent interleavings at lock/channel/socket-operation granularity within the preemption bound", "the mock socket models blocking reads/writes, shutdown and EOF; kernel buffering is modelled by an explicit pipe capacity"],
            )
        }
        "C14" => {
            let specs = c14::catalogue(tier == Tier::Thorough);
            let samples = specs.iter().take(3).map(|s| json!({"harness": s.name, "threads": format!("{:?}", s.threads)})).collect();
            run_catalogue(
                "C14",
                tier,
                specs.iter().map(|s| (s.name.clone(), None)).collect(),
                None,
                "C14:deadlock",
                samples,
                "each harness = 2-3 threads of registry requests (read / write / call / register) on colliding pointers over the real registry.rs under loom (unbounded DPOR); per-thread results, callable invocations and final reads of every schedule must equal those of some sequential order on a plain JSON document + callable set",
                &["sequentially consistent interleavings at RwLock granularity (loom)"],
            )
        }
        "C15" => {
            let specs = c15::catalogue(tier == Tier::Thorough);
            let samples = specs.iter().take(3).map(|s| json!({"harness": s.name, "threads": format!("{:?}", s.threads)})).collect();
            run_catalogue(
                "C15",
                tier,
                specs.iter().map(|s| (s.name.clone(), s.bound)).collect(),
                None,
                "C15:registry:deadlock",
                samples,
                "registry clause under concurrency: each loom thread is one connection running the lifecycle with_peer_registry gives it (insert from the connect hook, alias from the embedder's connect hook, remove from the disconnect hook) on the real peer.rs; 2-3 overlapping lifecycles (old connection ending while successors take over its aliases), every interleaving for 2 lifecycles (unbounded DPOR), preemption bound 2 (quick) / 3 (thorough) for 3; in its own thread each connection checks that it and the aliases only it claims are present while connected and absent after its disconnect hook, and again after all hooks returned",
                &["sequentially consistent interleavings at lock/atomic granularity (loom)", "that the hooks run (once, in this order) per connection is decided by the mc part"],
            )
        }
        "C18" => {
            let specs = c18::catalogue(tier == Tier::Thorough);
            let samples = specs.iter().take(3).map(|s| json!({"harness": s.name, "threads": format!("{:?}", s.threads)})).collect();
            run_catalogue(
                "C18",
                tier,
                specs.iter().map(|s| (s.name.clone(), None)).collect(),
                None,
                "C18:deadlock",
                samples,
                "each harness = 2-3 threads of registry operations on colliding peers and keys over the real peer.rs under loom; per-thread results and final observations of every schedule must equal those of some sequential order on the reference model",
                &["sequentially consistent interleavings at lock/atomic granularity (loom); broadcast linearizes at its snapshot"],
            )
        }
        _ => {
            eprintln!("unknown property {prop}");
            std::process::exit(2)
        }
    }
}
