//! C14 (concurrent part) — real `registry.rs` under loom: concurrent reads,
//! writes, calls and registrations on colliding pointers must be serialised:
//! every schedule's results and final observations equal those of some
//! sequential order on a plain JSON document + set of callables.

use crate::harness::{self, violation};
use repe::{ErrorCode, Registry};
use serde_json::{Value, json};
use std::collections::BTreeSet;
use std::sync::{Arc, Mutex};

#[derive(Clone, Debug, PartialEq)]
pub enum Op {
    Read(&'static str),
    /// dispatch with a body: a call if a function is registered there, else a write
    Send(&'static str, Value),
    RegisterFunction(&'static str),
    RegisterValue(&'static str, Value),
}

#[derive(Clone, Debug, PartialEq)]
pub enum Res {
    Value(Value),
    Wrote,
    Called(Value),
    Err,
    Unit,
}

#[derive(Clone, Debug, PartialEq)]
struct Model {
    root: Value,
    functions: BTreeSet<String>,
    calls: Vec<(String, Value)>,
}

fn tokens(p: &str) -> Vec<String> {
    if p.is_empty() || p == "/" {
        return Vec::new();
    }
    p[1..].split('/').map(|t| t.replace("~1", "/").replace("~0", "~")).collect()
}

fn get<'a>(root: &'a Value, toks: &[String]) -> Option<&'a Value> {
    let mut cur = root;
    for t in toks {
        cur = match cur {
            Value::Object(m) => m.get(t)?,
            Value::Array(a) => a.get(t.parse::<usize>().ok()?)?,
            _ => return None,
        };
    }
    Some(cur)
}

fn get_mut<'a>(root: &'a mut Value, toks: &[String]) -> Option<&'a mut Value> {
    let mut cur = root;
    for t in toks {
        cur = match cur {
            Value::Object(m) => m.get_mut(t)?,
            Value::Array(a) => a.get_mut(t.parse::<usize>().ok()?)?,
            _ => return None,
        };
    }
    Some(cur)
}

impl Model {
    fn ensure_parents(&mut self, toks: &[String]) {
        if !self.root.is_object() {
            self.root = json!({});
        }
        let mut cur = &mut self.root;
        for t in &toks[..toks.len().saturating_sub(1)] {
            let m = cur.as_object_mut().unwrap();
            let e = m.entry(t.clone()).or_insert_with(|| json!({}));
            if !e.is_object() {
                *e = json!({});
            }
            cur = e;
        }
    }
    fn apply(&mut self, op: &Op) -> Res {
        match op {
            Op::Read(p) => {
                if self.functions.contains(*p) {
                    return Res::Value(json!({"type": "function", "path": p}));
                }
                match get(&self.root, &tokens(p)) {
                    Some(v) => Res::Value(v.clone()),
                    None => Res::Err,
                }
            }
            Op::Send(p, v) => {
                if self.functions.contains(*p) {
                    self.calls.push((p.to_string(), v.clone()));
                    return Res::Called(json!({"echo": v}));
                }
                let toks = tokens(p);
                if toks.is_empty() {
                    let Value::Object(o) = v else { return Res::Err };
                    if !self.root.is_object() {
                        self.root = json!({});
                    }
                    for (k, val) in o {
                        self.root.as_object_mut().unwrap().insert(k.clone(), val.clone());
                    }
                    return Res::Wrote;
                }
                let (last, parents) = toks.split_last().unwrap();
                match get_mut(&mut self.root, parents) {
                    Some(Value::Object(m)) => {
                        m.insert(last.clone(), v.clone());
                        Res::Wrote
                    }
                    Some(Value::Array(a)) => match last.parse::<usize>().ok().and_then(|i| a.get_mut(i)) {
                        Some(slot) => {
                            *slot = v.clone();
                            Res::Wrote
                        }
                        None => Res::Err,
                    },
                    _ => Res::Err,
                }
            }
            Op::RegisterFunction(p) => {
                let toks = tokens(p);
                self.ensure_parents(&toks);
                self.functions.insert(p.to_string());
                Res::Unit
            }
            Op::RegisterValue(p, v) => {
                let toks = tokens(p);
                if toks.is_empty() {
                    self.root = v.clone();
                    return Res::Unit;
                }
                self.ensure_parents(&toks);
                let (last, parents) = toks.split_last().unwrap();
                get_mut(&mut self.root, parents).unwrap().as_object_mut().unwrap().insert(last.clone(), v.clone());
                Res::Unit
            }
        }
    }
}

type CallLog = Arc<Mutex<Vec<(String, Value)>>>;

fn exec(reg: &Registry, log: &CallLog, op: &Op) -> Res {
    match op {
        Op::Read(p) => match reg.dispatch(p, None) {
            Ok(v) => Res::Value(v),
            Err(_) => Res::Err,
        },
        Op::Send(p, v) => match reg.dispatch(p, Some(v.clone())) {
            Ok(r) => {
                if r.get("echo").is_some() {
                    Res::Called(r)
                } else {
                    Res::Wrote
                }
            }
            Err(_) => Res::Err,
        },
        Op::RegisterFunction(p) => {
            let log = log.clone();
            let path = p.to_string();
            reg.register_function(p, move |params: Option<Value>| -> Result<Value, (ErrorCode, String)> {
                let v = params.unwrap_or(Value::Null);
                log.lock().unwrap().push((path.clone(), v.clone()));
                Ok(json!({"echo": v}))
            })
            .map(|_| Res::Unit)
            .unwrap_or(Res::Err)
        }
        Op::RegisterValue(p, v) => reg.register_value(p, v.clone()).map(|_| Res::Unit).unwrap_or(Res::Err),
    }
}

const OBSERVE: [&str; 6] = ["", "/a", "/a/b", "/f", "/x", "/a/c"];

fn setup_ops() -> Vec<Op> {
    vec![Op::RegisterValue("/a", json!({"b": 1})), Op::RegisterValue("/x", json!(0))]
}

#[derive(Clone, Debug)]
pub struct Spec {
    pub name: String,
    pub threads: Vec<Vec<Op>>,
}

fn explain(threads: &[Vec<Op>], results: &[Vec<Res>], final_obs: &[Res], calls: &[(String, Value)]) -> bool {
    fn rec(
        threads: &[Vec<Op>],
        results: &[Vec<Res>],
        final_obs: &[Res],
        calls: &[(String, Value)],
        pos: &mut Vec<usize>,
        m: &Model,
    ) -> bool {
        let mut any = false;
        for t in 0..threads.len() {
            if pos[t] < threads[t].len() {
                any = true;
                let mut m2 = m.clone();
                let r = m2.apply(&threads[t][pos[t]]);
                if r == results[t][pos[t]] {
                    pos[t] += 1;
                    let ok = rec(threads, results, final_obs, calls, pos, &m2);
                    pos[t] -= 1;
                    if ok {
                        return true;
                    }
                }
            }
        }
        if any {
            return false;
        }
        let mut mm = m.clone();
        let obs: Vec<Res> = OBSERVE.iter().map(|p| mm.apply(&Op::Read(p))).collect();
        // invocations: same multiset, and per function the same sequence is not
        // required across threads (calls run outside the lock), only exactly-once
        let mut a: Vec<String> = m.calls.iter().map(|c| format!("{c:?}")).collect();
        let mut b: Vec<String> = calls.iter().map(|c| format!("{c:?}")).collect();
        a.sort();
        b.sort();
        obs == final_obs && a == b
    }
    let mut m = Model { root: json!({}), functions: BTreeSet::new(), calls: Vec::new() };
    for op in setup_ops() {
        m.apply(&op);
    }
    rec(threads, results, final_obs, calls, &mut vec![0; threads.len()], &m)
}

pub fn body(spec: &Spec) {
    let reg = Arc::new(Registry::new());
    let log: CallLog = Arc::new(Mutex::new(Vec::new()));
    for op in setup_ops() {
        exec(&reg, &log, &op);
    }
    let mut hs = Vec::new();
    for script in spec.threads.iter().cloned() {
        let reg = reg.clone();
        let log = log.clone();
        hs.push(loom::thread::spawn(move || script.iter().map(|op| exec(&reg, &log, op)).collect::<Vec<_>>()));
    }
    let results: Vec<Vec<Res>> = hs.into_iter().map(|h| h.join().unwrap()).collect();
    let final_obs: Vec<Res> = OBSERVE.iter().map(|p| exec(&reg, &log, &Op::Read(p))).collect();
    let calls = log.lock().unwrap().clone();
    if !explain(&spec.threads, &results, &final_obs, &calls) {
        violation(
            "C14:not-serialisable",
            format!(
                "threads {:?} returned {results:?}, invocations {calls:?}, final reads {final_obs:?}: no sequential order of these requests does that",
                spec.threads
            ),
        );
    }
    harness::outcome(format!("{results:?}|{final_obs:?}"));
}

pub fn catalogue(thorough: bool) -> Vec<Spec> {
    let menu: Vec<(&str, Vec<Op>)> = vec![
        ("w2", vec![Op::Send("/a/b", json!(2))]),
        ("w3+r", vec![Op::Send("/a/b", json!(3)), Op::Read("/a/b")]),
        ("r+r", vec![Op::Read("/a/b"), Op::Read("/a")]),
        ("rootmerge", vec![Op::Send("", json!({"x": 5, "a": {"b": 8}}))]),
        ("regf", vec![Op::RegisterFunction("/f")]),
        ("sendf", vec![Op::Send("/f", json!(7))]),
        ("regv", vec![Op::RegisterValue("/a", json!({"c": 9}))]),
        ("readf+reada", vec![Op::Read("/f"), Op::Read("/a")]),
        ("regf+sendf", vec![Op::RegisterFunction("/f"), Op::Send("/f", json!(1))]),
        ("wc+rb", vec![Op::Send("/a/c", json!(4)), Op::Read("/a/b")]),
        // observers that read two keys of a concurrent root merge in both orders
        ("rab+rx", vec![Op::Read("/a/b"), Op::Read("/x")]),
        ("rx+rab", vec![Op::Read("/x"), Op::Read("/a/b")]),
        ("rootmerge2", vec![Op::Send("", json!({"x": 6, "a": {"b": 9}}))]),
        ("rroot", vec![Op::Read("")]),
    ];
    let mut out = Vec::new();
    for i in 0..menu.len() {
        for j in i..menu.len() {
            out.push(Spec {
                name: format!("2/{}|{}", menu[i].0, menu[j].0),
                threads: vec![menu[i].1.clone(), menu[j].1.clone()],
            });
        }
    }
    let tri = if thorough { menu.len() } else { 6 };
    for i in 0..tri {
        for j in i + 1..tri {
            for k in j + 1..tri {
                out.push(Spec {
                    name: format!("3/{}|{}|{}", menu[i].0, menu[j].0, menu[k].0),
                    threads: vec![menu[i].1.clone(), menu[j].1.clone(), menu[k].1.clone()],
                });
            }
        }
    }
    out
}
