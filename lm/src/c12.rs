//! C12 — a parked producer is always woken. Loom exploration of the real
//! `stream.rs` (built with `--cfg repe_verif_loom`): one waiter blocked in
//! `wait_for_credit` / `wait_for_reconnect`, 1–3 signalling threads, an
//! optional clock thread; oracle = brute-force linearization against a model.
//!
//! Liveness is decided without wall-clock time: after all signallers finished,
//! main computes (from every linearization consistent with what was observed)
//! whether the waiter's condition must hold. If so, virtual time is *not*
//! advanced, and a waiter that missed its wake-up is left blocked with every
//! other thread done — which loom reports as a deadlock. Otherwise main
//! advances the clock to the deadline and the waiter must time out.

use crate::harness::{self, violation};

/// The same harness body decides C12 (its own catalogue) and the concurrent part of C11 (`catalogue_c11`):
/// violation keys carry the property they were found under.
static FOR_C11: std::sync::atomic::AtomicBool = std::sync::atomic::AtomicBool::new(false);
pub fn set_for_c11() {
    FOR_C11.store(true, std::sync::atomic::Ordering::SeqCst);
}
fn key(k: &str) -> String {
    if FOR_C11.load(std::sync::atomic::Ordering::SeqCst) { format!("C11:concurrent:{k}") } else { format!("C12:{k}") }
}
use repe::verif_loom::clock;
use repe::verif_loom::std_shadow::time::Instant as VInstant;
use repe::{
    CreditError, NotifyBody, PeerHandle, PeerId, PeerSendError, PeerSink, ReconnectOutcome,
    TransferControl,
};
use std::sync::Arc;
use std::time::Duration;

const SEC: u64 = 1_000_000_000;

struct NullSink;
impl PeerSink for NullSink {
    fn send_notify(&self, _m: &str, _b: NotifyBody) -> Result<(), PeerSendError> {
        Ok(())
    }
}
fn peer(id: u64) -> PeerHandle {
    PeerHandle::new(PeerId(id), Arc::new(NullSink))
}

#[derive(Clone, Copy, Debug, PartialEq, Eq)]
pub enum Op {
    Ack(u32, u64),
    Cancel(&'static str),
    Advance(u32),
    /// (file, offset, peer id installed on acceptance)
    Resume(u32, u64, u64),
    Send(u64),
    Tick(u64),
}

#[derive(Clone, Copy, Debug, PartialEq, Eq)]
pub enum Waiter {
    /// wait_for_credit(c, now + timeout_s)
    Credit { c: u64, timeout_s: u64 },
    /// wait_for_reconnect(timeout_s)
    Reconnect { timeout_s: u64 },
}

#[derive(Clone, Debug, PartialEq, Eq)]
pub enum WResult {
    Ok,
    Cancelled(String),
    ResumeReady(u64),
    Timeout,
}

#[derive(Clone, Debug)]
pub struct Spec {
    pub name: String,
    pub waiter: Waiter,
    pub threads: Vec<Vec<Op>>,
    /// whether main advances the clock to the deadline when the waiter's
    /// condition is not guaranteed by the final state
    pub main_tick: bool,
}

// ------------------------------------------------------------------ model

#[derive(Clone, Debug)]
struct M {
    window: u64,
    sent: u64,
    acked: u64,
    file: u32,
    cancelled: Option<&'static str>,
    pending: Option<u64>,
    ring: Vec<(u64, u64)>,
    now: u64,
    peer: u64,
}

impl M {
    fn initial() -> M {
        M {
            window: 4,
            sent: 4,
            acked: 0,
            file: 0,
            cancelled: None,
            pending: None,
            ring: vec![(0, 2), (2, 2)],
            now: 0,
            peer: 0,
        }
    }
    fn covers(&self, off: u64) -> bool {
        if self.ring.is_empty() {
            return off == 0;
        }
        self.ring.iter().any(|c| c.0 == off) || self.ring.last().map(|c| c.0 + c.1) == Some(off)
    }
    /// returns Some(accepted) for Resume
    fn apply(&mut self, op: Op) -> Option<bool> {
        match op {
            Op::Ack(f, off) => {
                if f == self.file {
                    let c = off.min(self.sent);
                    if c > self.acked {
                        self.acked = c;
                    }
                }
                None
            }
            Op::Cancel(r) => {
                if self.cancelled.is_none() {
                    self.cancelled = Some(r);
                }
                None
            }
            Op::Advance(f) => {
                self.file = f;
                self.sent = 0;
                self.acked = 0;
                self.ring.clear();
                self.pending = None;
                None
            }
            Op::Resume(f, off, id) => {
                if self.cancelled.is_some() || f != self.file || !self.covers(off) {
                    return Some(false);
                }
                self.peer = id;
                self.pending = Some(off);
                if off > self.acked && off <= self.sent {
                    self.acked = off;
                }
                Some(true)
            }
            Op::Send(v) => {
                if v > self.sent {
                    self.sent = v;
                }
                None
            }
            Op::Tick(n) => {
                self.now += n;
                None
            }
        }
    }
    /// what a wait entered (or re-checked) in this state returns without blocking
    fn immediate(&self, w: Waiter, deadline: u64) -> Option<WResult> {
        if let Some(r) = self.cancelled {
            return Some(WResult::Cancelled(r.to_string()));
        }
        match w {
            Waiter::Credit { c, .. } => {
                let inflight = self.sent.saturating_sub(self.acked);
                if inflight == 0 || inflight + c <= self.window {
                    return Some(WResult::Ok);
                }
                if self.now >= deadline {
                    return Some(WResult::Timeout);
                }
                None
            }
            Waiter::Reconnect { .. } => {
                if let Some(p) = self.pending {
                    return Some(WResult::ResumeReady(p));
                }
                if self.now >= deadline {
                    return Some(WResult::Timeout);
                }
                None
            }
        }
    }
    /// the waiter's condition (ignoring the deadline) holds
    fn condition(&self, w: Waiter) -> bool {
        if self.cancelled.is_some() {
            return true;
        }
        match w {
            Waiter::Credit { c, .. } => {
                let inflight = self.sent.saturating_sub(self.acked);
                inflight == 0 || inflight + c <= self.window
            }
            Waiter::Reconnect { .. } => self.pending.is_some(),
        }
    }
}

#[derive(Clone, Debug, PartialEq, Eq)]
struct FinalObs {
    sent: u64,
    acked: u64,
    reason: Option<String>,
    peer: Option<u64>,
}

/// Enumerate every interleaving of `threads` (then `tail` ops in order),
/// calling `visit(states_along_the_way, resume_results_per_thread, final_state)`.
fn linearizations(
    threads: &[Vec<Op>],
    tail: &[Op],
    visit: &mut dyn FnMut(&[M], &[Vec<Option<bool>>]),
) {
    fn rec(
        threads: &[Vec<Op>],
        tail: &[Op],
        pos: &mut Vec<usize>,
        states: &mut Vec<M>,
        results: &mut Vec<Vec<Option<bool>>>,
        visit: &mut dyn FnMut(&[M], &[Vec<Option<bool>>]),
    ) {
        let mut any = false;
        for t in 0..threads.len() {
            if pos[t] < threads[t].len() {
                any = true;
                let mut m = states.last().unwrap().clone();
                let r = m.apply(threads[t][pos[t]]);
                results[t].push(r);
                pos[t] += 1;
                states.push(m);
                rec(threads, tail, pos, states, results, visit);
                states.pop();
                pos[t] -= 1;
                results[t].pop();
            }
        }
        if !any {
            let base = states.len();
            for op in tail {
                let mut m = states.last().unwrap().clone();
                m.apply(*op);
                states.push(m);
            }
            visit(states, results);
            states.truncate(base);
        }
    }
    let mut pos = vec![0; threads.len()];
    let mut states = vec![M::initial()];
    let mut results = vec![Vec::new(); threads.len()];
    rec(threads, tail, &mut pos, &mut states, &mut results, visit);
}

fn consistent(
    lin_results: &[Vec<Option<bool>>],
    obs_results: &[Vec<Option<bool>>],
    fin: &M,
    obs: &FinalObs,
) -> bool {
    lin_results == obs_results
        && fin.sent == obs.sent
        && fin.acked == obs.acked
        && fin.cancelled.map(|s| s.to_string()) == obs.reason
        && Some(fin.peer) == obs.peer
}

// ------------------------------------------------------------------ harness body

fn exec(tc: &TransferControl, op: Op) -> Option<bool> {
    match op {
        Op::Ack(f, o) => {
            tc.record_ack(f, o);
            None
        }
        Op::Cancel(r) => {
            tc.cancel(r);
            None
        }
        Op::Advance(f) => {
            tc.advance_to_file(f);
            None
        }
        Op::Resume(f, o, id) => Some(tc.request_resume(peer(id), f, o).is_ok()),
        Op::Send(v) => {
            tc.record_sent(v);
            None
        }
        Op::Tick(n) => {
            clock::advance(n);
            None
        }
    }
}

/// The idle watchdog as the canceller: the REAL `spawn_watchdog` thread scans a registry holding the
/// transfer; the clock is already past the idle timeout when it starts, so its first scan cancels. The waiter
/// (deadline an hour away) must come back with `Cancelled` without the clock moving again: once main has seen
/// `is_cancelled()` it drops the registry (the watchdog thread then ends) and joins the waiter; a waiter that
/// missed the wake-up is left blocked with every other thread finished, which loom reports as a deadlock.
fn body_watchdog(spec: &Spec) {
    let tc = TransferControl::with_replay_capacity(4, 1 << 20);
    tc.set_peer(peer(0));
    tc.push_replay(0, 2, false, vec![1, 2]);
    tc.push_replay(2, 2, false, vec![3, 4]);
    tc.record_sent(4);
    let registry: Arc<repe::TransferRegistry<u64>> = Arc::new(repe::TransferRegistry::new());
    registry.register(7, tc.clone());
    let waiter = spec.waiter;
    let w_tc = tc.clone();
    let credit_deadline = VInstant(clock::peek_nanos() + FAR * SEC);
    let wh = loom::thread::spawn(move || match waiter {
        Waiter::Credit { c, .. } => match w_tc.wait_for_credit(c, credit_deadline) {
            Ok(()) => WResult::Ok,
            Err(CreditError::Cancelled(r)) => WResult::Cancelled(r),
            Err(CreditError::Timeout) => WResult::Timeout,
        },
        Waiter::Reconnect { timeout_s } => match w_tc.wait_for_reconnect(Duration::from_secs(timeout_s)) {
            ReconnectOutcome::ResumeReady(p) => WResult::ResumeReady(p.resume_at_offset),
            ReconnectOutcome::Cancelled(r) => WResult::Cancelled(r),
            ReconnectOutcome::Timeout => WResult::Timeout,
        },
    });
    // signallers that do not satisfy the waiter (they only move the idle timestamps back a little)
    let mut hs = Vec::new();
    for script in spec.threads.iter().cloned() {
        let tc = tc.clone();
        hs.push(loom::thread::spawn(move || {
            for op in script {
                exec(&tc, op);
            }
        }));
    }
    for h in hs {
        h.join().unwrap();
    }
    // 61 s without a chunk or an ack: idle for a 60 s timeout
    clock::advance(61 * SEC);
    repe::spawn_watchdog(registry.clone(), Duration::from_secs(60));
    while !tc.is_cancelled() {
        loom::thread::yield_now();
    }
    let weak = Arc::downgrade(&registry);
    drop(registry);
    let result = wh.join().unwrap();
    // the detached watchdog thread must be past its last scan before this execution's main thread ends (it
    // reads the virtual clock, which lives in per-execution storage): it holds no strong reference to the
    // registry and no snapshot clone of the transfer any more, so its next `upgrade` fails and it returns
    while weak.strong_count() > 0 || Arc::strong_count(&tc) > 1 {
        loom::thread::yield_now();
    }
    match &result {
        WResult::Cancelled(r) if r == "transfer idle" => {}
        other => violation(
            &key("illegal-wait-result"),
            format!("waiter {waiter:?} returned {other:?} although the idle watchdog had cancelled the transfer (and nothing else could end the wait)"),
        ),
    }
    if clock::peek_nanos() >= credit_deadline.0 {
        violation(&key("early-timeout"), "harness: the clock reached the waiter's deadline".into());
    }
    harness::outcome(format!("{result:?} (idle watchdog)"));
}

pub fn body(spec: &Spec) {
    if spec.name.starts_with("watchdog/") {
        return body_watchdog(spec);
    }
    let tc = TransferControl::with_replay_capacity(4, 1 << 20);
    tc.set_peer(peer(0));
    tc.push_replay(0, 2, false, vec![1, 2]);
    tc.push_replay(2, 2, false, vec![3, 4]);
    tc.record_sent(4);

    let waiter = spec.waiter;
    let w_tc = tc.clone();
    let done = Arc::new(loom::sync::atomic::AtomicBool::new(false));
    let w_done = done.clone();
    // plain (non-loom) cell: written once by the waiter before it does anything else
    let tid: Arc<std::sync::Mutex<Option<loom::thread::ThreadId>>> = Arc::new(std::sync::Mutex::new(None));
    let w_tid = tid.clone();
    // wait_for_credit takes an absolute deadline: fix it before any thread runs
    let credit_deadline = match waiter {
        Waiter::Credit { timeout_s, .. } => VInstant(clock::peek_nanos() + timeout_s * SEC),
        _ => VInstant(0),
    };
    let wh = loom::thread::spawn(move || {
        w_tid.lock().unwrap().replace(loom::thread::current().id());
        // lower bound of the instant from which the wait's timeout is armed
        let mut t0 = clock::peek_nanos();
        let r = match waiter {
            Waiter::Credit { c, timeout_s } => {
                let deadline = credit_deadline;
                t0 = deadline.0 - timeout_s * SEC;
                match w_tc.wait_for_credit(c, deadline) {
                    Ok(()) => WResult::Ok,
                    Err(CreditError::Cancelled(r)) => WResult::Cancelled(r),
                    Err(CreditError::Timeout) => WResult::Timeout,
                }
            }
            Waiter::Reconnect { timeout_s } => {
                match w_tc.wait_for_reconnect(Duration::from_secs(timeout_s)) {
                    ReconnectOutcome::ResumeReady(p) => WResult::ResumeReady(p.resume_at_offset),
                    ReconnectOutcome::Cancelled(r) => WResult::Cancelled(r),
                    ReconnectOutcome::Timeout => WResult::Timeout,
                }
            }
        };
        if let Waiter::Reconnect { .. } = waiter {
            // the wait's own first clock read is the exact arming instant
            if let Some(first) = clock::first_read_of(loom::thread::current().id()) {
                t0 = first;
            }
        }
        let ret = clock::peek_nanos();
        w_done.store(true, std::sync::atomic::Ordering::Release);
        (r, ret, t0)
    });

    let mut hs = Vec::new();
    for script in spec.threads.iter().cloned() {
        let tc = tc.clone();
        hs.push(loom::thread::spawn(move || {
            script.iter().map(|op| exec(&tc, *op)).collect::<Vec<_>>()
        }));
    }
    let obs_results: Vec<Vec<Option<bool>>> = hs.into_iter().map(|h| h.join().unwrap()).collect();

    let timeout_s = match waiter {
        Waiter::Credit { timeout_s, .. } | Waiter::Reconnect { timeout_s } => timeout_s,
    };
    let (sent, acked) = tc.offsets();
    let obs = FinalObs {
        sent,
        acked,
        reason: tc.cancel_reason(),
        peer: tc.peer().map(|p| p.peer_id().0),
    };
    let obs_cmp = |_fin: &M| obs.clone();

    // Does every consistent linearization leave the waiter's condition true?
    let mut n_consistent = 0u32;
    let mut n_condition = 0u32;
    linearizations(&spec.threads, &[], &mut |states, results| {
        let fin = states.last().unwrap();
        if consistent(results, &obs_results, fin, &obs_cmp(fin)) {
            n_consistent += 1;
            if fin.condition(waiter) {
                n_condition += 1;
            }
        }
    });
    if n_consistent == 0 {
        violation(
            &key("signaller-effects"),
            format!(
                "no sequential order of the signalling operations explains what was observed: results {obs_results:?}, final {obs:?}"
            ),
        );
    }
    // The deadline is known once the wait has read the clock (Credit: fixed up front).
    let known_deadline: Option<u64> = match waiter {
        Waiter::Credit { .. } => Some(credit_deadline.0),
        Waiter::Reconnect { timeout_s } => {
            let t = *tid.lock().unwrap();
            t.and_then(clock::first_read_of).map(|t0| t0 + timeout_s * SEC)
        }
    };
    let past_deadline = known_deadline.is_some_and(|d| clock::peek_nanos() >= d);
    // must_return: the waiter has to come back without any further help — its
    // condition holds in every explanation of what was observed, or its
    // deadline has already been reached by the clock thread.
    let must_return = n_condition == n_consistent || past_deadline;
    let mut tail: Vec<Op> = Vec::new();
    if let (false, true, Some(d)) = (must_return, spec.main_tick, known_deadline) {
        // exactly to the deadline, once: a waiter that re-armed a later deadline stays blocked
        let step = d - clock::peek_nanos();
        clock::advance(step);
        tail.push(Op::Tick(step));
    } else if !must_return && spec.main_tick {
        // Advance by a full timeout until the waiter has returned: a relative
        // timeout is armed from whenever the waiter got to read the clock,
        // which may be after an earlier tick.
        let mut ticks = 0u32;
        loop {
            clock::advance(timeout_s * SEC);
            tail.push(Op::Tick(timeout_s * SEC));
            if done.load(std::sync::atomic::Ordering::Acquire) {
                break;
            }
            ticks += 1;
            if ticks > 8 {
                // every tick is a whole timeout and the waiter runs after each: a wait that armed its deadline
                // before the first tick is due after it, one that armed later after the second
                violation(
                    &key("timeout-overdue"),
                    format!("waiter {waiter:?} has not returned although the clock was advanced by its whole timeout {ticks} times (and nothing else will wake it)"),
                );
            }
            loom::thread::yield_now();
        }
    }
    // If the condition must hold and the waiter missed its wake-up, this join
    // never completes and loom reports a deadlock.
    let (result, ret_clock, t0) = wh.join().unwrap();
    let deadline = t0 + timeout_s * SEC;

    // Legality of the waiter's result: some consistent linearization has a
    // point at which a wait in that state returns exactly this.
    let mut legal = false;
    linearizations(&spec.threads, &tail, &mut |states, results| {
        if legal {
            return;
        }
        let fin = states.last().unwrap();
        if !consistent(results, &obs_results, fin, &obs_cmp(fin)) {
            return;
        }
        for s in states {
            if s.immediate(waiter, deadline).as_ref() == Some(&result) {
                legal = true;
                return;
            }
        }
    });
    if !legal {
        violation(
            &key("illegal-wait-result"),
            format!(
                "waiter {waiter:?} returned {result:?} at virtual t={}s; signallers {:?} (results {obs_results:?}), final offsets ({sent},{acked}), cancel {:?}: no order of the signalling operations makes that the result of a wait",
                ret_clock / SEC, spec.threads, obs.reason
            ),
        );
    }
    if result == WResult::Timeout && ret_clock < deadline {
        violation(
            &key("early-timeout"),
            format!("Timeout returned at virtual t={ret_clock}ns, before the deadline {deadline}ns"),
        );
    }
    let woken_by_timer = must_return == false && !tail.is_empty();
    harness::outcome(format!(
        "{result:?}{}",
        if woken_by_timer { " (clock advanced)" } else { "" }
    ));
}

// ------------------------------------------------------------------ harness catalogue

fn credit_menu() -> Vec<(&'static str, Vec<Op>)> {
    vec![
        ("ackfit", vec![Op::Ack(0, 2)]),
        ("ackinsuf+ackall", vec![Op::Ack(0, 1), Op::Ack(0, 4)]),
        ("cancelx", vec![Op::Cancel("x")]),
        ("advance", vec![Op::Advance(1)]),
        ("resume2", vec![Op::Resume(0, 2, 0)]),
        ("send6", vec![Op::Send(6)]),
        ("ackwrongfile", vec![Op::Ack(1, 4)]),
        ("ackinsuf", vec![Op::Ack(0, 1)]),
        ("cancely", vec![Op::Cancel("y")]),
        ("ackall+send8", vec![Op::Ack(0, 4), Op::Send(8)]),
        // an accepted resume that frees no credit stays staged; a later one frees credit
        ("resume0", vec![Op::Resume(0, 0, 0)]),
        ("resume0+resume2", vec![Op::Resume(0, 0, 0), Op::Resume(0, 2, 0)]),
        ("resume0+ackfit", vec![Op::Resume(0, 0, 0), Op::Ack(0, 2)]),
    ]
}

/// The waiter's chunk (6) is larger than the whole window (4): it is granted only once nothing
/// is in flight (the documented exception for oversized chunks).
fn oversized_menu() -> Vec<(&'static str, Vec<Op>)> {
    vec![
        ("ackall", vec![Op::Ack(0, 4)]),
        ("ack2+ackall", vec![Op::Ack(0, 2), Op::Ack(0, 4)]),
        ("ack2", vec![Op::Ack(0, 2)]),
        ("ack3", vec![Op::Ack(0, 3)]),
        ("cancelx", vec![Op::Cancel("x")]),
        ("resume4", vec![Op::Resume(0, 4, 0)]),
        ("advance", vec![Op::Advance(1)]),
    ]
}

fn reconnect_menu() -> Vec<(&'static str, Vec<Op>)> {
    vec![
        ("resume2", vec![Op::Resume(0, 2, 0)]),
        ("resumebad3", vec![Op::Resume(0, 3, 0)]),
        ("cancelx", vec![Op::Cancel("x")]),
        ("advance", vec![Op::Advance(1)]),
        ("resumefile1", vec![Op::Resume(1, 0, 0)]),
        ("ack2", vec![Op::Ack(0, 2)]),
        ("resume2+resume4", vec![Op::Resume(0, 2, 0), Op::Resume(0, 4, 0)]),
        ("cancely", vec![Op::Cancel("y")]),
        // an ack between two resumes, and a resume after an advance discarded the first
        ("resume2+ack2+resume4", vec![Op::Resume(0, 2, 0), Op::Ack(0, 2), Op::Resume(0, 4, 0)]),
        ("advance+resumefile1", vec![Op::Advance(1), Op::Resume(1, 0, 0)]),
    ]
}

const FAR: u64 = 3600;

pub fn catalogue(thorough: bool) -> Vec<Spec> {
    let mut out = Vec::new();
    let cw = Waiter::Credit { c: 2, timeout_s: FAR };
    let rw = Waiter::Reconnect { timeout_s: FAR };
    let ow = Waiter::Credit { c: 6, timeout_s: FAR };
    for (kind, w, menu) in [("credit", cw, credit_menu()), ("reconnect", rw, reconnect_menu()), ("oversized", ow, oversized_menu())] {
        // singles
        for (n, s) in &menu {
            out.push(Spec {
                name: format!("{kind}/1/{n}"),
                waiter: w,
                threads: vec![s.clone()],
                main_tick: true,
            });
        }
        // all unordered pairs of distinct scripts
        for i in 0..menu.len() {
            for j in i + 1..menu.len() {
                out.push(Spec {
                    name: format!("{kind}/2/{}|{}", menu[i].0, menu[j].0),
                    waiter: w,
                    threads: vec![menu[i].1.clone(), menu[j].1.clone()],
                    main_tick: true,
                });
            }
        }
        if thorough {
            // all unordered triples of distinct single-operation scripts
            let singles: Vec<_> = menu.iter().filter(|m| m.1.len() == 1).collect();
            for i in 0..singles.len() {
                for j in i + 1..singles.len() {
                    for k in j + 1..singles.len() {
                        out.push(Spec {
                            name: format!(
                                "{kind}/3/{}|{}|{}",
                                singles[i].0, singles[j].0, singles[k].0
                            ),
                            waiter: w,
                            threads: vec![
                                singles[i].1.clone(),
                                singles[j].1.clone(),
                                singles[k].1.clone(),
                            ],
                            main_tick: true,
                        });
                    }
                }
            }
        }
    }
    // timeout harnesses: deadline 30 s, a clock thread steps 10 s + 20 s
    let clock_thread = vec![Op::Tick(10 * SEC), Op::Tick(20 * SEC)];
    let cw30 = Waiter::Credit { c: 2, timeout_s: 30 };
    let rw30 = Waiter::Reconnect { timeout_s: 30 };
    for (n, s) in [
        ("ackinsuf", vec![Op::Ack(0, 1)]),
        ("send6", vec![Op::Send(6)]),
        ("ackwrongfile", vec![Op::Ack(1, 4)]),
        ("ackinsuf+send6", vec![Op::Ack(0, 1), Op::Send(6)]),
        ("ackfit(race)", vec![Op::Ack(0, 2)]),
        ("cancelx(race)", vec![Op::Cancel("x")]),
    ] {
        out.push(Spec {
            name: format!("credit-timeout/{n}"),
            waiter: cw30,
            threads: vec![clock_thread.clone(), s],
            main_tick: true,
        });
    }
    for (n, s) in [
        ("resumebad3", vec![Op::Resume(0, 3, 0)]),
        ("ack2", vec![Op::Ack(0, 2)]),
        ("resume2(race)", vec![Op::Resume(0, 2, 0)]),
        ("resume2+advance(race)", vec![Op::Resume(0, 2, 0), Op::Advance(1)]),
    ] {
        out.push(Spec {
            name: format!("reconnect-timeout/{n}"),
            waiter: rw30,
            threads: vec![clock_thread.clone(), s],
            main_tick: true,
        });
    }
    if thorough {
        // two insufficient signallers + the clock thread (the deadline re-arm case)
        out.push(Spec {
            name: "credit-timeout/ackinsuf|send6".into(),
            waiter: cw30,
            threads: vec![clock_thread.clone(), vec![Op::Ack(0, 1)], vec![Op::Send(6)]],
            main_tick: true,
        });
        out.push(Spec {
            name: "credit-timeout/ackinsuf|ackwrongfile".into(),
            waiter: cw30,
            threads: vec![clock_thread.clone(), vec![Op::Ack(0, 1)], vec![Op::Ack(1, 4)]],
            main_tick: true,
        });
    }
    // many notifications that do NOT satisfy the wait, and a near deadline (1 s): the wait still times out at
    // its deadline, not after some number of wake-ups
    out.push(Spec {
        name: "credit-timeout-1s/6-nonsatisfying".into(),
        waiter: Waiter::Credit { c: 2, timeout_s: 1 },
        threads: vec![vec![Op::Ack(0, 1), Op::Send(8), Op::Ack(0, 2), Op::Ack(0, 3), Op::Ack(0, 4), Op::Ack(0, 5)]],
        main_tick: true,
    });
    out.push(Spec {
        name: "reconnect-timeout-1s/6-nonsatisfying".into(),
        waiter: Waiter::Reconnect { timeout_s: 1 },
        threads: vec![vec![Op::Ack(0, 1), Op::Ack(0, 2), Op::Ack(0, 3), Op::Ack(0, 4), Op::Send(6), Op::Ack(0, 5)]],
        main_tick: true,
    });
    // the idle watchdog (the real `spawn_watchdog` thread) as the canceller
    for (kind, w) in [("credit", cw), ("reconnect", rw), ("oversized", ow)] {
        out.push(Spec { name: format!("watchdog/{kind}"), waiter: w, threads: vec![], main_tick: false });
        out.push(Spec { name: format!("watchdog/{kind}/after-ackinsuf"), waiter: w, threads: vec![vec![Op::Ack(0, 1)]], main_tick: false });
    }
    // every Resume installs a peer id fixed by its position (thread, index)
    for spec in &mut out {
        for (t, script) in spec.threads.iter_mut().enumerate() {
            for (i, op) in script.iter_mut().enumerate() {
                if let Op::Resume(_, _, id) = op {
                    *id = 10 * (t as u64 + 1) + i as u64;
                }
            }
        }
    }
    out
}


/// C11, concurrent part: "cancellation is permanent and its first reason wins: every pending or later credit
/// or reconnect wait reports it" when the cancels (and the acks / resumes that race them) come from different
/// threads. Same body and oracle as C12: the waiter's result and the reason read after every thread finished
/// must be explained by ONE sequential order of the operations, so a reason that changes after it was
/// reported (or a later cancel overwriting an earlier one) has no explanation.
pub fn catalogue_c11(thorough: bool) -> Vec<Spec> {
    let mut out = Vec::new();
    let cw = Waiter::Credit { c: 2, timeout_s: FAR };
    let rw = Waiter::Reconnect { timeout_s: FAR };
    let ow = Waiter::Credit { c: 6, timeout_s: FAR };
    let x = || vec![Op::Cancel("x")];
    let y = || vec![Op::Cancel("y")];
    for (kind, w) in [("credit", cw), ("reconnect", rw), ("oversized", ow)] {
        let mut push = |name: &str, threads: Vec<Vec<Op>>| out.push(Spec { name: format!("c11/{kind}/{name}"), waiter: w, threads, main_tick: true });
        push("cancelx|cancely", vec![x(), y()]);
        push("cancelx+cancelz|cancely", vec![vec![Op::Cancel("x"), Op::Cancel("z")], y()]);
        push("cancelx|cancely+ackall", vec![x(), vec![Op::Cancel("y"), Op::Ack(0, 4)]]);
        push("cancelx|ackall+cancely", vec![x(), vec![Op::Ack(0, 4), Op::Cancel("y")]]);
        push("cancelx|resume2+cancely", vec![x(), vec![Op::Resume(0, 2, 0), Op::Cancel("y")]]);
        push("cancelx|cancely+resume2", vec![x(), vec![Op::Cancel("y"), Op::Resume(0, 2, 0)]]);
        push("cancelx|cancely|ackfit", vec![x(), y(), vec![Op::Ack(0, 2)]]);
        if thorough {
            push("cancelx|cancely|cancelz", vec![x(), y(), vec![Op::Cancel("z")]]);
            push("cancelx|cancely|advance", vec![x(), y(), vec![Op::Advance(1)]]);
            push("cancelx|cancely|resume2", vec![x(), y(), vec![Op::Resume(0, 2, 0)]]);
        }
    }
    for spec in &mut out {
        for (t, script) in spec.threads.iter_mut().enumerate() {
            for (i, op) in script.iter_mut().enumerate() {
                if let Op::Resume(_, _, id) = op {
                    *id = 10 * (t as u64 + 1) + i as u64;
                }
            }
        }
    }
    out
}
