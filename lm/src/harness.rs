//! Child-side loom runner (one harness per process, because a failing loom
//! execution panics or aborts) and parent-side orchestration.

use serde_json::{Value, json};
use std::collections::BTreeMap;
use std::sync::Mutex;
use std::sync::atomic::{AtomicU64, Ordering};
use std::time::{Duration, Instant};

static SCHEDULES: AtomicU64 = AtomicU64::new(0);
static OUTCOMES: Mutex<BTreeMap<String, u64>> = Mutex::new(BTreeMap::new());

/// Report an oracle violation from inside a loom execution.
pub fn violation(key: &str, what: String) -> ! {
    eprintln!("ORACLE-VIOLATION key={key} :: {what}");
    panic!("oracle violation {key}");
}

/// Record the observable outcome of one execution (for non-vacuity).
pub fn outcome(s: String) {
    let mut g = OUTCOMES.lock().unwrap_or_else(|p| p.into_inner());
    if g.len() < 64 || g.contains_key(&s) {
        *g.entry(s).or_insert(0) += 1;
    }
}

/// CPU seconds (user + system) this process has used so far. The budget of a harness is counted in CPU
/// time, not wall time, so that a busy machine does not turn a complete exploration into a capped one
/// (loom runs all model threads of one harness on a single OS thread).
fn cpu_secs() -> f64 {
    let Ok(stat) = std::fs::read_to_string("/proc/self/stat") else { return 0.0 };
    // the fields after the parenthesised command name; utime and stime are the 12th and 13th of those
    let Some(rest) = stat.rsplit_once(')').map(|x| x.1) else { return 0.0 };
    let f: Vec<&str> = rest.split_whitespace().collect();
    let ticks = f.get(11).and_then(|x| x.parse::<u64>().ok()).unwrap_or(0) + f.get(12).and_then(|x| x.parse::<u64>().ok()).unwrap_or(0);
    ticks as f64 / 100.0
}

fn print_result(complete: bool, start: Instant) {
    let outcomes = OUTCOMES.lock().unwrap_or_else(|p| p.into_inner()).clone();
    println!(
        "{}",
        json!({
            "schedules": SCHEDULES.load(Ordering::Relaxed),
            "outcomes": outcomes,
            "complete": complete,
            "secs": start.elapsed().as_secs_f64(),
            "cpu_secs": cpu_secs(),
        })
    );
}

/// Run one harness body under loom; prints one JSON line on success. `max_secs` is a budget of CPU seconds;
/// a harness that uses it up stops and is reported as incomplete (never as a verdict).
pub fn run_child(bound: Option<usize>, max_secs: u64, f: impl Fn() + Send + Sync + 'static) {
    let mut b = loom::model::Builder::new();
    b.preemption_bound = bound;
    b.max_branches = 200_000;
    // wall-clock backstop only (ten times the CPU budget)
    b.max_duration = Some(Duration::from_secs(max_secs * 10));
    if std::env::var_os("LOOM_CHECKPOINT_FILE").is_none() {
        b.checkpoint_interval = 2000;
    }
    // a failing execution (oracle violation or loom deadlock report) panics:
    // record which schedule it was, so a re-run can checkpoint exactly there
    let default_hook = std::panic::take_hook();
    std::panic::set_hook(Box::new(move |info| {
        eprintln!("AT-SCHEDULE {}", SCHEDULES.load(Ordering::Relaxed));
        default_hook(info);
    }));
    let start = Instant::now();
    b.check(move || {
        let n = SCHEDULES.fetch_add(1, Ordering::Relaxed);
        if n % 128 == 127 && cpu_secs() > max_secs as f64 {
            print_result(false, start);
            std::process::exit(0);
        }
        f();
    });
    let wall_capped = start.elapsed() >= Duration::from_secs(max_secs * 10);
    print_result(!wall_capped, start);
}

pub struct Job {
    pub name: String,
    pub bound: Option<usize>,
    pub max_secs: u64,
}

#[derive(Debug)]
pub enum ChildResult {
    Ok { schedules: u64, outcomes: BTreeMap<String, u64>, complete: bool, secs: f64 },
    Violation { key: String, what: String, schedule: u64 },
    Machinery(String),
}

fn classify(status: std::process::ExitStatus, stdout: &str, stderr: &str, deadlock_key: &str) -> ChildResult {
    let schedule = stderr
        .lines()
        .filter_map(|l| l.strip_prefix("AT-SCHEDULE "))
        .filter_map(|n| n.trim().parse::<u64>().ok())
        .next()
        .unwrap_or(0);
    if status.success() {
        for line in stdout.lines().rev() {
            if let Ok(v) = serde_json::from_str::<Value>(line) {
                if v.get("schedules").is_some() {
                    let outcomes = v["outcomes"]
                        .as_object()
                        .map(|o| o.iter().map(|(k, v)| (k.clone(), v.as_u64().unwrap_or(0))).collect())
                        .unwrap_or_default();
                    return ChildResult::Ok {
                        schedules: v["schedules"].as_u64().unwrap_or(0),
                        outcomes,
                        complete: v["complete"].as_bool().unwrap_or(false),
                        secs: v["secs"].as_f64().unwrap_or(0.0),
                    };
                }
            }
        }
        return ChildResult::Machinery("child exited 0 without a result line".into());
    }
    if let Some(line) = stderr.lines().find(|l| l.starts_with("ORACLE-VIOLATION")) {
        let rest = line.trim_start_matches("ORACLE-VIOLATION key=");
        let (key, what) = rest.split_once(" :: ").unwrap_or((rest, ""));
        return ChildResult::Violation { key: key.to_string(), what: what.to_string(), schedule };
    }
    // engine-internal assertions are machinery errors, never verdicts
    for sig in [
        "expected to be able to acquire lock",
        "state.notified",
        "[loom internal bug]",
        "Model exceeded maximum number of branches",
        "exceeded MAX_THREADS",
    ] {
        if stderr.contains(sig) {
            return ChildResult::Machinery(format!("loom-internal: {sig}"));
        }
    }
    if stderr.contains("deadlock") {
        let line = stderr.lines().find(|l| l.contains("deadlock")).unwrap_or("deadlock");
        return ChildResult::Violation {
            key: deadlock_key.to_string(),
            what: format!("a thread stayed blocked with every other thread finished (loom: {})", line.trim()),
            schedule,
        };
    }
    let tail: Vec<&str> = stderr.lines().rev().take(12).collect();
    ChildResult::Machinery(format!(
        "child failed ({status}) without a recognised verdict: {}",
        tail.into_iter().rev().collect::<Vec<_>>().join(" | ")
    ))
}

pub fn spawn_child(
    prop: &str,
    tier: &str,
    job: &Job,
    checkpoint: Option<(&std::path::Path, u64)>,
    deadlock_key: &str,
) -> ChildResult {
    let exe = std::env::current_exe().expect("current_exe");
    let mut cmd = std::process::Command::new(exe);
    cmd.arg("child")
        .arg(prop)
        .arg(tier)
        .arg(&job.name)
        .arg(job.bound.map(|b| b.to_string()).unwrap_or_else(|| "none".into()))
        .arg(job.max_secs.to_string());
    cmd.env_remove("LOOM_CHECKPOINT_FILE");
    if let Some((p, interval)) = checkpoint {
        cmd.env("LOOM_CHECKPOINT_FILE", p).env("LOOM_CHECKPOINT_INTERVAL", interval.max(1).to_string());
    }
    match cmd.output() {
        Ok(o) => classify(
            o.status,
            &String::from_utf8_lossy(&o.stdout),
            &String::from_utf8_lossy(&o.stderr),
            deadlock_key,
        ),
        Err(e) => ChildResult::Machinery(format!("cannot spawn child: {e}")),
    }
}

pub struct Summary {
    pub harnesses: u64,
    pub schedules: u64,
    pub incomplete: Vec<String>,
    pub per_harness: Vec<Value>,
    pub distinct_outcomes: BTreeMap<String, u64>,
    pub single_outcome_harnesses: u64,
}

/// Run all jobs in parallel child processes; violations are recorded on `ctx`
/// after a confirming re-run that also leaves a loom checkpoint for replay.
pub fn run_jobs(ctx: &crate::ctx::Ctx, tier: &str, jobs: Vec<Job>, deadlock_key: &str) -> Summary {
    let n_workers = std::thread::available_parallelism().map(|n| n.get()).unwrap_or(4);
    let queue = Mutex::new(jobs.into_iter().enumerate().collect::<Vec<_>>());
    {
        let mut q = queue.lock().unwrap();
        q.reverse();
    }
    let results: Mutex<Vec<(usize, Job, ChildResult)>> = Mutex::new(Vec::new());
    std::thread::scope(|s| {
        for _ in 0..n_workers {
            s.spawn(|| {
                loop {
                    let item = queue.lock().unwrap().pop();
                    let Some((i, job)) = item else { break };
                    let r = spawn_child(ctx.id, tier, &job, None, deadlock_key);
                    results.lock().unwrap().push((i, job, r));
                }
            });
        }
    });
    let mut results = results.into_inner().unwrap();
    results.sort_by_key(|r| r.0);
    let mut sum = Summary {
        harnesses: 0,
        schedules: 0,
        incomplete: Vec::new(),
        per_harness: Vec::new(),
        distinct_outcomes: BTreeMap::new(),
        single_outcome_harnesses: 0,
    };
    let replay_dir = crate::ctx::verif_root().join("replays").join(ctx.id);
    for (i, job, r) in results {
        sum.harnesses += 1;
        match r {
            ChildResult::Ok { schedules, outcomes, complete, secs } => {
                sum.schedules += schedules;
                if !complete {
                    sum.incomplete.push(job.name.clone());
                }
                if outcomes.len() <= 1 {
                    sum.single_outcome_harnesses += 1;
                }
                for (k, v) in &outcomes {
                    *sum.distinct_outcomes.entry(k.clone()).or_insert(0) += v;
                }
                sum.per_harness.push(json!({
                    "harness": job.name, "schedules": schedules, "complete": complete,
                    "secs": (secs * 100.0).round() / 100.0, "outcomes": outcomes,
                    "preemption_bound": job.bound,
                }));
            }
            ChildResult::Violation { key, what, schedule } => {
                // confirm (determinism: same verdict at the same schedule) and leave a loom
                // checkpoint written just before the failing execution
                let _ = std::fs::create_dir_all(&replay_dir);
                let ck = replay_dir.join(format!("h{i}.loom-checkpoint.json"));
                let _ = std::fs::remove_file(&ck);
                let again = spawn_child(ctx.id, tier, &job, Some((&ck, schedule)), deadlock_key);
                match again {
                    ChildResult::Violation { key: k2, schedule: s2, .. } if k2 == key && s2 == schedule => {}
                    other => ctx.machinery(format!(
                        "harness {} reported {key} but the confirming re-run gave {other:?} (nondeterministic harness)",
                        job.name
                    )),
                }
                ctx.violation(
                    format!("{key}@{}", job.name),
                    format!("[{}] {what}", job.name),
                    json!({
                        "harness": job.name,
                        "preemption_bound": job.bound,
                        "loom_checkpoint": ck,
                        "tier": tier,
                    }),
                );
                sum.per_harness.push(json!({"harness": job.name, "violation": key}));
            }
            ChildResult::Machinery(m) => ctx.machinery(format!("harness {}: {m}", job.name)),
        }
    }
    sum
}
