//! C18 (concurrent part) — real `peer.rs` under loom: 2–3 threads of registry
//! operations on colliding peers/keys; every schedule's per-thread results and
//! final observations must be explained by some sequential order of the
//! operations on the reference model (brute-force linearizability).

use crate::harness::{self, violation};
use repe::{NotifyBody, PeerHandle, PeerId, PeerRegistry, PeerSendError, PeerSink};
use std::collections::{BTreeMap, BTreeSet};
use std::sync::Arc;

const KEYS: [&str; 2] = ["k0", "k1"];

struct CountSink {
    n: std::sync::atomic::AtomicU64,
}
impl PeerSink for CountSink {
    fn send_notify(&self, _m: &str, _b: NotifyBody) -> Result<(), PeerSendError> {
        self.n.fetch_add(1, std::sync::atomic::Ordering::Relaxed);
        Ok(())
    }
}

#[derive(Clone, Copy, Debug, PartialEq, Eq)]
pub enum Op {
    Insert(u64),
    Remove(u64),
    Alias(u64, usize),
    GetBy(usize),
    AliasesFor(u64),
    KeyFor(u64),
    Get(u64),
    Broadcast,
}

#[derive(Clone, Debug, PartialEq, Eq)]
pub enum Res {
    Unit,
    Bool(bool),
    Peer(Option<u64>),
    Keys(Vec<usize>),
    Set(BTreeSet<u64>),
}

#[derive(Clone, Default, Debug, PartialEq, Eq)]
struct Model {
    peers: BTreeSet<u64>,
    alias: BTreeMap<usize, u64>,
    lists: BTreeMap<u64, Vec<usize>>,
}

impl Model {
    fn apply(&mut self, op: Op) -> Res {
        match op {
            Op::Insert(p) => {
                self.peers.insert(p);
                Res::Unit
            }
            Op::Remove(p) => {
                let was = self.peers.remove(&p);
                if let Some(keys) = self.lists.remove(&p) {
                    for k in keys {
                        self.alias.remove(&k);
                    }
                }
                Res::Bool(was)
            }
            Op::Alias(p, k) => {
                if !self.peers.contains(&p) {
                    return Res::Bool(false);
                }
                match self.alias.insert(k, p) {
                    Some(prev) if prev == p => {}
                    Some(prev) => {
                        if let Some(v) = self.lists.get_mut(&prev) {
                            v.retain(|x| *x != k);
                        }
                        self.lists.entry(p).or_default().push(k);
                    }
                    None => self.lists.entry(p).or_default().push(k),
                }
                Res::Bool(true)
            }
            Op::GetBy(k) => Res::Peer(self.alias.get(&k).copied().filter(|p| self.peers.contains(p))),
            Op::AliasesFor(p) => Res::Keys(self.lists.get(&p).cloned().unwrap_or_default()),
            Op::KeyFor(p) => Res::Keys(self.lists.get(&p).and_then(|v| v.first().copied()).into_iter().collect()),
            Op::Get(p) => Res::Peer(self.peers.get(&p).copied()),
            Op::Broadcast => Res::Set(self.peers.clone()),
        }
    }
    fn observe(&self) -> Vec<Res> {
        let mut m = self.clone();
        let mut out = Vec::new();
        for p in 0..3 {
            out.push(m.apply(Op::Get(p)));
            out.push(m.apply(Op::AliasesFor(p)));
        }
        for k in 0..KEYS.len() {
            out.push(m.apply(Op::GetBy(k)));
        }
        out
    }
}

fn key_index(s: &str) -> usize {
    KEYS.iter().position(|k| *k == s).unwrap_or(usize::MAX)
}

fn exec(reg: &PeerRegistry, sinks: &[Arc<CountSink>], op: Op) -> Res {
    match op {
        Op::Insert(p) => {
            reg.insert(PeerHandle::new(PeerId(p), sinks[p as usize].clone()));
            Res::Unit
        }
        Op::Remove(p) => Res::Bool(reg.remove(PeerId(p)).is_some()),
        Op::Alias(p, k) => Res::Bool(reg.alias(PeerId(p), KEYS[k])),
        Op::GetBy(k) => Res::Peer(reg.get_by(KEYS[k]).map(|h| h.peer_id().0)),
        Op::AliasesFor(p) => Res::Keys(reg.aliases_for(PeerId(p)).iter().map(|s| key_index(s)).collect()),
        Op::KeyFor(p) => Res::Keys(reg.key_for(PeerId(p)).iter().map(|s| key_index(s)).collect()),
        Op::Get(p) => Res::Peer(reg.get(PeerId(p)).map(|h| h.peer_id().0)),
        Op::Broadcast => {
            let before: Vec<u64> = sinks.iter().map(|s| s.n.load(std::sync::atomic::Ordering::Relaxed)).collect();
            let r = reg.broadcast_notify_utf8("/evt", "x");
            let ids: BTreeSet<u64> = r.keys().map(|p| p.0).collect();
            // exactly one notification per reported peer, none to others (only one
            // broadcast runs per harness, so the counters are unambiguous)
            for (p, s) in sinks.iter().enumerate() {
                let d = s.n.load(std::sync::atomic::Ordering::Relaxed) - before[p];
                let want = u64::from(ids.contains(&(p as u64)));
                if d != want {
                    violation("C18:broadcast-delivery", format!(
                        "broadcast reported peers {ids:?} but delivered {d} notifications to peer {p}"));
                }
            }
            Res::Set(ids)
        }
    }
}

#[derive(Clone, Debug)]
pub struct Spec {
    pub name: String,
    pub threads: Vec<Vec<Op>>,
}

fn initial() -> (Model, Vec<Op>) {
    let setup = vec![Op::Insert(0), Op::Insert(1), Op::Alias(0, 0)];
    let mut m = Model::default();
    for op in &setup {
        m.apply(*op);
    }
    (m, setup)
}

fn explain(threads: &[Vec<Op>], results: &[Vec<Res>], final_obs: &[Res]) -> bool {
    fn rec(threads: &[Vec<Op>], results: &[Vec<Res>], final_obs: &[Res], pos: &mut Vec<usize>, m: &Model) -> bool {
        let mut any = false;
        for t in 0..threads.len() {
            if pos[t] < threads[t].len() {
                any = true;
                let mut m2 = m.clone();
                let r = m2.apply(threads[t][pos[t]]);
                if r == results[t][pos[t]] {
                    pos[t] += 1;
                    let ok = rec(threads, results, final_obs, pos, &m2);
                    pos[t] -= 1;
                    if ok {
                        return true;
                    }
                }
            }
        }
        !any && m.observe() == final_obs
    }
    let (m, _) = initial();
    rec(threads, results, final_obs, &mut vec![0; threads.len()], &m)
}

pub fn body(spec: &Spec) {
    let reg = PeerRegistry::new();
    let sinks: Vec<Arc<CountSink>> = (0..3).map(|_| Arc::new(CountSink { n: 0.into() })).collect();
    let (_, setup) = initial();
    for op in setup {
        exec(&reg, &sinks, op);
    }
    let mut hs = Vec::new();
    for script in spec.threads.iter().cloned() {
        let reg = reg.clone();
        let sinks = sinks.clone();
        hs.push(loom::thread::spawn(move || script.iter().map(|op| exec(&reg, &sinks, *op)).collect::<Vec<_>>()));
    }
    let results: Vec<Vec<Res>> = hs.into_iter().map(|h| h.join().unwrap()).collect();
    let mut final_obs = Vec::new();
    for p in 0..3 {
        final_obs.push(exec(&reg, &sinks, Op::Get(p)));
        final_obs.push(exec(&reg, &sinks, Op::AliasesFor(p)));
    }
    for k in 0..KEYS.len() {
        final_obs.push(exec(&reg, &sinks, Op::GetBy(k)));
    }
    if !explain(&spec.threads, &results, &final_obs) {
        violation("C18:not-linearizable", format!(
            "threads {:?} returned {results:?} and left {final_obs:?}: no sequential order of these operations does that",
            spec.threads));
    }
    harness::outcome(format!("{results:?}|{final_obs:?}"));
}

pub fn catalogue(thorough: bool) -> Vec<Spec> {
    let menu: Vec<(&str, Vec<Op>)> = vec![
        ("repoint", vec![Op::Alias(1, 0)]),
        ("remove0", vec![Op::Remove(0)]),
        ("read0", vec![Op::GetBy(0), Op::AliasesFor(0)]),
        ("broadcast", vec![Op::Broadcast]),
        ("alias0k1+alias0k0", vec![Op::Alias(0, 1), Op::Alias(0, 0)]),
        ("remove1", vec![Op::Remove(1)]),
        ("insert2+alias2k0", vec![Op::Insert(2), Op::Alias(2, 0)]),
        ("read1", vec![Op::AliasesFor(1), Op::GetBy(0)]),
        ("repoint+keyfor", vec![Op::Alias(1, 0), Op::KeyFor(1)]),
        ("remove0+get0", vec![Op::Remove(0), Op::Get(0)]),
        ("remove0+remove1", vec![Op::Remove(0), Op::Remove(1)]),
    ];
    let mut out = Vec::new();
    for i in 0..menu.len() {
        for j in i..menu.len() {
            // at most one broadcast per harness (delivery counters), no double insert of one id
            let both = [&menu[i].1[..], &menu[j].1[..]].concat();
            if both.iter().filter(|o| **o == Op::Broadcast).count() > 1 { continue; }
            if both.iter().filter(|o| matches!(o, Op::Insert(_))).count() > 1 { continue; }
            out.push(Spec {
                name: format!("2/{}|{}", menu[i].0, menu[j].0),
                threads: vec![menu[i].1.clone(), menu[j].1.clone()],
            });
        }
    }
    let tri = if thorough { menu.len() } else { 6 };
    for i in 0..tri {
        for j in i + 1..tri {
            for k in j + 1..tri {
                let all = [&menu[i].1[..], &menu[j].1[..], &menu[k].1[..]].concat();
                if all.iter().filter(|o| **o == Op::Broadcast).count() > 1 { continue; }
                if all.iter().filter(|o| matches!(o, Op::Insert(_))).count() > 1 { continue; }
                out.push(Spec {
                    name: format!("3/{}|{}|{}", menu[i].0, menu[j].0, menu[k].0),
                    threads: vec![menu[i].1.clone(), menu[j].1.clone(), menu[k].1.clone()],
                });
            }
        }
    }
    out
}
