//! Blocking `repe::Client` under loom (real client.rs; mock TcpStream, loom mpsc
//! with virtual-clock timeouts, loom threads). One harness = caller threads +
//! the client's reader thread + main acting as the scripted server/clock.
//! Serves C04 (correlation), C05 (whole frames) and C06 (dead connection /
//! timeouts) — each harness names the property whose clause it decides.

use crate::harness::{self, violation};
use repe::verif_loom::clock;
use repe::verif_loom::net_shadow as net;
use repe::{BodyFormat, Client, Header, Message, RepeError};
use serde_json::{Value, json};
use std::io::Read;
use std::time::Duration;

const SEC: u64 = 1_000_000_000;

#[derive(Clone, Debug, PartialEq)]
pub enum Call {
    /// call_json(tag) without timeout
    Plain(u64),
    /// call_json_with_timeout(tag, secs)
    Timed(u64, u64),
    /// notify_json(tag)
    Notify(u64),
    /// call_json({"t": tag, "p": "x" * pad}) — a frame larger than the writer's buffer
    #[allow(dead_code)]
    Big(u64, usize),
    /// notify_json of the same large body
    #[allow(dead_code)]
    BigNotify(u64, usize),
}

#[derive(Clone, Debug, PartialEq)]
pub enum Step {
    /// read one whole request frame
    Read,
    /// read only the 48 header bytes of the next request (its id becomes known)
    ReadHeader,
    /// read the rest of the request whose header was read
    ReadRest,
    /// reply to the i-th request read so far (arrival order), echoing its body
    Reply(usize),
    /// a response frame carrying an id no call uses
    ReplyUnknown,
    /// first `k` bytes of the reply to request i, then nothing more
    ReplyPartial(usize, usize),
    /// 48 bytes with a wrong magic
    Malformed,
    /// close the server end
    Close,
    /// advance the virtual clock by n seconds
    Tick(u64),
    /// read everything until EOF (helper thread only: EOF comes when the client is dropped)
    ReadToEnd,
    /// keep advancing the clock by n seconds until every caller thread has finished
    #[allow(dead_code)]
    TickUntilCallersDone(u64),
    /// do nothing until every caller thread has finished (the peer is not reading)
    #[allow(dead_code)]
    WaitCallersDone,
}

#[derive(Clone, Debug)]
pub struct Spec {
    pub name: String,
    pub prop: &'static str,
    /// one script of calls per caller thread
    pub callers: Vec<Vec<Call>>,
    pub server: Vec<Step>,
    /// optional second server-side thread (to race a reply against a tick)
    pub helper: Vec<Step>,
    /// (capacity, quota) of the client's outgoing pipe
    pub pipe: (usize, usize),
    /// what each call may legally return
    pub expect: Expect,
    /// preemption bound override (None = the tier's default)
    pub bound: Option<usize>,
    /// client-side write timeout in (virtual) seconds
    pub write_timeout_s: Option<u64>,
}

#[derive(Clone, Debug, PartialEq)]
pub enum Expect {
    /// every call returns its own tag
    AllOwn,
    /// every call returns an error (connection failed)
    AllErr,
    /// a timed call returns its own tag or a timeout error; plain calls their own tag
    OwnOrTimeout,
    /// per call: own tag or error (failure racing delivery); never another call's tag
    OwnOrErr,
    /// results are not constrained (the harness decides on the byte stream only)
    Any,
}

#[derive(Clone, Debug, PartialEq)]
enum CallResult {
    Tag(u64),
    Timeout,
    Err(String),
    NotifySent,
    NotifyErr,
}

fn big_body(tag: u64, pad: usize) -> Value {
    json!({"t": tag, "p": "x".repeat(pad)})
}

fn classify(r: Result<Value, RepeError>) -> CallResult {
    match r {
        Ok(v) => CallResult::Tag(v.as_u64().unwrap_or(u64::MAX)),
        Err(RepeError::Io(e)) if e.kind() == std::io::ErrorKind::TimedOut => CallResult::Timeout,
        Err(e) => CallResult::Err(format!("{e}")),
    }
}

struct ServerState {
    callers_done: std::sync::Arc<loom::sync::atomic::AtomicUsize>,
    n_callers: usize,
    end: net::TcpStream,
    /// (id, tag, whole request) in arrival order; tag None for unparsable bodies
    seen: Vec<(u64, Option<u64>, Message)>,
    pending_header: Option<Header>,
    raw: Vec<u8>,
}

/// The response body is the request's id, which is all the server knows once it
/// has read the header; the oracle maps tags to ids from the frames it read.
fn reply_for(req: &Message) -> Message {
    Message::builder()
        .id(req.header.id)
        .query_bytes(req.query.clone())
        .body_bytes(req.header.id.to_string().into_bytes())
        .body_format(BodyFormat::Json)
        .build()
}

impl ServerState {
    fn read_exact(&mut self, n: usize) -> Option<Vec<u8>> {
        let mut buf = vec![0u8; n];
        let mut got = 0;
        while got < n {
            match (&self.end).read(&mut buf[got..]) {
                Ok(0) => return None,
                Ok(k) => got += k,
                Err(_) => return None,
            }
        }
        self.raw.extend_from_slice(&buf);
        Some(buf)
    }
    fn step(&mut self, s: &Step) {
        match s {
            Step::Read => {
                if self.read_header() {
                    self.read_rest();
                }
            }
            Step::ReadHeader => {
                self.read_header();
            }
            Step::ReadRest => self.read_rest(),
            Step::Reply(i) => {
                if let Some((_, _, req)) = self.seen.get(*i) {
                    let _ = repe::write_message(&mut &self.end, &reply_for(req));
                }
            }
            Step::ReplyUnknown => {
                let m = Message::builder().id(0xDEAD_0000).query_str("/p").body_bytes(b"77".to_vec()).body_format(BodyFormat::Json).build();
                let _ = repe::write_message(&mut &self.end, &m);
            }
            Step::ReplyPartial(i, k) => {
                if let Some((_, _, req)) = self.seen.get(*i) {
                    let bytes = reply_for(req).to_vec();
                    let k = (*k).min(bytes.len());
                    let _ = std::io::Write::write_all(&mut &self.end, &bytes[..k]);
                }
            }
            Step::Malformed => {
                let mut h = Header::new();
                h.length = 48;
                let mut b = h.encode();
                b[8] = 0;
                b[9] = 0;
                let _ = std::io::Write::write_all(&mut &self.end, &b);
            }
            Step::Close => {
                let _ = self.end.shutdown(net::Shutdown::Both);
            }
            Step::Tick(n) => clock::advance(n * SEC),
            Step::TickUntilCallersDone(n) => loop {
                clock::advance(n * SEC);
                if self.callers_done.load(std::sync::atomic::Ordering::Acquire) >= self.n_callers {
                    break;
                }
                loom::thread::yield_now();
            },
            Step::WaitCallersDone => {
                while self.callers_done.load(std::sync::atomic::Ordering::Acquire) < self.n_callers {
                    loom::thread::yield_now();
                }
            }
            Step::ReadToEnd => {
                let mut buf = [0u8; 4096];
                loop {
                    match (&self.end).read(&mut buf) {
                        Ok(0) | Err(_) => break,
                        Ok(n) => self.raw.extend_from_slice(&buf[..n]),
                    }
                }
            }
        }
    }
    fn read_header(&mut self) -> bool {
        let Some(h) = self.read_exact(48) else { return false };
        match Header::decode(&h) {
            Ok(hd) => {
                self.pending_header = Some(hd);
                // the id is known from the header alone; register the request now so
                // that an early reply can be addressed (body filled in by read_rest)
                let placeholder = Message::builder().id(hd.id).query_str("/p").body_bytes(b"0".to_vec()).body_format(BodyFormat::Json).build();
                self.seen.push((hd.id, None, placeholder));
                true
            }
            Err(e) => violation("C05:torn-frame", format!("server read a malformed header from the client: {e}")),
        }
    }
    fn read_rest(&mut self) {
        let Some(hd) = self.pending_header.take() else { return };
        let Some(q) = self.read_exact(hd.query_length as usize) else { return };
        let Some(b) = self.read_exact(hd.body_length as usize) else { return };
        let tag = serde_json::from_slice::<Value>(&b).ok().and_then(|v| v.as_u64().or_else(|| v.get("t").and_then(|t| t.as_u64())));
        let msg = Message::builder().id(hd.id).query_bytes(q).body_bytes(b).body_format(BodyFormat::Json).build();
        if let Some(last) = self.seen.last_mut() {
            *last = (hd.id, tag, msg);
        }
    }
}

pub fn body(spec: &Spec) {
    let (cli_end, srv_end) = net::pair();
    cli_end.verif_limit_outgoing(spec.pipe.0, spec.pipe.1);
    net::register(cli_end);
    let client = Client::connect("mock:1").expect("mock connect");
    if let Some(secs) = spec.write_timeout_s {
        client.set_write_timeout(Some(Duration::from_secs(secs))).expect("set_write_timeout");
    }

    let callers_done = std::sync::Arc::new(loom::sync::atomic::AtomicUsize::new(0));
    let n_callers = spec.callers.len();
    let mut hs = Vec::new();
    for script in spec.callers.iter().cloned() {
        let c = client.clone();
        let done = callers_done.clone();
        hs.push(loom::thread::spawn(move || {
            let out = script
                .iter()
                .map(|call| match call {
                    Call::Plain(tag) => classify(c.call_json("/p", &json!(tag))),
                    Call::Timed(tag, secs) => classify(c.call_json_with_timeout("/p", &json!(tag), Duration::from_secs(*secs))),
                    Call::Notify(tag) => match c.notify_json("/p", &json!(tag)) {
                        Ok(()) => CallResult::NotifySent,
                        Err(_) => CallResult::NotifyErr,
                    },
                    Call::Big(tag, pad) => classify(c.call_json("/p", &big_body(*tag, *pad))),
                    Call::BigNotify(tag, pad) => match c.notify_json("/p", &big_body(*tag, *pad)) {
                        Ok(()) => CallResult::NotifySent,
                        Err(_) => CallResult::NotifyErr,
                    },
                })
                .collect::<Vec<_>>();
            drop(c);
            done.fetch_add(1, std::sync::atomic::Ordering::Release);
            out
        }));
    }
    let helper = if spec.helper.is_empty() {
        None
    } else {
        let steps = spec.helper.clone();
        let end = srv_end.try_clone().unwrap();
        let cd = callers_done.clone();
        Some(loom::thread::spawn(move || {
            let mut st = ServerState { callers_done: cd, n_callers, end, seen: Vec::new(), pending_header: None, raw: Vec::new() };
            for s in &steps {
                st.step(s);
            }
            st
        }))
    };
    let mut st = ServerState { callers_done: callers_done.clone(), n_callers, end: srv_end, seen: Vec::new(), pending_header: None, raw: Vec::new() };
    for s in &spec.server {
        st.step(s);
    }
    let results: Vec<Vec<CallResult>> = hs.into_iter().map(|h| h.join().unwrap()).collect();
    // nothing left behind once every call has returned (C06)
    let left = client.verif_pending_len();
    if left != 0 {
        violation("C06:pending-residue", format!("[{}] {left} pending entries remain after every call returned; results {results:?}", spec.name));
    }
    // the client goes away: both server-side threads see EOF
    drop(client);
    let helper_state = helper.map(|h| h.join().unwrap());

    // ---------------- oracle
    let mut seen: Vec<(u64, Option<u64>)> = st.seen.iter().map(|s| (s.0, s.1)).collect();
    if let Some(h) = &helper_state {
        seen.extend(h.seen.iter().map(|s| (s.0, s.1)));
    }
    // ids distinct (C04)
    let ids: Vec<u64> = seen.iter().map(|s| s.0).collect();
    let mut sorted = ids.clone();
    sorted.sort();
    sorted.dedup();
    if sorted.len() != ids.len() {
        violation("C04:duplicate-request-id", format!("request ids seen by the server are not distinct: {ids:?}"));
    }
    for (t, script) in spec.callers.iter().enumerate() {
        for (i, call) in script.iter().enumerate() {
            let r = &results[t][i];
            let (tag, timed) = match call {
                Call::Plain(tag) | Call::Big(tag, _) => (*tag, false),
                Call::BigNotify(..) => continue,
                Call::Timed(tag, _) => (*tag, true),
                Call::Notify(_) => continue,
            };
            if let CallResult::Tag(got) = r {
                // the response a call returns must be the one addressed to the id of
                // the request frame that carried this call's tag
                let own_id = seen.iter().find(|s| s.1 == Some(tag)).map(|s| s.0);
                if own_id != Some(*got) {
                    violation("C04:wrong-response", format!(
                        "[{}] call with tag {tag} (request id {own_id:?}) returned the response addressed to id {got}; frames seen (id, tag) {seen:?}; all results {results:?}", spec.name));
                }
            }
            let ok = match (&spec.expect, r) {
                (Expect::Any, _) => true,
                (_, CallResult::Tag(_)) => !matches!(spec.expect, Expect::AllErr),
                (Expect::AllOwn, _) => false,
                (Expect::AllErr, CallResult::Err(_)) => true,
                (Expect::AllErr, _) => false,
                (Expect::OwnOrTimeout, CallResult::Timeout) => timed,
                (Expect::OwnOrTimeout, _) => false,
                (Expect::OwnOrErr, CallResult::Err(_)) => true,
                (Expect::OwnOrErr, CallResult::Timeout) => timed,
                (Expect::OwnOrErr, _) => false,
            };
            if !ok {
                violation(&format!("{}:unexpected-call-result", spec.prop), format!(
                    "[{}] call {call:?} returned {r:?}, expected {:?}; all results {results:?}", spec.name, spec.expect));
            }
        }
    }
    // whole frames only (C05): everything the server read parsed as frames (checked in
    // read_header) and, where every request is read, the frames carry exactly the tags sent
    if spec.prop == "C05" && !spec.helper.contains(&Step::ReadToEnd) {
        let mut sent: Vec<u64> = spec.callers.iter().flatten().map(|c| match c {
            Call::Plain(t) | Call::Timed(t, _) | Call::Notify(t) | Call::Big(t, _) | Call::BigNotify(t, _) => *t,
        }).collect();
        let mut got: Vec<u64> = seen.iter().filter_map(|s| s.1).collect();
        sent.sort();
        got.sort();
        if sent != got {
            violation("C05:frames-corrupted", format!(
                "[{}] tags sent {sent:?}, tags found in the frames the server parsed {got:?} (raw bytes {:?})", spec.name, st.raw));
        }
    }
    if let Some(h) = &helper_state {
        if spec.helper.contains(&Step::ReadToEnd) {
            check_stream(spec, &h.raw);
        }
    }
    // after the client is gone the server must see EOF promptly (reader thread exits)
    let mut tail = Vec::new();
    let mut buf = [0u8; 64];
    loop {
        match (&st.end).read(&mut buf) {
            Ok(0) | Err(_) => break,
            Ok(n) => tail.extend_from_slice(&buf[..n]),
        }
    }
    let expected_unread: usize = 0;
    let _ = expected_unread;
    harness::outcome(format!("{results:?}|unread={}", tail.len()));
}

/// C05: the byte stream must be whole frames, optionally followed by the prefix of one
/// more frame with nothing foreign inside it ("an interrupted write is never followed by
/// further frames").
fn check_stream(spec: &Spec, raw: &[u8]) {
    let mut expected: Vec<(u64, Vec<u8>)> = Vec::new();
    for c in spec.callers.iter().flatten() {
        match c {
            Call::Plain(t) | Call::Timed(t, _) | Call::Notify(t) => expected.push((*t, serde_json::to_vec(&json!(t)).unwrap())),
            Call::Big(t, pad) | Call::BigNotify(t, pad) => expected.push((*t, serde_json::to_vec(&big_body(*t, *pad)).unwrap())),
        }
    }
    let mut off = 0;
    while off < raw.len() {
        let rest = &raw[off..];
        if rest.len() < 48 {
            return; // a partial header at the very end: nothing follows it
        }
        let hd = match Header::decode(&rest[..48]) {
            Ok(h) => h,
            Err(e) => violation("C05:torn-frame", format!("[{}] at offset {off} of the client's byte stream: {e} (a frame was interrupted and more bytes followed)", spec.name)),
        };
        let q = hd.query_length as usize;
        let b = hd.body_length as usize;
        let avail_body = rest.len().saturating_sub(48 + q).min(b);
        let body = &rest[(48 + q).min(rest.len())..(48 + q).min(rest.len()) + avail_body];
        let ok = expected.iter().any(|(_, e)| e.len() == b && e.starts_with(body));
        if !ok {
            violation("C05:foreign-bytes-in-frame", format!("[{}] frame at offset {off} (id {}, body length {b}): the {avail_body} body bytes received are not a prefix of any body a caller sent — another write continued inside an interrupted frame", spec.name, hd.id));
        }
        if rest.len() < 48 + q + b {
            return; // torn at the very end, nothing after it
        }
        off += 48 + q + b;
    }
}

fn two(a: u64, b: u64) -> Vec<Vec<Call>> {
    vec![vec![Call::Plain(a)], vec![Call::Plain(b)]]
}

pub fn catalogue(prop: &str, thorough: bool) -> Vec<Spec> {
    use Step::*;
    let mut v = Vec::new();
    let q = (0usize, 16usize);
    // ---------------- C04: correlation under every reply order
    v.push(Spec { name: "c04/in-order".into(), prop: "C04", callers: two(11, 22), server: vec![Read, Read, Reply(0), Reply(1)], helper: vec![], pipe: q, expect: Expect::AllOwn, bound: None, write_timeout_s: None });
    v.push(Spec { name: "c04/reverse".into(), prop: "C04", callers: two(11, 22), server: vec![Read, Read, Reply(1), Reply(0)], helper: vec![], pipe: q, expect: Expect::AllOwn, bound: None, write_timeout_s: None });
    v.push(Spec { name: "c04/unknown+dup".into(), prop: "C04", callers: two(11, 22), server: vec![Read, Read, ReplyUnknown, Reply(1), Reply(1), Reply(0)], helper: vec![], pipe: q, expect: Expect::AllOwn, bound: None, write_timeout_s: None });
    // reply as soon as the header is known, while the client's write is still blocked
    v.push(Spec { name: "c04/early-reply".into(), prop: "C04", callers: two(11, 22), server: vec![ReadHeader, Reply(0), ReadRest, Read, Reply(1)], helper: vec![], pipe: (48, 0), expect: Expect::AllOwn, bound: Some(1), write_timeout_s: None });
    v.push(Spec { name: "c04/early-reply-single".into(), prop: "C04", callers: vec![vec![Call::Plain(11)]], server: vec![ReadHeader, Reply(0), ReadRest], helper: vec![], pipe: (24, 0), expect: Expect::AllOwn, bound: None, write_timeout_s: None });
    v.push(Spec { name: "c04/one-caller-two-calls".into(), prop: "C04", callers: vec![vec![Call::Plain(1), Call::Plain(2)], vec![Call::Plain(3)]], server: vec![Read, Read, Reply(1), Reply(0), Read, Reply(2)], helper: vec![], pipe: (0, 0), expect: Expect::AllOwn, bound: None, write_timeout_s: None });
    if thorough {
        v.push(Spec { name: "c04/three-callers-rotated".into(), prop: "C04", callers: vec![vec![Call::Plain(1)], vec![Call::Plain(2)], vec![Call::Plain(3)]], server: vec![Read, Read, Read, Reply(2), Reply(0), Reply(1)], helper: vec![], pipe: (0, 0), expect: Expect::AllOwn, bound: Some(2), write_timeout_s: None });
    }
    // ---------------- C05: frames from concurrent callers + a notify never interleave
    v.push(Spec { name: "c05/two-calls+notify/quota24".into(), prop: "C05", callers: vec![vec![Call::Plain(5)], vec![Call::Notify(6), Call::Plain(7)]], server: vec![Read, Read, Read, Reply(0), Reply(1), Reply(2)], helper: vec![], pipe: (0, 24), expect: Expect::AllOwn, bound: None, write_timeout_s: None });
    v.push(Spec { name: "c05/two-calls/capacity1".into(), prop: "C05", callers: two(8, 9), server: vec![Read, Read, Reply(1), Reply(0)], helper: vec![], pipe: (1, 0), expect: Expect::AllOwn, bound: Some(2), write_timeout_s: None });
    // (a write timeout interrupting a frame larger than the writer's buffer is decided over real
    // TCP by the mc part: it needs the peer to resume reading between two writes)
    // ---------------- C06: failures with calls in flight, then a later call
    let later = |a: u64, b: u64| vec![vec![Call::Plain(a), Call::Plain(a + 100)], vec![Call::Plain(b)]];
    v.push(Spec { name: "c06/close-before-read".into(), prop: "C06", callers: later(1, 2), server: vec![Close], helper: vec![], pipe: (0, 0), expect: Expect::AllErr, bound: None, write_timeout_s: None });
    v.push(Spec { name: "c06/close-after-one-read".into(), prop: "C06", callers: later(1, 2), server: vec![Read, Close], helper: vec![], pipe: (0, 0), expect: Expect::AllErr, bound: None, write_timeout_s: None });
    v.push(Spec { name: "c06/partial-response-then-close".into(), prop: "C06", callers: later(1, 2), server: vec![Read, ReplyPartial(0, 50), Close], helper: vec![], pipe: (0, 0), expect: Expect::AllErr, bound: None, write_timeout_s: None });
    v.push(Spec { name: "c06/malformed-header".into(), prop: "C06", callers: later(1, 2), server: vec![Read, Malformed], helper: vec![], pipe: (0, 0), expect: Expect::AllErr, bound: None, write_timeout_s: None });
    v.push(Spec { name: "c06/answer-one-then-close".into(), prop: "C06", callers: two(1, 2), server: vec![Read, Reply(0), Close], helper: vec![], pipe: (0, 0), expect: Expect::OwnOrErr, bound: None, write_timeout_s: None });
    // the connection fails (malformed frame from a peer that stays up and never reads again) while a request
    // larger than the pipe is stalled mid-write, i.e. while the writer lock is held; a second caller is queued
    // behind it; every call, and the call issued afterwards, must return an error
    v.push(Spec { name: "c06/malformed-while-writer-stalled".into(), prop: "C06",
        callers: vec![vec![Call::Big(1, 200), Call::Plain(101)], vec![Call::Big(2, 200)]],
        server: vec![ReadHeader, Malformed], helper: vec![], pipe: (48, 0), expect: Expect::AllErr, bound: Some(if thorough { 2 } else { 1 }), write_timeout_s: None });
    v.push(Spec { name: "c06/malformed-while-single-writer-stalled".into(), prop: "C06",
        callers: vec![vec![Call::Big(1, 200), Call::Plain(101)]],
        server: vec![ReadHeader, Malformed], helper: vec![], pipe: (48, 0), expect: Expect::AllErr, bound: None, write_timeout_s: None });
    // timeouts: never answered, clock passes the deadline; then the same client keeps working
    v.push(Spec { name: "c06/timeout-then-late-reply-then-next-call".into(), prop: "C06",
        callers: vec![vec![Call::Timed(1, 5), Call::Plain(2)]],
        server: vec![Read, Tick(5), Reply(0), Read, Reply(1)], helper: vec![], pipe: (0, 0), expect: Expect::OwnOrTimeout, bound: None, write_timeout_s: None });
    // a reply racing the deadline, both orders (helper replies, main ticks)
    v.push(Spec { name: "c06/reply-races-timeout".into(), prop: "C06",
        callers: vec![vec![Call::Timed(1, 5)], vec![Call::Plain(2)]],
        server: vec![Tick(5)], helper: vec![Read, Read, Reply(0), Reply(1)], pipe: (0, 0), expect: Expect::OwnOrTimeout, bound: None, write_timeout_s: None });
    v.into_iter().filter(|s| s.prop == prop).collect()
}
