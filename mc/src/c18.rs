//! C18 — peer registry and aliases stay mutually consistent (sequential part).
//! Real `repe::PeerRegistry` driven by every history over insert/remove/alias
//! on 3 peers and 3 keys; after every step all observers and all nine broadcast
//! encodings are compared with a reference model. The reachable state space is
//! finite, so the BFS runs to a fixpoint: every reachable state is visited and
//! every letter is applied in every reachable state.

use crate::ctx::{Ctx, Samples, Tier};
use crate::explore::{self, Bad, Outcome, Stats, System, key_of};
use repe::{BodyFormat, NotifyBody, PeerHandle, PeerId, PeerRegistry, PeerSendError, PeerSink};
use serde_json::{Value, json};
use std::collections::{BTreeMap, BTreeSet};
use std::sync::{Arc, Mutex};

const PEERS: u64 = 3;
const KEYS: [&str; 3] = ["k0", "k1", "k2"];
/// this peer's sink is flaky: it refuses (Disconnected) every other notification it is handed, starting with the
/// first one; whatever it answers is what a broadcast must report for it, and a notification it accepts is delivered
const DEAD_PEER: u64 = 2;

#[derive(Clone, Debug, PartialEq)]
struct Sent {
    method: String,
    format: u16,
    bytes: Vec<u8>,
}

struct CapSink {
    peer: u64,
    generation: u64,
    got: Mutex<Vec<Sent>>,
    /// notifications handed to this sink so far (accepted or refused)
    sends: std::sync::atomic::AtomicU64,
}

impl PeerSink for CapSink {
    fn send_notify(&self, method: &str, body: NotifyBody) -> Result<(), PeerSendError> {
        let n = self.sends.fetch_add(1, std::sync::atomic::Ordering::SeqCst);
        if self.peer == DEAD_PEER && n % 2 == 0 {
            return Err(PeerSendError::Disconnected);
        }
        let format = u16::from(body.body_format());
        self.got.lock().unwrap().push(Sent {
            method: method.to_string(),
            format,
            bytes: body.into_bytes(),
        });
        Ok(())
    }
    fn is_connected(&self) -> bool {
        self.peer != DEAD_PEER
    }
}

#[derive(Clone, Copy, Debug)]
enum Letter {
    Insert(u64),
    Remove(u64),
    Alias(u64, usize),
}

#[derive(Clone, Default, Hash, PartialEq, Eq, Debug)]
struct Model {
    /// present peer -> generation of the handle inserted
    peers: BTreeMap<u64, u64>,
    alias: BTreeMap<usize, u64>,
    lists: BTreeMap<u64, Vec<usize>>,
}

pub struct PeerSys {
    alphabet: Vec<Letter>,
}

impl PeerSys {
    pub fn new() -> Self {
        let mut a = Vec::new();
        for p in 0..PEERS {
            a.push(Letter::Insert(p));
        }
        for p in 0..PEERS {
            a.push(Letter::Remove(p));
        }
        for p in 0..PEERS {
            for k in 0..KEYS.len() {
                a.push(Letter::Alias(p, k));
            }
        }
        PeerSys { alphabet: a }
    }
}

pub const F_REPOINT: u64 = 1 << 0;
pub const F_REMOVE_WITH_ALIASES: u64 = 1 << 1;
pub const F_ALIAS_ABSENT: u64 = 1 << 2;
pub const F_BROADCAST_MULTI: u64 = 1 << 3;
pub const F_BROADCAST_ERR: u64 = 1 << 4;
pub const F_REINSERT: u64 = 1 << 5;

struct Run {
    reg: PeerRegistry,
    sinks: BTreeMap<u64, Arc<CapSink>>,
    m: Model,
    generation: u64,
    bad: Vec<Bad>,
    flags: u64,
    step: usize,
    checking: bool,
}

impl Run {
    fn fail(&mut self, key: &str, what: String) {
        if self.checking {
            self.bad.push(Bad { key: key.into(), what, step: self.step });
        }
    }

    fn apply(&mut self, l: Letter) {
        match l {
            Letter::Insert(p) => {
                if self.m.peers.contains_key(&p) {
                    return; // documented precondition: ids are unique while present
                }
                self.generation += 1;
                if self.generation > 1 && self.sinks.contains_key(&p) {
                    self.flags |= F_REINSERT;
                }
                let sink = Arc::new(CapSink { peer: p, generation: self.generation, got: Mutex::new(Vec::new()), sends: std::sync::atomic::AtomicU64::new(0) });
                self.sinks.insert(p, sink.clone());
                self.reg.insert(PeerHandle::new(PeerId(p), sink));
                self.m.peers.insert(p, self.generation);
            }
            Letter::Remove(p) => {
                let r = self.reg.remove(PeerId(p));
                let expected = self.m.peers.remove(&p);
                if let Some(keys) = self.m.lists.remove(&p) {
                    if !keys.is_empty() && expected.is_some() {
                        self.flags |= F_REMOVE_WITH_ALIASES;
                    }
                    for k in keys {
                        self.m.alias.remove(&k);
                    }
                }
                if r.as_ref().map(|h| h.peer_id().0) != expected.map(|_| p) {
                    self.fail("C18:remove-return", format!(
                        "remove({p}) returned {:?}, peer was {}", r.map(|h| h.peer_id().0),
                        if expected.is_some() { "present" } else { "absent" }));
                }
            }
            Letter::Alias(p, k) => {
                let r = self.reg.alias(PeerId(p), KEYS[k]);
                let present = self.m.peers.contains_key(&p);
                if !present {
                    self.flags |= F_ALIAS_ABSENT;
                }
                if r != present {
                    self.fail("C18:alias-return", format!(
                        "alias(peer {p}, {}) returned {r}, peer is {}", KEYS[k],
                        if present { "present" } else { "absent" }));
                }
                if present {
                    match self.m.alias.insert(k, p) {
                        Some(prev) if prev == p => {}
                        Some(prev) => {
                            self.flags |= F_REPOINT;
                            if let Some(v) = self.m.lists.get_mut(&prev) {
                                v.retain(|x| *x != k);
                            }
                            self.m.lists.entry(p).or_default().push(k);
                        }
                        None => self.m.lists.entry(p).or_default().push(k),
                    }
                }
            }
        }
        self.observe();
    }

    fn observe(&mut self) {
        let m = self.m.clone();
        if self.reg.len() != m.peers.len() {
            self.fail("C18:len", format!("len() = {}, model has {} peers", self.reg.len(), m.peers.len()));
        }
        if self.reg.is_empty() != m.peers.is_empty() {
            self.fail("C18:len", "is_empty() disagrees with the model".into());
        }
        for p in 0..PEERS {
            let got = self.reg.get(PeerId(p)).map(|h| h.peer_id().0);
            let want = m.peers.get(&p).map(|_| p);
            if got != want {
                self.fail("C18:get", format!("get({p}) = {got:?}, model {want:?}"));
            }
            let want_keys: Vec<String> = m.lists.get(&p).map(|v| v.iter().map(|k| KEYS[*k].to_string()).collect()).unwrap_or_default();
            let got_keys = self.reg.aliases_for(PeerId(p));
            if got_keys != want_keys {
                self.fail("C18:aliases_for", format!(
                    "aliases_for({p}) = {got_keys:?}, keys currently pointing at it in assignment order are {want_keys:?}"));
            }
            let got_first = self.reg.key_for(PeerId(p));
            if got_first != want_keys.first().cloned() {
                self.fail("C18:key_for", format!("key_for({p}) = {got_first:?}, model {:?}", want_keys.first()));
            }
        }
        for (k, name) in KEYS.iter().enumerate() {
            let got = self.reg.get_by(*name).map(|h| h.peer_id().0);
            let want = m.alias.get(&k).copied().filter(|p| m.peers.contains_key(p));
            if got != want {
                self.fail("C18:get_by", format!("get_by({name}) = {got:?}, model {want:?}"));
            }
        }
        let snapshot: BTreeSet<u64> = self.reg.peers().iter().map(|h| h.peer_id().0).collect();
        if snapshot != m.peers.keys().copied().collect() {
            self.fail("C18:peers", format!("peers() = {snapshot:?}, model {:?}", m.peers.keys()));
        }
        self.broadcasts(&m);
    }

    fn broadcasts(&mut self, m: &Model) {
        if m.peers.len() >= 2 {
            self.flags |= F_BROADCAST_MULTI;
        }
        let payload = json!({"n": self.step, "s": "x"});
        for enc in 0..9u8 {
            for s in self.sinks.values() {
                s.got.lock().unwrap().clear();
            }
            // what the flaky sink will answer to the next notification it is handed
            let refuses: BTreeSet<u64> = self
                .sinks
                .iter()
                .filter(|(p, s)| **p == DEAD_PEER && s.sends.load(std::sync::atomic::Ordering::SeqCst) % 2 == 0)
                .map(|(p, _)| *p)
                .collect();
            // the path is delivered as given, rooted or not (also empty, and with a '~')
            let path = match enc {
                1 => format!("evt/{enc}"),
                5 => "tick".to_string(),
                6 => "~x/y".to_string(),
                7 => String::new(),
                _ => format!("/evt/{enc}"),
            };
            let (res, want_fmt, want_bytes): (_, u16, Vec<u8>) = match enc {
                0 => (
                    self.reg.broadcast_notify_json(&path, &payload).map_err(|e| e.to_string()),
                    u16::from(BodyFormat::Json),
                    serde_json::to_vec(&payload).unwrap(),
                ),
                1 => (
                    self.reg.broadcast_notify_beve(&path, &payload).map_err(|e| e.to_string()),
                    u16::from(BodyFormat::Beve),
                    beve::to_vec(&payload).unwrap(),
                ),
                2 => (Ok(self.reg.broadcast_notify_utf8(&path, "héllo")), u16::from(BodyFormat::Utf8), "héllo".as_bytes().to_vec()),
                3 => (
                    Ok(self.reg.broadcast_notify_raw(&path, BodyFormat::RawBinary, &[0, 255, 7])),
                    u16::from(BodyFormat::RawBinary),
                    vec![0, 255, 7],
                ),
                // raw bytes under the other format tags: delivered byte for byte whatever they are
                // (ill-formed UTF-8 under the UTF-8 tag, no JSON under the JSON tag, no BEVE under the BEVE tag, empty)
                4 => (
                    Ok(self.reg.broadcast_notify_raw(&path, BodyFormat::Utf8, &[0x61, 0x80, 0x62, 0xc0, 0xaf, 0x63, 0xe2, 0x82])),
                    u16::from(BodyFormat::Utf8),
                    vec![0x61, 0x80, 0x62, 0xc0, 0xaf, 0x63, 0xe2, 0x82],
                ),
                5 => (Ok(self.reg.broadcast_notify_raw(&path, BodyFormat::Json, b"{not json \xff")), u16::from(BodyFormat::Json), b"{not json \xff".to_vec()),
                6 => (Ok(self.reg.broadcast_notify_raw(&path, BodyFormat::Beve, &[0xff, 0xfe, 0x00])), u16::from(BodyFormat::Beve), vec![0xff, 0xfe, 0x00]),
                7 => (Ok(self.reg.broadcast_notify_raw(&path, BodyFormat::Utf8, b"")), u16::from(BodyFormat::Utf8), Vec::new()),
                _ => (Ok(self.reg.broadcast_notify_utf8(&path, "")), u16::from(BodyFormat::Utf8), Vec::new()),
            };
            let res = match res {
                Ok(r) => r,
                Err(e) => {
                    self.fail("C18:broadcast-error", format!("broadcast encoding {enc} failed: {e}"));
                    continue;
                }
            };
            let got_ids: BTreeSet<u64> = res.keys().map(|p| p.0).collect();
            let want_ids: BTreeSet<u64> = m.peers.keys().copied().collect();
            if got_ids != want_ids {
                self.fail("C18:broadcast-results", format!(
                    "broadcast (encoding {enc}) reported results for {got_ids:?}, peers present {want_ids:?}"));
            }
            if m.peers.contains_key(&DEAD_PEER) {
                self.flags |= F_BROADCAST_ERR;
            }
            for (id, r) in &res {
                let dead = refuses.contains(&id.0);
                if r.is_ok() == dead {
                    self.fail("C18:broadcast-result-value", format!(
                        "broadcast result for peer {} is {r:?}, its sink {}", id.0,
                        if dead { "refuses" } else { "accepts" }));
                }
            }
            let sinks: Vec<(u64, Arc<CapSink>)> = self.sinks.iter().map(|(p, s)| (*p, s.clone())).collect();
            for (p, s) in sinks {
                let got = s.got.lock().unwrap().clone();
                let present_with_this_handle = m.peers.get(&p) == Some(&s.generation);
                let want_n = usize::from(present_with_this_handle && !refuses.contains(&p));
                if got.len() != want_n {
                    self.fail("C18:broadcast-delivery", format!(
                        "broadcast (encoding {enc}) delivered {} notifications to peer {p} (present: {present_with_this_handle}), expected {want_n}",
                        got.len()));
                    continue;
                }
                if let Some(g) = got.first() {
                    if g.method != path || g.format != want_fmt || g.bytes != want_bytes {
                        self.fail("C18:broadcast-content", format!(
                            "peer {p} received ({:?}, format {}, {} bytes), expected ({path:?}, format {want_fmt}, {} bytes)",
                            g.method, g.format, g.bytes.len(), want_bytes.len()));
                    }
                }
            }
        }
    }
}

impl System for PeerSys {
    fn letters(&self) -> usize {
        self.alphabet.len()
    }
    fn letter_name(&self, l: u8) -> String {
        format!("{:?}", self.alphabet[l as usize])
    }
    fn run(&self, history: &[u8], check_from: usize) -> Outcome {
        let mut run = Run {
            reg: PeerRegistry::new(),
            sinks: BTreeMap::new(),
            m: Model::default(),
            generation: 0,
            bad: Vec::new(),
            flags: 0,
            step: 0,
            checking: check_from == 0,
        };
        if history.is_empty() {
            run.observe();
        }
        for (i, &l) in history.iter().enumerate() {
            run.step = i;
            run.checking = i >= check_from;
            run.apply(self.alphabet[l as usize]);
        }
        // canonical state: model (generations normalised away: a handle's identity
        // only matters relative to "is it the current one", which observe() checks)
        let canon: (Vec<u64>, &BTreeMap<usize, u64>, &BTreeMap<u64, Vec<usize>>) =
            (run.m.peers.keys().copied().collect(), &run.m.alias, &run.m.lists);
        // plus the implementation's own observable projection
        let obs: Vec<(Option<u64>, Vec<String>)> = (0..PEERS)
            .map(|p| (run.reg.get(PeerId(p)).map(|h| h.peer_id().0), run.reg.aliases_for(PeerId(p))))
            .collect();
        let by: Vec<Option<u64>> = KEYS.iter().map(|k| run.reg.get_by(*k).map(|h| h.peer_id().0)).collect();
        Outcome { key: Some(key_of(&(canon, obs, by))), bad: run.bad, flags: run.flags }
    }
}

fn record(ctx: &Ctx, sys: &PeerSys, st: &Stats) {
    for (hist, bad) in &st.first_bad {
        let ops: Vec<String> = hist.iter().map(|l| sys.letter_name(*l)).collect();
        ctx.violation(
            bad.key.clone(),
            format!("{} after {:?}", bad.what, ops),
            json!({"history": hist, "ops": ops, "failed_after_step": bad.step}),
        );
    }
}

pub fn run(tier: Tier) -> ! {
    let ctx = Ctx::new("C18", tier);
    let sys = PeerSys::new();
    let samples = Samples::new(3);
    let b = explore::bfs(&sys, 64, 5_000_000, None);
    record(&ctx, &sys, &b);
    if !b.fixpoint && !ctx.has_violation() {
        ctx.machinery("C18 BFS did not reach a fixpoint");
    }
    let depth = tier.pick(6, 7);
    let t = explore::tree(&sys, depth, Some(std::time::Instant::now() + std::time::Duration::from_secs(tier.pick(45, 1500))));
    record(&ctx, &sys, &t);
    let flags = b.flags_or | t.flags_or;
    for f in [F_REPOINT, F_REMOVE_WITH_ALIASES, F_ALIAS_ABSENT, F_BROADCAST_MULTI, F_BROADCAST_ERR, F_REINSERT] {
        if flags & f == 0 && !ctx.has_violation() {
            ctx.machinery(format!("vacuous exploration: flag {f:#x} never set"));
        }
    }
    let sample_ops: Vec<String> = [3u8, 9, 0, 7, 12, 1].iter().map(|l| sys.letter_name(*l)).collect();
    samples.offer(|| json!({"ops": sample_ops}));
    let coverage = json!({
        "states": b.states,
        "transitions": b.transitions + t.transitions,
        "traces_validated_against_impl": b.histories + t.histories,
        "samples": samples.take(),
        "exhaustive": b.fixpoint && t.complete,
        "bfs": {"fixpoint": b.fixpoint, "states": b.states, "transitions": b.transitions, "max_depth_needed": b.depth},
        "tree": {"depth": t.depth, "histories": t.histories, "complete": t.complete},
        "alphabet": (0..sys.letters()).map(|l| sys.letter_name(l as u8)).collect::<Vec<_>>(),
        "nonvacuity": {
            "alias_repointed": b.flag_counts[0] + t.flag_counts[0],
            "remove_of_peer_with_aliases": b.flag_counts[1] + t.flag_counts[1],
            "alias_on_absent_peer": b.flag_counts[2] + t.flag_counts[2],
            "broadcast_to_two_or_more": b.flag_counts[3] + t.flag_counts[3],
            "broadcast_with_refusing_sink": b.flag_counts[4] + t.flag_counts[4],
            "peer_reinserted_with_new_handle": b.flag_counts[5] + t.flag_counts[5],
        },
        "rule": "BFS to a fixpoint over the finite state space of 3 peers x 3 keys (merging on model state + every observer's answer), plus every un-merged history of the tree depth; after every step get/get_by/key_for/aliases_for/len/peers and all nine broadcast forms (json, beve, utf8, raw; raw bytes that are not well-formed for their format tag; empty bodies) (one sink refusing every other notification it is handed) are compared with the reference model",
    });
    ctx.finish(
        "model_checking",
        coverage,
        &[
            "insert of an id that is already present is outside the documented precondition and is skipped",
            "concurrent callers are decided by the loom part of C18",
        ],
    )
}

pub fn replay(case: &Value) -> Result<(), String> {
    let sys = PeerSys::new();
    let hist: Vec<u8> = case["history"].as_array().ok_or("history")?.iter().map(|v| v.as_u64().unwrap_or(0) as u8).collect();
    let o = sys.run(&hist, 0);
    if o.bad.is_empty() { Ok(()) } else { Err(o.bad.iter().map(|b| format!("{}: {}", b.key, b.what)).collect::<Vec<_>>().join("\n")) }
}
