//! C14 oracle: an independent RFC 6901 tokenizer/evaluator and the reference
//! model "plain JSON document + set of callables + call log".
//! Nothing here calls into `repe`.

use serde_json::{Map, Value, json};
use std::collections::BTreeSet;

// ---------------------------------------------------------------- RFC 6901

/// `~1` -> `/`, `~0` -> `~`; a `~` followed by anything else (or nothing) is malformed.
pub fn unescape(tok: &str) -> Option<String> {
    let b = tok.as_bytes();
    let mut out: Vec<u8> = Vec::with_capacity(b.len());
    let mut i = 0;
    while i < b.len() {
        if b[i] == b'~' {
            match b.get(i + 1) {
                Some(b'0') => out.push(b'~'),
                Some(b'1') => out.push(b'/'),
                _ => return None,
            }
            i += 2;
        } else {
            out.push(b[i]);
            i += 1;
        }
    }
    String::from_utf8(out).ok()
}

pub fn escape(tok: &str) -> String {
    let mut out = String::with_capacity(tok.len() + 2);
    for c in tok.chars() {
        match c {
            '~' => out.push_str("~0"),
            '/' => out.push_str("~1"),
            c => out.push(c),
        }
    }
    out
}

/// Strict RFC 6901: "" = whole document, otherwise must start with '/';
/// "/" is the single empty token.
pub fn rfc_tokens(p: &str) -> Option<Vec<String>> {
    if p.is_empty() {
        return Some(Vec::new());
    }
    let rest = p.strip_prefix('/')?;
    rest.split('/').map(unescape).collect()
}

/// Registry convention (follows the implementation, see assumptions): both ""
/// and "/" address the root; everything else is RFC 6901.
pub fn reg_tokens(p: &str) -> Option<Vec<String>> {
    if p == "/" {
        return Some(Vec::new());
    }
    rfc_tokens(p)
}

/// Registration paths (`register_*`, `merge_at`): a path without a leading '/'
/// is taken as if it had one.
pub fn registration_tokens(path: &str) -> Option<Vec<String>> {
    if path.is_empty() || path.starts_with('/') {
        reg_tokens(path)
    } else {
        reg_tokens(&format!("/{path}"))
    }
}

/// Canonical spelling of a token sequence; the root is spelled "/" (registry form).
pub fn canon(toks: &[String]) -> String {
    if toks.is_empty() {
        return "/".to_string();
    }
    let mut s = String::new();
    for t in toks {
        s.push('/');
        s.push_str(&escape(t));
    }
    s
}

/// RFC 6901 array index: "0" or a non-zero digit followed by digits.
pub fn strict_index(tok: &str) -> Option<usize> {
    if tok.is_empty() || !tok.bytes().all(|c| c.is_ascii_digit()) {
        return None;
    }
    if tok.len() > 1 && tok.starts_with('0') {
        return None;
    }
    tok.parse().ok()
}

/// A token that Rust's `usize::from_str` accepts but RFC 6901 does not
/// ("01", "+1"): what the registry does with it is unspecified.
pub fn lenient_index(tok: &str) -> bool {
    tok.parse::<usize>().is_ok() && strict_index(tok).is_none()
}

pub fn get<'a>(root: &'a Value, toks: &[String]) -> Option<&'a Value> {
    let mut cur = root;
    for t in toks {
        cur = match cur {
            Value::Object(m) => m.get(t)?,
            Value::Array(a) => a.get(strict_index(t)?)?,
            _ => return None,
        };
    }
    Some(cur)
}

pub fn get_mut<'a>(root: &'a mut Value, toks: &[String]) -> Option<&'a mut Value> {
    let mut cur = root;
    for t in toks {
        cur = match cur {
            Value::Object(m) => m.get_mut(t)?,
            Value::Array(a) => a.get_mut(strict_index(t)?)?,
            _ => return None,
        };
    }
    Some(cur)
}

/// Canonical JSON text (object keys sorted) — used for state keys and messages.
pub fn canon_json(v: &Value) -> String {
    fn rec(v: &Value, out: &mut String) {
        match v {
            Value::Object(m) => {
                let mut keys: Vec<&String> = m.keys().collect();
                keys.sort();
                out.push('{');
                for (i, k) in keys.iter().enumerate() {
                    if i > 0 {
                        out.push(',');
                    }
                    out.push_str(&Value::String((*k).clone()).to_string());
                    out.push(':');
                    rec(&m[*k], out);
                }
                out.push('}');
            }
            Value::Array(a) => {
                out.push('[');
                for (i, x) in a.iter().enumerate() {
                    if i > 0 {
                        out.push(',');
                    }
                    rec(x, out);
                }
                out.push(']');
            }
            other => out.push_str(&other.to_string()),
        }
    }
    let mut s = String::new();
    rec(v, &mut s);
    s
}

pub fn is_prefix(a: &[String], b: &[String]) -> bool {
    a.len() <= b.len() && a.iter().zip(b).all(|(x, y)| x == y)
}

/// Two pointers are related when one addresses an ancestor of (or the same
/// node as) the other.
pub fn related(a: &[String], b: &[String]) -> bool {
    is_prefix(a, b) || is_prefix(b, a)
}

// ---------------------------------------------------------------- operations

#[derive(Clone, Debug, PartialEq)]
pub enum Op {
    /// request with an empty body
    Read(String),
    /// request with a non-empty body: call if a callable is there, else write
    Send(String, Value),
    RegValue(String, Value),
    RegFn(String),
    MergeAt(String, Value),
    ReadValue(String),
    SetRoot(Value),
    MergeRoot(Value),
}

impl Op {
    pub fn to_json(&self) -> Value {
        match self {
            Op::Read(p) => json!({"op": "read", "p": p}),
            Op::Send(p, v) => json!({"op": "send", "p": p, "v": v}),
            Op::RegValue(p, v) => json!({"op": "register_value", "p": p, "v": v}),
            Op::RegFn(p) => json!({"op": "register_function", "p": p}),
            Op::MergeAt(p, v) => json!({"op": "merge_at", "p": p, "v": v}),
            Op::ReadValue(p) => json!({"op": "read_value", "p": p}),
            Op::SetRoot(v) => json!({"op": "set_root", "v": v}),
            Op::MergeRoot(v) => json!({"op": "merge_root", "v": v}),
        }
    }
    pub fn from_json(j: &Value) -> Option<Op> {
        let p = || j.get("p").and_then(|s| s.as_str()).map(|s| s.to_string());
        let v = || j.get("v").cloned();
        Some(match j.get("op")?.as_str()? {
            "read" => Op::Read(p()?),
            "send" => Op::Send(p()?, v()?),
            "register_value" => Op::RegValue(p()?, v()?),
            "register_function" => Op::RegFn(p()?),
            "merge_at" => Op::MergeAt(p()?, v()?),
            "read_value" => Op::ReadValue(p()?),
            "set_root" => Op::SetRoot(v()?),
            "merge_root" => Op::MergeRoot(v()?),
            _ => return None,
        })
    }
    pub fn short(&self) -> String {
        match self {
            Op::Read(p) => format!("read({p:?})"),
            Op::Send(p, v) => format!("send({p:?}, {v})"),
            Op::RegValue(p, v) => format!("register_value({p:?}, {v})"),
            Op::RegFn(p) => format!("register_function({p:?})"),
            Op::MergeAt(p, v) => format!("merge_at({p:?}, {v})"),
            Op::ReadValue(p) => format!("read_value({p:?})"),
            Op::SetRoot(v) => format!("set_root({v})"),
            Op::MergeRoot(v) => format!("merge_root({v})"),
        }
    }
    /// Tokens of the node the operation addresses (None = malformed pointer).
    pub fn target(&self) -> Option<Vec<String>> {
        match self {
            Op::Read(p) | Op::Send(p, _) | Op::ReadValue(p) => reg_tokens(p),
            Op::RegValue(p, _) | Op::RegFn(p) | Op::MergeAt(p, _) => registration_tokens(p),
            Op::SetRoot(_) | Op::MergeRoot(_) => Some(Vec::new()),
        }
    }
}

/// What the callable registered by the harness returns for an argument.
/// `null` makes it fail (the invocation is still recorded).
pub fn callable_answer(key: &str, arg: &Value) -> Result<Value, ()> {
    if arg.is_null() {
        Err(())
    } else {
        Ok(json!({"fn": key, "echo": arg}))
    }
}

// ---------------------------------------------------------------- model

#[derive(Clone, Debug, PartialEq)]
pub enum Expect {
    /// Ok with exactly this value
    Value(Value),
    /// Ok, content not stated by the property (write acknowledgement, ...)
    OkAny,
    /// any error
    Err,
    /// malformed pointer: error of the not-found class
    NotFound,
    /// nothing stated about the result (read of a callable's own pointer)
    Free,
}

#[derive(Clone, Debug)]
pub struct Pred {
    pub expect: Expect,
    /// coarse class of the step, used in violation keys
    pub class: &'static str,
    /// the outcome is not stated (non-object ancestor on a registration path,
    /// merge into a non-object root): accepted are "Ok with the model's new
    /// state" and "Err with the state unchanged"
    pub either: bool,
    /// nothing at all is stated if this succeeds (callable at the root)
    pub unspecified_if_ok: bool,
}

impl Pred {
    fn new(expect: Expect, class: &'static str) -> Pred {
        Pred { expect, class, either: false, unspecified_if_ok: false }
    }
}

#[derive(Clone, Debug, PartialEq)]
pub struct Model {
    pub doc: Value,
    /// canonical pointers of the registered callables
    pub funcs: BTreeSet<String>,
    /// (canonical pointer of the callable, argument) in invocation order
    pub calls: Vec<(String, Value)>,
}

fn ensure_parents(doc: &mut Value, parents: &[String]) -> bool {
    let mut replaced = false;
    if !doc.is_object() {
        *doc = json!({});
        replaced = true;
    }
    let mut cur = doc;
    for t in parents {
        let Some(m) = cur.as_object_mut() else { return replaced };
        let e = m.entry(t.clone()).or_insert_with(|| json!({}));
        if !e.is_object() {
            *e = json!({});
            replaced = true;
        }
        cur = e;
    }
    replaced
}

fn merge_into(target: &mut Value, obj: &Map<String, Value>) {
    if let Some(m) = target.as_object_mut() {
        for (k, v) in obj {
            m.insert(k.clone(), v.clone());
        }
    }
}

impl Model {
    pub fn new() -> Model {
        Model { doc: json!({}), funcs: BTreeSet::new(), calls: Vec::new() }
    }

    pub fn read(&self, p: &str) -> Expect {
        let Some(toks) = reg_tokens(p) else { return Expect::NotFound };
        if self.funcs.contains(&canon(&toks)) {
            return Expect::Free;
        }
        match get(&self.doc, &toks) {
            Some(v) => Expect::Value(v.clone()),
            None => Expect::Err,
        }
    }

    fn root_merge(&mut self, obj: &Map<String, Value>, class: &'static str) -> Pred {
        let mut pr = Pred::new(Expect::OkAny, class);
        if !self.doc.is_object() {
            self.doc = json!({});
            pr.either = true;
        }
        merge_into(&mut self.doc, obj);
        pr
    }

    pub fn apply(&mut self, op: &Op) -> Pred {
        match op {
            Op::Read(p) => {
                let e = self.read(p);
                let class = if e == Expect::NotFound { "malformed" } else { "read" };
                Pred::new(e, class)
            }
            Op::ReadValue(p) => match reg_tokens(p) {
                None => Pred::new(Expect::NotFound, "malformed"),
                Some(toks) => match get(&self.doc, &toks) {
                    Some(v) => Pred::new(Expect::Value(v.clone()), "read_value"),
                    None => Pred::new(Expect::Err, "read_value"),
                },
            },
            Op::Send(p, v) => {
                let Some(toks) = reg_tokens(p) else { return Pred::new(Expect::NotFound, "malformed") };
                let key = canon(&toks);
                if self.funcs.contains(&key) {
                    self.calls.push((key.clone(), v.clone()));
                    return match callable_answer(&key, v) {
                        Ok(r) => Pred::new(Expect::Value(r), "call"),
                        Err(()) => Pred::new(Expect::Err, "call"),
                    };
                }
                if toks.is_empty() {
                    let Value::Object(obj) = v else { return Pred::new(Expect::Err, "root-write-rejected") };
                    return self.root_merge(obj, "root-write");
                }
                let (last, parents) = toks.split_last().unwrap();
                match get_mut(&mut self.doc, parents) {
                    Some(Value::Object(m)) => {
                        m.insert(last.clone(), v.clone());
                        Pred::new(Expect::OkAny, "write")
                    }
                    Some(Value::Array(a)) => match strict_index(last).and_then(|i| a.get_mut(i)) {
                        Some(slot) => {
                            *slot = v.clone();
                            Pred::new(Expect::OkAny, "write")
                        }
                        None => Pred::new(Expect::Err, "write-rejected"),
                    },
                    _ => Pred::new(Expect::Err, "write-rejected"),
                }
            }
            Op::RegValue(p, v) => {
                let Some(toks) = registration_tokens(p) else { return Pred::new(Expect::NotFound, "malformed") };
                if toks.is_empty() {
                    self.doc = v.clone();
                    return Pred::new(Expect::OkAny, "register_value");
                }
                let (last, parents) = toks.split_last().unwrap();
                let replaced = ensure_parents(&mut self.doc, parents);
                if let Some(Value::Object(m)) = get_mut(&mut self.doc, parents) {
                    m.insert(last.clone(), v.clone());
                }
                let mut pr = Pred::new(Expect::OkAny, "register_value");
                pr.either = replaced;
                pr
            }
            Op::RegFn(p) => {
                let Some(toks) = registration_tokens(p) else { return Pred::new(Expect::NotFound, "malformed") };
                if toks.is_empty() {
                    let mut pr = Pred::new(Expect::Err, "register_function");
                    pr.unspecified_if_ok = true;
                    return pr;
                }
                let replaced = ensure_parents(&mut self.doc, &toks[..toks.len() - 1]);
                self.funcs.insert(canon(&toks));
                let mut pr = Pred::new(Expect::OkAny, "register_function");
                pr.either = replaced;
                pr
            }
            Op::MergeAt(p, v) => {
                let Some(toks) = registration_tokens(p) else { return Pred::new(Expect::NotFound, "malformed") };
                let Value::Object(obj) = v else { return Pred::new(Expect::Err, "merge_at") };
                if toks.is_empty() {
                    return self.root_merge(obj, "merge_at");
                }
                match get_mut(&mut self.doc, &toks) {
                    Some(t @ Value::Object(_)) => {
                        merge_into(t, obj);
                        Pred::new(Expect::OkAny, "merge_at")
                    }
                    _ => Pred::new(Expect::Err, "merge_at-rejected"),
                }
            }
            Op::SetRoot(v) => {
                self.doc = v.clone();
                Pred::new(Expect::OkAny, "set_root")
            }
            Op::MergeRoot(v) => {
                let Value::Object(obj) = v else { return Pred::new(Expect::Err, "merge_root") };
                self.root_merge(obj, "merge_root")
            }
        }
    }
}
