//! C09, transports: the public pullers over `Client` <-> `Server` (loopback
//! TCP), `AsyncClient` <-> `Server`, and `WebSocketClient` <-> `WebSocketServer`.

use super::seam::{
    NextReq, OpenReq, OpenResp, Val, complex_for, logical, make_router, resource_of, typed_for, val_for,
};
use super::{Kind, Pat};
use repe::{
    AsyncClient, BodyFormat, Client, Complex, QueryFormat, RepeError, Server, WebSocketClient, WebSocketServer,
};
use std::fmt::Debug;
use std::io::Read;
use std::sync::Arc;
use tokio::runtime::Runtime;

#[derive(Clone, Copy, Debug, PartialEq, Eq)]
pub enum Transport {
    Tcp,
    AsyncTcp,
    Ws,
}

impl Transport {
    pub fn name(self) -> &'static str {
        match self {
            Transport::Tcp => "tcp",
            Transport::AsyncTcp => "async-tcp",
            Transport::Ws => "websocket",
        }
    }
    pub fn parse(s: &str) -> Option<Self> {
        Some(match s {
            "tcp" => Transport::Tcp,
            "async-tcp" => Transport::AsyncTcp,
            "websocket" => Transport::Ws,
            _ => return None,
        })
    }
}

#[derive(Clone, Copy, Debug, PartialEq, Eq)]
pub enum Puller {
    ToVec,
    Value,
    Typed,
    Complex,
    Consume,
    Raw,
}

impl Puller {
    pub fn name(self) -> &'static str {
        match self {
            Puller::ToVec => "pull_to_vec",
            Puller::Value => "pull_value",
            Puller::Typed => "pull_typed_slice",
            Puller::Complex => "pull_complex_slice",
            Puller::Consume => "pull_consume",
            Puller::Raw => "raw-exchanges",
        }
    }
    pub fn parse(s: &str) -> Option<Self> {
        Some(match s {
            "pull_to_vec" => Puller::ToVec,
            "pull_value" => Puller::Value,
            "pull_typed_slice" => Puller::Typed,
            "pull_complex_slice" => Puller::Complex,
            "pull_consume" => Puller::Consume,
            "raw-exchanges" => Puller::Raw,
            _ => return None,
        })
    }
}

#[derive(Clone, Copy, Debug)]
pub struct NetJob {
    pub kind: Kind,
    pub c: u32,
    pub depth: u8,
    pub zstd: bool,
}

#[derive(Clone, Copy, Debug)]
pub struct NetSub {
    pub m: u32,
    pub pat: Pat,
    pub fail_at: Option<u32>,
    pub puller: Puller,
    pub transport: Transport,
}

/// smallest element count whose logical encoding is exactly `target` bytes
pub fn m_for_len(kind: Kind, target: usize) -> Option<usize> {
    (0..=12usize).filter_map(|o| target.checked_sub(o)).find(|&m| logical_len(kind, m) == target)
}

fn logical_len(kind: Kind, m: usize) -> usize {
    match kind {
        Kind::Typed => 1 + beve_size_len(m) + m,
        Kind::Complex => 2 + beve_size_len(m) + 2 * m,
        Kind::Reader | Kind::Writer => m,
        Kind::Value => logical(kind, m).len(),
    }
}

fn beve_size_len(n: usize) -> usize {
    if n < 64 {
        1
    } else if n < 16384 {
        2
    } else if n < (1 << 30) {
        4
    } else {
        8
    }
}

pub fn boundary_ms(kind: Kind, c: usize) -> Vec<u32> {
    let mut ms: Vec<usize> = vec![0, 1, c.saturating_sub(1), c, c + 1, 2 * c, 3 * c + 1];
    if !matches!(kind, Kind::Reader | Kind::Writer) {
        for t in [c, 2 * c, 3 * c] {
            if let Some(m) = m_for_len(kind, t) {
                ms.push(m);
            }
        }
    }
    ms.sort();
    ms.dedup();
    ms.into_iter().map(|m| m as u32).collect()
}

pub fn subcases(job: &NetJob) -> Vec<NetSub> {
    let c = job.c as usize;
    let mut out = Vec::new();
    let ms = boundary_ms(job.kind, c);
    let (pats, pullers): (Vec<Pat>, Vec<(Transport, Puller)>) = match job.kind {
        Kind::Value => (
            vec![Pat::Natural],
            vec![
                (Transport::Tcp, Puller::Value),
                (Transport::Tcp, Puller::ToVec),
                (Transport::Tcp, Puller::Consume),
                (Transport::Tcp, Puller::Raw),
                (Transport::AsyncTcp, Puller::Value),
                (Transport::AsyncTcp, Puller::ToVec),
                (Transport::AsyncTcp, Puller::Consume),
                (Transport::Ws, Puller::Value),
                (Transport::Ws, Puller::ToVec),
            ],
        ),
        Kind::Typed => (
            vec![Pat::Natural],
            vec![
                (Transport::Tcp, Puller::Typed),
                (Transport::Tcp, Puller::ToVec),
                (Transport::Tcp, Puller::Raw),
                (Transport::AsyncTcp, Puller::Typed),
                (Transport::AsyncTcp, Puller::ToVec),
                (Transport::Ws, Puller::Typed),
            ],
        ),
        Kind::Complex => (
            vec![Pat::Natural],
            vec![
                (Transport::Tcp, Puller::Complex),
                (Transport::Tcp, Puller::ToVec),
                (Transport::Tcp, Puller::Raw),
                (Transport::AsyncTcp, Puller::Complex),
                (Transport::AsyncTcp, Puller::ToVec),
                (Transport::Ws, Puller::Complex),
            ],
        ),
        Kind::Reader | Kind::Writer => (
            vec![Pat::Single, Pat::Alt],
            vec![
                (Transport::Tcp, Puller::ToVec),
                (Transport::Tcp, Puller::Consume),
                (Transport::Tcp, Puller::Raw),
                (Transport::AsyncTcp, Puller::ToVec),
                (Transport::AsyncTcp, Puller::Consume),
                (Transport::Ws, Puller::ToVec),
                (Transport::Ws, Puller::Consume),
            ],
        ),
    };
    for &m in &ms {
        for &pat in &pats {
            for &(transport, puller) in &pullers {
                out.push(NetSub { m, pat, fail_at: None, puller, transport });
            }
        }
    }
    if matches!(job.kind, Kind::Reader | Kind::Writer) {
        for &m in &ms {
            let mut ps: Vec<u32> = vec![0, 1, job.c, m];
            ps.retain(|&p| p <= m);
            ps.sort();
            ps.dedup();
            for p in ps {
                for (transport, puller) in [
                    (Transport::Tcp, Puller::ToVec),
                    (Transport::Tcp, Puller::Raw),
                    (Transport::AsyncTcp, Puller::ToVec),
                    (Transport::Ws, Puller::ToVec),
                ] {
                    out.push(NetSub { m, pat: Pat::AllC, fail_at: Some(p), puller, transport });
                }
            }
        }
    }
    out
}

pub struct Endpoints {
    pub client: Client,
    pub aclient: AsyncClient,
    pub ws: WebSocketClient,
}

/// Loopback ports can be scarce on a shared host (TIME_WAIT): a failed bind /
/// connect is retried a few times with a growing pause before it is reported
/// (as a machinery condition, never a verdict).
pub fn setup(job: &NetJob, rt: &Arc<Runtime>) -> Result<Endpoints, String> {
    let mut last = String::new();
    for attempt in 0..6u64 {
        if attempt > 0 {
            std::thread::sleep(std::time::Duration::from_millis(400 * attempt));
        }
        match setup_once(job, rt) {
            Ok(ep) => return Ok(ep),
            Err(e) => last = e,
        }
    }
    Err(format!("{last} (after 6 attempts)"))
}

fn setup_once(job: &NetJob, rt: &Arc<Runtime>) -> Result<Endpoints, String> {
    let router = make_router(job.kind, job.c as usize, job.depth as usize, job.zstd, None);
    let ws_router = router.clone();
    let server = Server::new(router);
    let listener = server.listen("127.0.0.1:0").map_err(|e| format!("bind: {e}"))?;
    let addr = listener.local_addr().map_err(|e| e.to_string())?;
    std::thread::spawn(move || {
        let _ = server.serve(listener);
    });
    let client = Client::connect(addr).map_err(|e| format!("connect: {e}"))?;
    let (aclient, ws) = rt.block_on(async move {
        let aclient = AsyncClient::connect(addr).await.map_err(|e| format!("async connect: {e}"))?;
        let wl = WebSocketServer::listen("127.0.0.1:0").await.map_err(|e| format!("ws bind: {e}"))?;
        let waddr = wl.local_addr().map_err(|e| e.to_string())?;
        tokio::spawn(async move {
            let _ = WebSocketServer::new(ws_router).serve_listener(wl, "/repe").await;
        });
        let ws = WebSocketClient::connect(&format!("ws://{waddr}/repe")).await.map_err(|e| format!("ws connect: {e}"))?;
        Ok::<_, String>((aclient, ws))
    })?;
    Ok(Endpoints { client, aclient, ws })
}

#[derive(Default)]
pub struct NetOut {
    pub viols: Vec<(String, String)>,
    pub exchanges: u64,
    pub ok_pulls: u64,
    pub err_pulls: u64,
}

fn judge<T: PartialEq + Debug>(
    res: Result<T, RepeError>,
    expected: &T,
    fail: bool,
    tname: &str,
    what: &str,
    out: &mut NetOut,
) {
    match (res, fail) {
        (Ok(v), false) if v == *expected => out.ok_pulls += 1,
        (Ok(v), false) => {
            let mut got = format!("{v:?}");
            got.truncate(160);
            out.viols.push((format!("C09:net:content-mismatch:{tname}"), format!("{what}: pulled content differs from the producer's: got {got}")));
        }
        (Err(e), false) => {
            out.viols.push((format!("C09:net:spurious-error:{tname}"), format!("{what}: healthy producer but the pull failed: {e}")));
        }
        (Ok(_), true) => {
            out.viols.push((format!("C09:net:failure-not-error:{tname}"), format!("{what}: the producer failed but the pull returned Ok")));
        }
        (Err(_), true) => out.err_pulls += 1,
    }
}

pub fn consume_reads(reader: &mut dyn Read, c: usize) -> Result<Vec<u8>, RepeError> {
    let sizes = [1usize, c + 1, c.saturating_sub(1).max(1), 65536];
    let mut buf = vec![0u8; 65536];
    let mut out = Vec::new();
    let mut i = 0usize;
    loop {
        let k = reader.read(&mut buf[..sizes[i % 4].min(65536)])?;
        if k == 0 {
            break;
        }
        out.extend_from_slice(&buf[..k]);
        i += 1;
    }
    Ok(out)
}

/// open/next exchanges over the blocking client, with the seam's oracle
fn raw_pull(client: &Client, resource: &str, job: &NetJob, expected: &[u8], full_len: usize, fail: bool, what: &str, out: &mut NetOut) {
    let jp = QueryFormat::JsonPointer as u16;
    let bv = BodyFormat::Beve as u16;
    let key = |k: &str| format!("C09:net:{k}:tcp");
    let body = beve::to_vec(&OpenReq { resource }).unwrap();
    out.exchanges += 1;
    let open: OpenResp = match client.call_with_formats("/_svs/open", jp, Some(&body), bv).and_then(|m| m.beve_body()) {
        Ok(o) => o,
        Err(e) => {
            out.viols.push((key("spurious-error"), format!("{what}: open failed: {e}")));
            return;
        }
    };
    let nb = beve::to_vec(&NextReq { stream_id: open.stream_id }).unwrap();
    let mut wire = Vec::new();
    let mut lasts = 0;
    let mut errored = None;
    let bound = full_len + full_len / 64 + 600;
    let mut calls = 0;
    while calls < bound {
        calls += 1;
        out.exchanges += 1;
        match client.call_with_formats("/_svs/next", jp, Some(&nb), bv) {
            Ok(m) => {
                wire.extend_from_slice(&m.body);
                if m.query.first().copied() == Some(1) {
                    lasts += 1;
                    break;
                }
            }
            Err(e) => {
                errored = Some(e.to_string());
                break;
            }
        }
    }
    if fail {
        if lasts > 0 {
            out.viols.push((key("failure-as-end-marker"), format!("{what}: producer failed but a chunk carried the end marker")));
        } else if errored.is_none() {
            out.viols.push((key("failure-never-surfaced"), format!("{what}: no error after {calls} next calls")));
        } else {
            out.err_pulls += 1;
        }
    } else if let Some(e) = errored {
        out.viols.push((key("spurious-error"), format!("{what}: next #{calls} failed: {e}")));
    } else if lasts == 0 {
        out.viols.push((key("no-end-marker"), format!("{what}: {calls} next calls without an end marker")));
    } else {
        let got = if job.zstd { zstd::stream::decode_all(&wire[..]).map_err(|e| e.to_string()) } else { Ok(wire) };
        match got {
            Ok(g) if g == expected => out.ok_pulls += 1,
            Ok(g) => out.viols.push((key("content-mismatch"), format!("{what}: pulled {} bytes != producer's {}", g.len(), expected.len()))),
            Err(e) => out.viols.push((key("content-mismatch"), format!("{what}: pulled bytes do not decompress: {e}"))),
        }
    }
    // past the end / after release
    out.exchanges += 1;
    if let Ok(m) = client.call_with_formats("/_svs/next", jp, Some(&nb), bv) {
        out.viols.push((key("past-end-not-error"), format!("{what}: next on a released stream answered a {}-byte chunk", m.body.len())));
    }
}

pub fn run_sub(job: &NetJob, sub: &NetSub, ep: &Endpoints, rt: &Arc<Runtime>) -> NetOut {
    let mut out = NetOut::default();
    let c = job.c as usize;
    let m = sub.m as usize;
    let resource = resource_of(m, sub.pat, sub.fail_at.map(|f| f as usize), false);
    let fail = sub.fail_at.is_some();
    let full = logical(job.kind, m);
    let expected_bytes: Vec<u8> = match sub.fail_at {
        Some(f) => full[..(f as usize).min(full.len())].to_vec(),
        None => full.clone(),
    };
    let t = sub.transport.name();
    let what = format!(
        "{} over {t}, kind={:?} c={c} depth={} zstd={} m={m} pat={:?} fail_at={:?}",
        sub.puller.name(), job.kind, job.depth, job.zstd, sub.pat, sub.fail_at
    );
    out.exchanges += 1;
    let r = std::panic::catch_unwind(std::panic::AssertUnwindSafe(|| match (sub.transport, sub.puller) {
        (Transport::Tcp, Puller::Raw) => raw_pull(&ep.client, &resource, job, &expected_bytes, full.len(), fail, &what, &mut out),
        (Transport::Tcp, Puller::ToVec) => judge(repe::pull_to_vec(&ep.client, &resource), &expected_bytes, fail, t, &what, &mut out),
        (Transport::Tcp, Puller::Consume) => judge(
            repe::pull_consume(&ep.client, &resource, |r| consume_reads(r, c)),
            &expected_bytes, fail, t, &what, &mut out,
        ),
        (Transport::Tcp, Puller::Value) => judge(repe::pull_value::<Val>(&ep.client, &resource), &val_for(m), fail, t, &what, &mut out),
        (Transport::Tcp, Puller::Typed) => judge(repe::pull_typed_slice::<u8>(&ep.client, &resource), &typed_for(m), fail, t, &what, &mut out),
        (Transport::Tcp, Puller::Complex) => {
            judge(repe::pull_complex_slice::<i8>(&ep.client, &resource), &complex_for(m), fail, t, &what, &mut out)
        }
        (Transport::AsyncTcp, p) => async_pull(&ep.aclient, p, &resource, c, m, &expected_bytes, fail, t, &what, rt, &mut out),
        (Transport::Ws, p) => async_pull(&ep.ws, p, &resource, c, m, &expected_bytes, fail, t, &what, rt, &mut out),
    }));
    if r.is_err() {
        out.viols.push((format!("C09:net:panic:{t}"), format!("{what}: the puller panicked")));
    }
    out
}

#[allow(clippy::too_many_arguments)]
fn async_pull<C: repe::AsyncSvsClient>(
    cl: &C,
    p: Puller,
    resource: &str,
    c: usize,
    m: usize,
    expected_bytes: &Vec<u8>,
    fail: bool,
    t: &str,
    what: &str,
    rt: &Arc<Runtime>,
    out: &mut NetOut,
) {
    match p {
        Puller::ToVec => judge(rt.block_on(repe::pull_to_vec_async(cl, resource)), expected_bytes, fail, t, what, out),
        Puller::Consume => judge(
            rt.block_on(repe::pull_consume_async(cl, resource, move |mut r: Box<dyn Read>| consume_reads(&mut *r, c))),
            expected_bytes, fail, t, what, out,
        ),
        Puller::Value => judge(rt.block_on(repe::pull_value_async::<Val, _>(cl, resource)), &val_for(m), fail, t, what, out),
        Puller::Typed => judge(rt.block_on(repe::pull_typed_slice_async::<u8, _>(cl, resource)), &typed_for(m), fail, t, what, out),
        Puller::Complex => {
            let exp: Vec<Complex<i8>> = complex_for(m);
            judge(rt.block_on(repe::pull_complex_slice_async::<i8, _>(cl, resource)), &exp, fail, t, what, out)
        }
        Puller::Raw => {}
    }
}
