//! C04 (mc part) — multiplexed calls each receive their own response, for the
//! two tokio clients over in-memory streams: every permutation of the reply
//! order for up to N concurrent calls x every insertion position of one extra
//! frame (unknown id, duplicate, notify reusing an in-flight id) x delivery
//! mode, batch alignment, and replies delivered while the request's own write
//! is still blocked. The blocking client is decided under loom (lm part).

use crate::clients::{self, Cli, Conn, Kind, Peer, Res};
use crate::ctx::{Ctx, Samples, Tier};
use crate::memstream;
use crate::par;
use serde_json::{Value, json};
use std::collections::BTreeMap;

#[derive(Clone, Copy, Debug, PartialEq, Eq)]
enum Extra {
    None,
    Unknown,
    Dup(usize),
    NotifyReuse(usize),
    /// the reply to call j carries protocol version 2: call j reports an error built from ITS OWN reply; the others are unaffected
    BadVersion(usize),
    /// a WebSocket Ping from the server before the reply at `pos` (WebSocketClient; ignored by the correlation)
    Ping,
    /// a frame with an id no call uses that is itself an ERROR response with this code (dropped like any unknown id)
    UnknownErr(u32),
}

#[derive(Clone, Debug)]
enum Scenario {
    Perm { kind: Kind, n: usize, perm: Vec<usize>, extra: Extra, pos: usize, burst: bool },
    Batch { kind: Kind, n: usize, perm: Vec<usize> },
    /// `batch_json_with_timeout`: the requests whose bit is set in `silent` are never answered (they run into
    /// the per-request timeout while the connection stays healthy), the others are answered in `perm` order
    /// before the timeout passes; every position reports its OWN outcome
    BatchTimeout { kind: Kind, n: usize, silent: u32, reversed: bool },
    /// the client's own notifies mixed with its calls (pattern bit i set: a notify is issued before call i):
    /// every frame the client writes, notify or request, carries its own id; the peer then "answers" every
    /// notify (a response frame bearing the notify's id) before / after the real replies: each call still
    /// returns the response to its own request
    MixNotify { kind: Kind, n: usize, pattern: u32, acks_first: bool },
    /// the blocking Client over real loopback TCP: n caller threads, scripted peer
    PermBlocking { n: usize, perm: Vec<usize>, extra: Extra, pos: usize },
    BatchBlocking { n: usize, perm: Vec<usize> },
    /// reply delivered after only `header + k` bytes of the (large) request were accepted
    Early { k: usize, queued_behind: bool },
    /// AsyncClient::forward_message with a caller-supplied id equal to the id of one of n calls in flight
    ForwardDuplicate { n: usize, victim: usize },
    /// a batch longer than any internal worker pool (the blocking client caps its workers at 64): the peer answers
    /// in waves (everything received so far, in the given order) until all n are answered
    BigBatch { kind: Option<Kind>, n: usize, order: WaveOrder },
    /// A caller preempted INSIDE its own call: request A parks while its body is being serialized (after the
    /// client has handed it a request id, before anything is registered or written); meanwhile call B is issued
    /// and answered / left pending / timed out; then A continues (or, WebSocketClient with an assumed peer frame
    /// limit, is refused locally as too large), call C is issued, and the pending calls are answered in `order`.
    Gated { kind: Kind, a_notify: bool, refused: bool, b: BMode, order: Vec<usize> },
    /// WebSocketClient: a pushed notify reusing the id of in-flight call `j`, in every state of the notification
    /// subscription (it goes to the subscriber if there is a live one, is dropped otherwise, and never completes a call)
    WsSub { n: usize, perm: Vec<usize>, j: usize, pos: usize, sub: Sub },
    /// WebSocketClient: the reply is delivered while the (20 KB) request's own WebSocket frame is still being
    /// written (the peer has accepted `k` bytes and reads the request id out of the partial, masked frame)
    EarlyWs { k: usize, queued_behind: bool },
}

#[derive(Clone, Copy, Debug, PartialEq)]
enum Sub {
    /// `unsubscribe_notifies` was called
    Unsubscribed,
    /// the receiver was dropped without unsubscribing (stale slot)
    ReceiverDropped,
    /// unsubscribed, then subscribed again
    Resubscribed,
    /// receiver dropped, then subscribed again (silently replaces the stale slot)
    ResubscribedOverStale,
}

#[derive(Clone, Copy, Debug, PartialEq)]
enum BMode {
    Answered,
    Pending,
    TimedOut,
}

#[derive(Clone, Copy, Debug, PartialEq)]
enum WaveOrder {
    InOrder,
    Reverse,
    Rotate,
}

fn wave(order: WaveOrder, mut v: Vec<u64>) -> Vec<u64> {
    match order {
        WaveOrder::InOrder => {}
        WaveOrder::Reverse => v.reverse(),
        WaveOrder::Rotate => {
            if !v.is_empty() {
                let k = v.len() / 2;
                v.rotate_left(k);
            }
        }
    }
    v
}

fn permutations(n: usize) -> Vec<Vec<usize>> {
    fn rec(cur: &mut Vec<usize>, used: &mut Vec<bool>, n: usize, out: &mut Vec<Vec<usize>>) {
        if cur.len() == n {
            out.push(cur.clone());
            return;
        }
        for i in 0..n {
            if !used[i] {
                used[i] = true;
                cur.push(i);
                rec(cur, used, n, out);
                cur.pop();
                used[i] = false;
            }
        }
    }
    let mut out = Vec::new();
    rec(&mut Vec::new(), &mut vec![false; n], n, &mut out);
    out
}

fn scenarios(tier: Tier) -> Vec<Scenario> {
    let mut v = Vec::new();
    let max_n = tier.pick(5, 7);
    for kind in [Kind::Async, Kind::Ws] {
        for n in 1..=max_n {
            for perm in permutations(n) {
                let mut extras = vec![Extra::None, Extra::Unknown];
                for j in 0..n {
                    extras.push(Extra::Dup(j));
                    extras.push(Extra::NotifyReuse(j));
                }
                for extra in extras {
                    let positions = if extra == Extra::None { 0..1 } else { 0..n + 1 };
                    for pos in positions {
                        for burst in [false, true] {
                            // bursts only for n <= 5 to keep thorough bounded
                            if burst && n > 6 {
                                continue;
                            }
                            v.push(Scenario::Perm { kind, n, perm: perm.clone(), extra, pos, burst });
                        }
                    }
                }
            }
        }
        for n in 1..=tier.pick(5, 6) {
            for perm in permutations(n) {
                v.push(Scenario::Batch { kind, n, perm });
            }
        }
    }
    // appended below (after every earlier scenario): batches in which some requests time out
    let mut batch_timeouts = Vec::new();
    for kind in [Kind::Async, Kind::Ws] {
        for n in 2..=tier.pick(4, 6) {
            for silent in 1..(1u32 << n) - 1 {
                for reversed in [false, true] {
                    batch_timeouts.push(Scenario::BatchTimeout { kind, n, silent, reversed });
                }
            }
        }
    }
    for kind in [Kind::Async, Kind::Ws] {
        for n in 1..=tier.pick(3, 5) {
            for pattern in 1..(1u32 << n) {
                for acks_first in [false, true] {
                    batch_timeouts.push(Scenario::MixNotify { kind, n, pattern, acks_first });
                }
            }
        }
    }
    for n in 1..=tier.pick(4, 5) {
        for perm in permutations(n) {
            let mut extras = vec![Extra::None, Extra::Unknown];
            for j in 0..n {
                extras.push(Extra::Dup(j));
                extras.push(Extra::NotifyReuse(j));
            }
            for extra in extras {
                let positions = if extra == Extra::None { 0..1 } else { 0..n + 1 };
                for pos in positions {
                    v.push(Scenario::PermBlocking { n, perm: perm.clone(), extra, pos });
                }
            }
            v.push(Scenario::BatchBlocking { n, perm });
        }
    }
    for k in [0usize, 1, 2, 3, 10, 100, 8192 - 48, 8192 - 47, 19000] {
        for queued_behind in [false, true] {
            v.push(Scenario::Early { k, queued_behind });
        }
    }
    for n in 1..=3 {
        for victim in 0..n {
            v.push(Scenario::ForwardDuplicate { n, victim });
        }
    }
    let cores = std::thread::available_parallelism().map(|n| n.get()).unwrap_or(4);
    let mut sizes = vec![63usize, 64, 65, 66, 129, 4 * cores + 1];
    if tier == Tier::Thorough {
        sizes.extend([127, 128, 130, 200, 8 * cores + 1]);
    }
    sizes.sort();
    sizes.dedup();
    for n in sizes {
        for order in [WaveOrder::InOrder, WaveOrder::Reverse, WaveOrder::Rotate] {
            v.push(Scenario::BigBatch { kind: None, n, order });
            if n <= 130 {
                v.push(Scenario::BigBatch { kind: Some(Kind::Async), n, order });
                v.push(Scenario::BigBatch { kind: Some(Kind::Ws), n, order });
            }
        }
    }
    for k in [32usize, 33, 56, 100, 4096, 8192, 19_000] {
        for queued_behind in [false, true] {
            v.push(Scenario::EarlyWs { k, queued_behind });
        }
    }
    for kind in [Kind::Async, Kind::Ws] {
        for n in 1..=3usize {
            for perm in permutations(n) {
                for j in 0..n {
                    v.push(Scenario::Perm { kind, n, perm: perm.clone(), extra: Extra::BadVersion(j), pos: 0, burst: false });
                    v.push(Scenario::Perm { kind, n, perm: perm.clone(), extra: Extra::BadVersion(j), pos: 0, burst: true });
                }
                if kind == Kind::Ws {
                    for pos in 0..=n {
                        v.push(Scenario::Perm { kind, n, perm: perm.clone(), extra: Extra::Ping, pos, burst: false });
                    }
                }
            }
        }
    }
    // stray frames (unknown id) that are themselves error responses, every error-code class
    for ec in [1u32, 2, 3, 4, 5, 6, 7, 8, 9, 10, 4096, u32::MAX] {
        for n in 1..=2usize {
            for perm in permutations(n) {
                for pos in 0..=n {
                    for kind in [Kind::Async, Kind::Ws] {
                        v.push(Scenario::Perm { kind, n, perm: perm.clone(), extra: Extra::UnknownErr(ec), pos, burst: false });
                    }
                    v.push(Scenario::PermBlocking { n, perm: perm.clone(), extra: Extra::UnknownErr(ec), pos });
                }
            }
        }
    }
    for n in 1..=3usize {
        for perm in permutations(n) {
            for j in 0..n {
                for pos in 0..=n {
                    for sub in [Sub::Unsubscribed, Sub::ReceiverDropped, Sub::Resubscribed, Sub::ResubscribedOverStale] {
                        v.push(Scenario::WsSub { n, perm: perm.clone(), j, pos, sub });
                    }
                }
            }
        }
    }
    for kind in [Kind::Async, Kind::Ws] {
        for a_notify in [false, true] {
            for refused in [false, true] {
                if refused && kind == Kind::Async {
                    continue; // AsyncClient has no outbound size guard
                }
                for b in [BMode::Answered, BMode::Pending, BMode::TimedOut] {
                    // calls still awaiting a reply after C was issued: A (unless notify / refused), B (if pending), C
                    let pending = (!a_notify && !refused) as usize + (b == BMode::Pending) as usize + 1;
                    for order in permutations(pending) {
                        v.push(Scenario::Gated { kind, a_notify, refused, b, order });
                    }
                }
            }
        }
    }
    v.extend(batch_timeouts);
    v
}

type Bad = Vec<(String, String)>;

async fn run_perm(kind: Kind, n: usize, perm: &[usize], extra: Extra, pos: usize, burst: bool) -> (Bad, u64) {
    run_perm_sub(kind, n, perm, extra, pos, burst, None).await
}

async fn run_perm_sub(kind: Kind, n: usize, perm: &[usize], extra: Extra, pos: usize, burst: bool, sub: Option<Sub>) -> (Bad, u64) {
    let mut bad = Bad::new();
    let mut flags = 0u64;
    let Conn { cli, mut peer, mut notifies } = clients::connect(kind).await;
    if let (Some(sub), Cli::Ws(c)) = (sub, &cli) {
        match sub {
            Sub::Unsubscribed => {
                c.unsubscribe_notifies();
                notifies = None;
            }
            Sub::ReceiverDropped => {
                notifies = None;
            }
            Sub::Resubscribed | Sub::ResubscribedOverStale => {
                if sub == Sub::Resubscribed {
                    c.unsubscribe_notifies();
                }
                notifies = None; // (drops the first receiver)
                match c.subscribe_notifies() {
                    Ok(rx) => notifies = Some(rx),
                    Err(_) => return (vec![("C04:harness".into(), format!("subscribe_notifies refused after {sub:?}"))], 0),
                }
            }
        }
        flags |= 2048;
    }
    let tags: Vec<u64> = (0..n as u64).map(|i| 100 + i).collect();
    let calls: Vec<_> = tags.iter().map(|t| tokio::spawn(cli.call(*t, None, 0))).collect();
    let reqs = match peer.drain_requests().await {
        Ok(r) => r,
        Err(e) => {
            bad.push(("C04:request-stream-malformed".into(), e));
            return (bad, flags);
        }
    };
    let ids = clients::tag_ids(&reqs);
    if ids.len() != n || reqs.len() != n {
        bad.push(("C04:requests-missing".into(), format!("{} of {n} requests arrived (distinct tags {})", reqs.len(), ids.len())));
        return (bad, flags);
    }
    let mut distinct: Vec<u64> = ids.values().copied().collect();
    distinct.sort();
    distinct.dedup();
    if distinct.len() != n {
        bad.push(("C04:duplicate-request-id".into(), format!("request ids are not distinct: {:?}", ids)));
    }
    // reply script
    let mut script: Vec<crate::frames::Frame> = perm.iter().map(|i| clients::reply(ids[&tags[*i]])).collect();
    let mut expected_notifies = 0;
    let mut consumed_by_notify: Option<u64> = None;
    match extra {
        Extra::None => {}
        Extra::Unknown => script.insert(pos, clients::reply(0xDEAD_BEEF)),
        Extra::Dup(j) => script.insert(pos, clients::reply(ids[&tags[j]])),
        Extra::NotifyReuse(j) => {
            script.insert(pos, clients::notify_frame(ids[&tags[j]], 7));
            expected_notifies = 1;
            // AsyncClient has no notion of server-pushed notifies: if the frame arrives
            // before call j's real reply, call j may consume it (allowed); nothing else may.
            let real_pos = perm.iter().position(|x| *x == j).unwrap();
            if kind == Kind::Async && pos <= real_pos {
                consumed_by_notify = Some(tags[j]);
            }
        }
        Extra::BadVersion(j) => {
            for f in script.iter_mut().filter(|f| f.h.id == ids[&tags[j]]) {
                f.h.version = 2;
            }
            flags |= 8192;
        }
        Extra::Ping => flags |= 8192,
        Extra::UnknownErr(ec) => {
            let mut f = clients::reply(0xDEAD_BEEF);
            f.h.ec = ec;
            f.h.body_format = crate::frames::FMT_UTF8;
            f.body = b"stray error frame".to_vec();
            f.h.body_length = f.body.len() as u64;
            f.h.length = 48 + f.h.query_length + f.h.body_length;
            script.insert(pos.min(script.len()), f);
            flags |= 8192;
        }
    }
    if perm.windows(2).any(|w| w[0] > w[1]) {
        flags |= 1; // non-identity order
    }
    for (si, f) in script.iter().enumerate() {
        if extra == Extra::Ping && si == pos {
            if let Peer::Ws { ws, .. } = &mut peer {
                use futures_util::SinkExt;
                let _ = ws.send(tokio_tungstenite::tungstenite::Message::Ping(vec![1, 2, 3])).await;
            }
        }
        peer.send(f).await;
        if !burst {
            memstream::settle().await;
        }
    }
    if extra == Extra::Ping && pos >= script.len() {
        if let Peer::Ws { ws, .. } = &mut peer {
            use futures_util::SinkExt;
            let _ = ws.send(tokio_tungstenite::tungstenite::Message::Ping(vec![1, 2, 3])).await;
        }
    }
    memstream::settle().await;
    for (i, h) in calls.into_iter().enumerate() {
        let r = clients::join_call(h).await;
        let own = ids[&tags[i]];
        match (&r, consumed_by_notify) {
            (Res::Err(_), _) if extra == Extra::BadVersion(i) => {}
            (Res::Id(got), _) if *got == own && extra != Extra::BadVersion(i) => {}
            (Res::OkOther(_), Some(t)) if t == tags[i] => flags |= 2,
            _ => bad.push((
                format!("C04:wrong-response:{}", match r { Res::Hang => "hang", Res::Id(_) => "other-calls-response", _ => "error" }),
                format!("{}: call #{i} (request id {own}) returned {r:?}; n={n} reply order {perm:?} extra {extra:?}@{pos} burst={burst}{}", kind.name(), sub.map(|s| format!(" subscription {s:?}")).unwrap_or_default()),
            )),
        }
    }
    if let (Kind::Ws, Some(rx)) = (kind, notifies.as_mut()) {
        let mut got = 0;
        while let Ok(m) = rx.try_recv() {
            got += 1;
            if m.header.notify == 0 {
                bad.push(("C04:subscriber-got-response".into(), format!("the notification subscriber received a non-notify frame (id {})", m.header.id)));
            }
        }
        if got != expected_notifies {
            bad.push(("C04:notify-misrouted".into(), format!("WebSocketClient: subscriber received {got} notifications, {expected_notifies} were pushed; extra {extra:?}@{pos}, reply order {perm:?}, subscription {sub:?}")));
        }
        if expected_notifies > 0 {
            flags |= 4;
        }
    }
    if cli.pending() != 0 {
        bad.push(("C04:pending-residue".into(), format!("{} pending entries after all calls returned", cli.pending())));
    }
    drop(peer);
    (bad, flags)
}

async fn run_mix_notify(kind: Kind, n: usize, pattern: u32, acks_first: bool) -> (Bad, u64) {
    let mut bad = Bad::new();
    let ctx = format!("{} {n} calls, a notify issued before call i for i in {:?}, the peer answering the notifies {}", kind.name(), (0..n).filter(|i| pattern & (1 << i) != 0).collect::<Vec<_>>(), if acks_first { "before the real replies" } else { "after the real replies" });
    let Conn { cli, mut peer, .. } = clients::connect(kind).await;
    let mut hs = Vec::new();
    for i in 0..n {
        if pattern & (1 << i) != 0 {
            let _ = cli.notify(900 + i as u64, 0).await;
        }
        hs.push(tokio::spawn(cli.call(800 + i as u64, None, 0)));
        memstream::settle().await;
    }
    let reqs = match peer.drain_requests().await {
        Ok(r) => r,
        Err(e) => return (vec![("C04:request-stream-malformed".into(), e)], 0),
    };
    let mut seen = std::collections::BTreeMap::new();
    for f in &reqs {
        if let Some(prev) = seen.insert(f.h.id, f.h.notify) {
            bad.push(("C04:duplicate-request-id".into(), format!("{ctx}: id {} was used by two frames of this connection (notify flags {prev} and {})", f.h.id, f.h.notify)));
        }
    }
    let ids = clients::tag_ids(&reqs);
    let notify_ids: Vec<u64> = reqs.iter().filter(|f| f.h.notify != 0).map(|f| f.h.id).collect();
    let acks = |peer: &mut clients::Peer| {
        let v: Vec<crate::frames::Frame> = notify_ids
            .iter()
            .map(|id| {
                let mut f = clients::reply(*id);
                f.body = br#"{"ack_of_notify":true}"#.to_vec();
                f.h.body_length = f.body.len() as u64;
                f.h.length = 48 + f.h.query_length + f.h.body_length;
                f
            })
            .collect();
        let _ = peer;
        v
    };
    let ack_frames = acks(&mut peer);
    if acks_first {
        for f in &ack_frames {
            peer.send(f).await;
        }
        memstream::settle().await;
    }
    for i in 0..n {
        if let Some(id) = ids.get(&(800 + i as u64)) {
            peer.send(&clients::reply(*id)).await;
        }
    }
    memstream::settle().await;
    if !acks_first {
        for f in &ack_frames {
            peer.send(f).await;
        }
        memstream::settle().await;
    }
    for (i, h) in hs.into_iter().enumerate() {
        let r = clients::join_call(h).await;
        let want = ids.get(&(800 + i as u64)).copied();
        if want.map(Res::Id) != Some(r.clone()) {
            bad.push((format!("C04:wrong-response:{}", match &r { Res::Hang => "hang", Res::Err(_) | Res::Timeout => "error", _ => "other-call" }), format!("{ctx}: call #{i} (request id {want:?}) returned {r:?}")));
        }
    }
    (bad, 8)
}

async fn run_batch_timeout(kind: Kind, n: usize, silent: u32, reversed: bool) -> (Bad, u64) {
    let mut bad = Bad::new();
    let ctx = format!("{} batch_json_with_timeout of {n}, positions {:?} never answered, the others answered {}", kind.name(), (0..n).filter(|i| silent & (1 << i) != 0).collect::<Vec<_>>(), if reversed { "last first" } else { "in order" });
    let Conn { cli, mut peer, .. } = clients::connect(kind).await;
    let tags: Vec<u64> = (0..n as u64).map(|i| 700 + i).collect();
    let h = tokio::spawn(cli.batch_with_timeout(tags.clone(), std::time::Duration::from_secs(5)));
    let reqs = match peer.drain_requests().await {
        Ok(r) => r,
        Err(e) => return (vec![("C04:request-stream-malformed".into(), e)], 0),
    };
    let ids = clients::tag_ids(&reqs);
    if ids.len() != n {
        return (vec![("C04:requests-missing".into(), format!("{ctx}: {} requests arrived", reqs.len()))], 0);
    }
    let mut order: Vec<usize> = (0..n).filter(|i| silent & (1 << i) == 0).collect();
    if reversed {
        order.reverse();
    }
    for i in order {
        peer.send(&clients::reply(ids[&tags[i]])).await;
        memstream::settle().await;
    }
    tokio::time::advance(std::time::Duration::from_secs(6)).await;
    memstream::settle().await;
    match tokio::time::timeout(clients::HOUR, h).await {
        Ok(Ok(results)) => {
            if results.len() != n {
                bad.push(("C04:batch-length".into(), format!("{ctx}: {} results", results.len())));
            }
            for (i, r) in results.into_iter().enumerate() {
                let r = clients::classify(r);
                if silent & (1 << i) != 0 {
                    if matches!(r, Res::Id(_)) {
                        bad.push(("C04:batch-misaligned".into(), format!("{ctx}: result #{i} is {r:?} although that request was never answered")));
                    }
                } else if r != Res::Id(ids[&tags[i]]) {
                    bad.push(("C04:batch-misaligned".into(), format!("{ctx}: result #{i} is {r:?}; the request at that position (id {}) was answered in time", ids[&tags[i]])));
                }
            }
        }
        _ => bad.push(("C04:wrong-response:hang".into(), format!("{ctx}: the batch did not return"))),
    }
    // the connection is healthy: one more call is served
    let h = tokio::spawn(cli.call(799, None, 0));
    if let Ok(reqs) = peer.drain_requests().await {
        if let Some(id) = clients::tag_ids(&reqs).get(&799) {
            peer.send(&clients::reply(*id)).await;
            let r = clients::join_call(h).await;
            if r != Res::Id(*id) {
                bad.push(("C04:wrong-response:after-batch-timeouts".into(), format!("{ctx}: a call issued afterwards returned {r:?}")));
            }
        }
    }
    (bad, 8)
}

async fn run_batch(kind: Kind, n: usize, perm: &[usize]) -> (Bad, u64) {
    let mut bad = Bad::new();
    let Conn { cli, mut peer, .. } = clients::connect(kind).await;
    let tags: Vec<u64> = (0..n as u64).map(|i| 500 + i).collect();
    let h = tokio::spawn(cli.batch(tags.clone()));
    let reqs = match peer.drain_requests().await {
        Ok(r) => r,
        Err(e) => return (vec![("C04:request-stream-malformed".into(), e)], 0),
    };
    let ids = clients::tag_ids(&reqs);
    if ids.len() != n {
        return (vec![("C04:requests-missing".into(), format!("batch of {n}: {} requests arrived", reqs.len()))], 0);
    }
    for i in perm {
        peer.send(&clients::reply(ids[&tags[*i]])).await;
        memstream::settle().await;
    }
    match tokio::time::timeout(clients::HOUR, h).await {
        Ok(Ok(results)) => {
            if results.len() != n {
                bad.push(("C04:batch-length".into(), format!("batch of {n} returned {} results", results.len())));
            }
            for (i, r) in results.into_iter().enumerate() {
                let r = clients::classify(r);
                if r != Res::Id(ids[&tags[i]]) {
                    bad.push(("C04:batch-misaligned".into(), format!("{}: batch result #{i} is {r:?}, the request at that position had id {}; reply order {perm:?}", kind.name(), ids[&tags[i]])));
                }
            }
        }
        _ => bad.push(("C04:wrong-response:hang".into(), format!("{}: batch of {n} did not return; reply order {perm:?}", kind.name()))),
    }
    (bad, 8)
}

/// AsyncClient only: the peer learns the id from the first 48 bytes and replies
/// while the rest of the (20 000-byte) request is still blocked in the writer.
async fn run_early(k: usize, queued_behind: bool) -> (Bad, u64) {
    let mut bad = Bad::new();
    let (client_end, peer_end, ctl) = memstream::pair();
    ctl.a_to_b.set_credit(Some(48 + k));
    let s = 60_000 + (k % 1000) as u16 + if queued_behind { 1000 } else { 0 };
    repe::verif_io::register_stream(s, client_end);
    let c = repe::AsyncClient::connect(("127.254.77.1", s)).await.expect("connect");
    let cli = Cli::Async(c);
    let big = tokio::spawn(cli.call(1, None, 20_000));
    memstream::settle().await;
    let second = if queued_behind { Some(tokio::spawn(cli.call(2, None, 0))) } else { None };
    memstream::settle().await;
    let first = ctl.a_to_b.take();
    let mut flags = 0;
    if first.len() < 48 {
        return (vec![("C04:early:header-not-written".into(), format!("only {} bytes reached the peer with credit {}", first.len(), 48 + k))], 0);
    }
    if big.is_finished() {
        return (vec![("C04:early:no-stall".into(), "the large call finished before any reply".into())], 0);
    }
    if ctl.a_to_b.stalls() > 0 {
        flags |= 16; // the reply really overtakes the blocked write
    }
    let hdr = crate::frames::Hdr::decode_raw(&first).unwrap();
    ctl.b_to_a.push(&clients::reply(hdr.id).to_bytes());
    memstream::settle().await;
    ctl.a_to_b.set_credit(None);
    memstream::settle().await;
    let r = clients::join_call(big).await;
    if r != Res::Id(hdr.id) {
        bad.push((
            format!("C04:early-reply-lost:{}", if r == Res::Hang { "hang" } else { "other" }),
            format!("AsyncClient: the reply to request {} arrived while its write was still blocked after {} bytes; the call returned {r:?}", hdr.id, 48 + k),
        ));
    }
    if let Some(h2) = second {
        // the queued call's request follows the large frame; answer it
        let mut rest = first[..].to_vec();
        rest.extend(ctl.a_to_b.take());
        match crate::frames::split_stream(&rest) {
            Ok((frames_seen, 0)) if frames_seen.len() == 2 => {
                ctl.b_to_a.push(&clients::reply(frames_seen[1].h.id).to_bytes());
                let r2 = clients::join_call(h2).await;
                if r2 != Res::Id(frames_seen[1].h.id) {
                    bad.push(("C04:wrong-response:queued".into(), format!("the call queued behind the blocked write returned {r2:?}, expected id {}", frames_seen[1].h.id)));
                }
            }
            other => bad.push(("C04:early:stream".into(), format!("bytes after the stall do not form the two expected frames: {:?}", other.map(|(f, r)| (f.len(), r))))),
        }
    }
    drop(peer_end);
    (bad, flags)
}




/// Request id inside the first bytes of a client-to-server (masked) WebSocket binary frame.
fn ws_peek_request_id(raw: &[u8]) -> Option<u64> {
    if raw.len() < 2 || raw[0] & 0x0f != 0x2 || raw[1] & 0x80 == 0 {
        return None;
    }
    let hdr = match raw[1] & 0x7f {
        126 => 4,
        127 => 10,
        _ => 2,
    };
    let mask = raw.get(hdr..hdr + 4)?;
    let payload = raw.get(hdr + 4..hdr + 4 + 24)?;
    let un: Vec<u8> = payload.iter().enumerate().map(|(i, b)| b ^ mask[i % 4]).collect();
    // REPE header: spec magic at 8..10, id at 16..24
    if u16::from_le_bytes([un[8], un[9]]) != crate::frames::SPEC {
        return None;
    }
    Some(u64::from_le_bytes(un[16..24].try_into().ok()?))
}

/// WebSocketClient: the peer answers as soon as it can read the request id, while the request's
/// own frame is still being written.
async fn run_early_ws(k: usize, queued_behind: bool) -> (Bad, u64) {
    let mut bad = Bad::new();
    let Conn { cli, mut peer, .. } = clients::connect(Kind::Ws).await;
    peer.ctl().a_to_b.set_credit(Some(k));
    let big = tokio::spawn(cli.call(1, None, 20_000));
    memstream::settle().await;
    let second = if queued_behind { Some(tokio::spawn(cli.call(2, None, 0))) } else { None };
    memstream::settle().await;
    let mut flags = 4096;
    let raw = peer.ctl().a_to_b.peek();
    let Some(id) = ws_peek_request_id(&raw) else {
        return (vec![("C04:harness".into(), format!("WebSocketClient: cannot read the request id from the first {} bytes of the frame (credit {k})", raw.len()))], 0);
    };
    if big.is_finished() {
        return (vec![("C04:early:no-stall".into(), "WebSocketClient: the large call finished before any reply".into())], 0);
    }
    if peer.ctl().a_to_b.stalls() > 0 {
        flags |= 16;
    }
    // the reply travels in the other direction and is not held up by the stalled request
    peer.send(&clients::reply(id)).await;
    memstream::settle().await;
    peer.ctl().a_to_b.set_credit(None);
    memstream::settle().await;
    let reqs = match peer.drain_requests().await {
        Ok(r) => r,
        Err(e) => return (vec![("C04:request-stream-malformed".into(), format!("WebSocketClient early reply: {e}"))], flags),
    };
    if clients::tag_ids(&reqs).get(&1) != Some(&id) {
        bad.push(("C04:harness".into(), format!("WebSocketClient: id read from the partial frame ({id}) differs from the completed request's ({:?})", clients::tag_ids(&reqs).get(&1))));
    }
    let r = clients::join_call(big).await;
    if r != Res::Id(id) {
        bad.push((
            format!("C04:early-reply-lost:{}", if r == Res::Hang { "hang" } else { "other" }),
            format!("WebSocketClient: the reply to request {id} arrived while its frame was still being written ({k} bytes accepted); the call returned {r:?}"),
        ));
    }
    if let Some(h2) = second {
        match clients::tag_ids(&reqs).get(&2).copied() {
            Some(id2) => {
                peer.send(&clients::reply(id2)).await;
                let r2 = clients::join_call(h2).await;
                if r2 != Res::Id(id2) {
                    bad.push(("C04:wrong-response:queued".into(), format!("WebSocketClient: the call queued behind the blocked write returned {r2:?}, expected id {id2}")));
                }
            }
            None => bad.push(("C04:requests-missing".into(), "WebSocketClient: the call queued behind the blocked write never reached the peer".into())),
        }
    }
    if cli.pending() != 0 {
        bad.push(("C04:pending-residue".into(), format!("WebSocketClient early reply: {} pending entries after all calls returned", cli.pending())));
    }
    (bad, flags)
}

/// Another user of the same connection forwards a prebuilt message whose id equals the id of
/// a call in flight. Whatever happens to the forward, every call must still get the response
/// addressed to its own id.
async fn run_forward_duplicate(n: usize, victim: usize) -> (Bad, u64) {
    let mut bad = Bad::new();
    let Conn { cli, mut peer, .. } = clients::connect(Kind::Async).await;
    let Cli::Async(ac) = cli.clone() else { unreachable!() };
    let tags: Vec<u64> = (0..n as u64).map(|i| 700 + i).collect();
    let calls: Vec<_> = tags.iter().map(|t| tokio::spawn(cli.call(*t, None, 0))).collect();
    let reqs = peer.drain_requests().await.unwrap_or_default();
    let ids = clients::tag_ids(&reqs);
    if ids.len() != n {
        return (vec![("C04:requests-missing".into(), format!("{} of {n} requests arrived", reqs.len()))], 0);
    }
    let dup_id = ids[&tags[victim]];
    let fwd_msg = repe::Message::builder().id(dup_id).query_str("/fwd").body_bytes(b"1".to_vec()).body_format(repe::BodyFormat::Json).build();
    let fwd = tokio::spawn(async move { ac.forward_message(&fwd_msg).await });
    memstream::settle().await;
    let extra = peer.drain_requests().await.unwrap_or_default();
    // the peer answers every request it saw, once each, in arrival order
    for t in &tags {
        peer.send(&clients::reply(ids[t])).await;
        memstream::settle().await;
    }
    for _ in &extra {
        peer.send(&clients::reply(dup_id)).await;
        memstream::settle().await;
    }
    for (i, h) in calls.into_iter().enumerate() {
        let r = clients::join_call(h).await;
        if r != Res::Id(ids[&tags[i]]) {
            bad.push((
                format!("C04:wrong-response:{}", if r == Res::Hang { "hang" } else { "after-duplicate-id" }),
                format!("AsyncClient: {n} calls in flight, forward_message re-used the id of call #{victim}; call #{i} (request id {}) returned {r:?}", ids[&tags[i]]),
            ));
        }
    }
    let _ = tokio::time::timeout(clients::HOUR, fwd).await;
    (bad, 128)
}

// ------------------------------------------------------------------ blocking Client over TCP

fn read_requests(s: &mut std::net::TcpStream, n: usize) -> Result<Vec<crate::frames::Frame>, String> {
    use std::io::Read;
    let mut buf = Vec::new();
    let mut out = Vec::new();
    let mut chunk = [0u8; 4096];
    while out.len() < n {
        loop {
            match crate::frames::parse_one(&buf)? {
                Some((f, k)) => {
                    out.push(f);
                    buf.drain(..k);
                }
                None => break,
            }
        }
        if out.len() >= n {
            break;
        }
        match s.read(&mut chunk) {
            Ok(0) => return Err(format!("peer saw EOF after {} of {n} requests", out.len())),
            Ok(k) => buf.extend_from_slice(&chunk[..k]),
            Err(e) => return Err(format!("peer read: {e} after {} of {n} requests", out.len())),
        }
    }
    Ok(out)
}

fn run_perm_blocking(n: usize, perm: &[usize], extra: Extra, pos: usize, batch: bool) -> (Bad, u64) {
    use std::io::Write;
    let mut bad = Bad::new();
    let ctx = format!("blocking Client n={n} reply order {perm:?} extra {extra:?}@{pos} batch={batch}");
    let listener = std::net::TcpListener::bind("127.0.0.1:0").expect("bind");
    let addr = listener.local_addr().unwrap();
    let client = match repe::Client::connect(addr) {
        Ok(c) => c,
        Err(e) => return (vec![("C04:harness".into(), format!("connect: {e}"))], 0),
    };
    let (mut peer, _) = listener.accept().expect("accept");
    peer.set_read_timeout(Some(std::time::Duration::from_secs(10))).ok();
    let tags: Vec<u64> = (0..n as u64).map(|i| 100 + i).collect();
    let t = std::time::Duration::from_secs(10);
    let callers: Vec<std::thread::JoinHandle<Vec<Res>>> = if batch {
        let c = client.clone();
        let reqs: Vec<(String, Value)> = tags.iter().map(|t| ("/p".to_string(), json!({"t": t}))).collect();
        vec![std::thread::spawn(move || c.batch_json_with_timeout(reqs, t).into_iter().map(clients::classify).collect())]
    } else {
        tags.iter()
            .map(|tag| {
                let c = client.clone();
                let tag = *tag;
                std::thread::spawn(move || vec![clients::classify(c.call_json_with_timeout("/p", &json!({"t": tag}), t))])
            })
            .collect()
    };
    let reqs = match read_requests(&mut peer, n) {
        Ok(r) => r,
        Err(e) => {
            bad.push(("C04:requests-missing".into(), format!("{ctx}: {e}")));
            drop(peer);
            for h in callers {
                let _ = h.join();
            }
            return (bad, 0);
        }
    };
    let ids = clients::tag_ids(&reqs);
    let mut distinct: Vec<u64> = ids.values().copied().collect();
    distinct.sort();
    distinct.dedup();
    if distinct.len() != n {
        bad.push(("C04:duplicate-request-id".into(), format!("{ctx}: request ids are not distinct: {ids:?}")));
    }
    let mut script: Vec<crate::frames::Frame> = perm.iter().filter_map(|i| ids.get(&tags[*i]).map(|id| clients::reply(*id))).collect();
    let mut consumed_by_notify: Option<u64> = None;
    match extra {
        Extra::None => {}
        Extra::Unknown => script.insert(pos.min(script.len()), clients::reply(0xDEAD_BEEF)),
        Extra::BadVersion(_) | Extra::Ping => {}
        Extra::UnknownErr(ec) => {
            let mut f = clients::reply(0xDEAD_BEEF);
            f.h.ec = ec;
            f.h.body_format = crate::frames::FMT_UTF8;
            f.body = b"stray error frame".to_vec();
            f.h.body_length = f.body.len() as u64;
            f.h.length = 48 + f.h.query_length + f.h.body_length;
            script.insert(pos.min(script.len()), f);
        }
        Extra::Dup(j) => script.insert(pos.min(script.len()), clients::reply(ids[&tags[j]])),
        Extra::NotifyReuse(j) => {
            script.insert(pos.min(script.len()), clients::notify_frame(ids[&tags[j]], 7));
            let real_pos = perm.iter().position(|x| *x == j).unwrap();
            if pos <= real_pos {
                consumed_by_notify = Some(tags[j]);
            }
        }
    }
    for f in &script {
        let _ = peer.write_all(&f.to_bytes());
    }
    let mut results: Vec<Res> = Vec::new();
    for h in callers {
        results.extend(h.join().unwrap_or_else(|_| vec![Res::Err("caller panicked".into())]));
    }
    for (i, r) in results.iter().enumerate() {
        let own = ids.get(&tags[i]).copied().unwrap_or(0);
        match (r, consumed_by_notify) {
            (Res::Id(got), _) if *got == own => {}
            (Res::OkOther(_), Some(t)) if t == tags[i] => {}
            _ => bad.push((
                format!("C04:wrong-response:{}", match r { Res::Timeout => "hang", Res::Id(_) => "other-calls-response", _ => "error" }),
                format!("{ctx}: call #{i} (request id {own}) returned {r:?}"),
            )),
        }
    }
    if results.len() != n {
        bad.push(("C04:batch-length".into(), format!("{ctx}: {} results for {n} requests", results.len())));
    }
    (bad, if batch { 64 } else { 32 })
}

/// tokio clients: a batch of n, answered in waves.
async fn run_big_batch(kind: Kind, n: usize, order: WaveOrder) -> (Bad, u64) {
    let mut bad = Bad::new();
    let Conn { cli, mut peer, .. } = clients::connect(kind).await;
    let tags: Vec<u64> = (0..n as u64).map(|i| 9000 + i).collect();
    let h = tokio::spawn(cli.batch(tags.clone()));
    let mut ids = std::collections::BTreeMap::new();
    let mut answered = 0usize;
    for _round in 0..n + 2 {
        let reqs = match peer.drain_requests().await {
            Ok(r) => r,
            Err(e) => return (vec![("C04:request-stream-malformed".into(), e)], 0),
        };
        if reqs.is_empty() {
            break;
        }
        let new = clients::tag_ids(&reqs);
        let todo = wave(order, reqs.iter().map(|f| f.h.id).collect());
        ids.extend(new);
        for id in todo {
            peer.send(&clients::reply(id)).await;
            answered += 1;
        }
        memstream::settle().await;
        if answered >= n {
            break;
        }
    }
    match tokio::time::timeout(clients::HOUR, h).await {
        Ok(Ok(results)) => {
            if results.len() != n {
                bad.push(("C04:batch-length".into(), format!("{}: batch of {n} returned {} results", kind.name(), results.len())));
            }
            for (i, r) in results.into_iter().enumerate() {
                let r = clients::classify(r);
                let own = ids.get(&tags[i]).copied().unwrap_or(0);
                if r != Res::Id(own) {
                    bad.push(("C04:batch-misaligned".into(), format!("{}: batch of {n} answered in {order:?} waves: result #{i} is {r:?}, the request at that position had id {own}", kind.name())));
                    break;
                }
            }
        }
        _ => bad.push(("C04:wrong-response:hang".into(), format!("{}: batch of {n} did not return ({answered} answered)", kind.name()))),
    }
    (bad, 128)
}

/// blocking Client over loopback TCP: a batch of n, answered in waves (a wave ends when
/// nothing more arrives for 60 ms of real time; how the requests split into waves does not
/// matter to the oracle, only that every request is answered once).
/// Real sockets and real time: a finding must reproduce in a second execution of the same scenario.
fn run_big_batch_blocking(n: usize, order: WaveOrder) -> (Bad, u64) {
    let (bad, flags) = big_batch_blocking_once(n, order);
    if bad.is_empty() {
        return (bad, flags);
    }
    let (again, _) = big_batch_blocking_once(n, order);
    (bad.into_iter().filter(|(k, _)| again.iter().any(|(k2, _)| k2 == k)).collect(), flags)
}

fn big_batch_blocking_once(n: usize, order: WaveOrder) -> (Bad, u64) {
    use std::io::{Read, Write};
    let mut bad = Bad::new();
    let ctx = format!("blocking Client batch of {n} answered in {order:?} waves");
    let listener = std::net::TcpListener::bind("127.0.0.1:0").expect("bind");
    let addr = listener.local_addr().unwrap();
    let client = match repe::Client::connect(addr) {
        Ok(c) => c,
        Err(e) => return (vec![("C04:harness".into(), format!("connect: {e}"))], 0),
    };
    let (mut peer, _) = listener.accept().expect("accept");
    peer.set_read_timeout(Some(std::time::Duration::from_millis(60))).ok();
    let tags: Vec<u64> = (0..n as u64).map(|i| 9000 + i).collect();
    let t = std::time::Duration::from_secs(20);
    let reqs: Vec<(String, Value)> = tags.iter().map(|t| ("/p".to_string(), json!({"t": t}))).collect();
    let caller = std::thread::spawn(move || client.batch_json_with_timeout(reqs, t).into_iter().map(clients::classify).collect::<Vec<Res>>());
    let mut ids = std::collections::BTreeMap::new();
    let (mut buf, mut pending, mut answered) = (Vec::new(), Vec::new(), 0usize);
    let begun = std::time::Instant::now();
    let mut chunk = [0u8; 8192];
    while answered < n && begun.elapsed() < std::time::Duration::from_secs(25) {
        match peer.read(&mut chunk) {
            Ok(0) => break,
            Ok(k) => {
                buf.extend_from_slice(&chunk[..k]);
                loop {
                    match crate::frames::parse_one(&buf) {
                        Ok(Some((f, k))) => {
                            if let Some(t) = clients::tag_of(&f) {
                                ids.insert(t, f.h.id);
                            }
                            pending.push(f.h.id);
                            buf.drain(..k);
                        }
                        Ok(None) => break,
                        Err(e) => {
                            bad.push(("C04:request-stream-malformed".into(), format!("{ctx}: {e}")));
                            return (bad, 0);
                        }
                    }
                }
            }
            Err(e) if matches!(e.kind(), std::io::ErrorKind::WouldBlock | std::io::ErrorKind::TimedOut) => {
                for id in wave(order, std::mem::take(&mut pending)) {
                    let _ = peer.write_all(&clients::reply(id).to_bytes());
                    answered += 1;
                }
            }
            Err(_) => break,
        }
    }
    for id in wave(order, std::mem::take(&mut pending)) {
        let _ = peer.write_all(&clients::reply(id).to_bytes());
    }
    let results = caller.join().unwrap_or_else(|_| vec![Res::Err("caller panicked".into())]);
    if results.len() != n {
        bad.push(("C04:batch-length".into(), format!("{ctx}: {} results for {n} requests", results.len())));
    }
    for (i, r) in results.iter().enumerate() {
        let own = ids.get(&tags[i]).copied().unwrap_or(0);
        if *r != Res::Id(own) {
            bad.push(("C04:batch-misaligned".into(), format!("{ctx}: result #{i} is {r:?}, the request at that position had id {own}")));
            break;
        }
    }
    (bad, 256)
}


// ------------------------------------------------------------------ a caller preempted inside its own call

/// Rendezvous inside `Serialize`: the first serialization of the body parks until the harness opens the gate.
struct SerGate {
    st: std::sync::Mutex<(bool, bool)>, // (arrived, open)
    cv: std::sync::Condvar,
}
impl SerGate {
    fn new() -> std::sync::Arc<SerGate> {
        std::sync::Arc::new(SerGate { st: std::sync::Mutex::new((false, false)), cv: std::sync::Condvar::new() })
    }
    fn pass(&self) {
        let mut g = self.st.lock().unwrap();
        if g.1 {
            return;
        }
        g.0 = true;
        self.cv.notify_all();
        let deadline = std::time::Instant::now() + std::time::Duration::from_secs(30);
        while !g.1 && std::time::Instant::now() < deadline {
            g = self.cv.wait_timeout(g, std::time::Duration::from_millis(50)).unwrap().0;
        }
    }
    fn wait_arrived(&self) -> bool {
        let deadline = std::time::Instant::now() + std::time::Duration::from_secs(10);
        let mut g = self.st.lock().unwrap();
        while !g.0 && std::time::Instant::now() < deadline {
            g = self.cv.wait_timeout(g, std::time::Duration::from_millis(50)).unwrap().0;
        }
        g.0
    }
    fn open(&self) {
        self.st.lock().unwrap().1 = true;
        self.cv.notify_all();
    }
}
struct GatedBody {
    tag: u64,
    pad: usize,
    gate: std::sync::Arc<SerGate>,
}
impl serde::Serialize for GatedBody {
    fn serialize<S: serde::Serializer>(&self, s: S) -> Result<S::Ok, S::Error> {
        self.gate.pass();
        let v = if self.pad == 0 { json!({"t": self.tag}) } else { json!({"t": self.tag, "p": "x".repeat(self.pad)}) };
        v.serialize(s)
    }
}

const GATE_LIMIT: usize = 1024;

/// Real threads and real-time watchdogs are involved: a finding must reproduce in a second execution.
async fn run_gated(kind: Kind, a_notify: bool, refused: bool, b: BMode, order: &[usize]) -> (Bad, u64) {
    let (bad, flags) = run_gated_once(kind, a_notify, refused, b, order).await;
    if bad.is_empty() {
        return (bad, flags);
    }
    let (again, _) = run_gated_once(kind, a_notify, refused, b, order).await;
    (bad.into_iter().filter(|(k, _)| again.iter().any(|(k2, _)| k2 == k)).collect(), flags)
}

async fn run_gated_once(kind: Kind, a_notify: bool, refused: bool, b: BMode, order: &[usize]) -> (Bad, u64) {
    let mut bad = Bad::new();
    let what = format!("{}: A ({}{}) parked in body serialization, B {b:?}, then A continues, then C; replies in order {order:?}", kind.name(), if a_notify { "notify" } else { "call" }, if refused { ", larger than the assumed peer limit" } else { "" });
    let limits = if refused { Some(repe::WebSocketLimits::unlimited().with_assumed_peer_frame_limit(Some(GATE_LIMIT))) } else { None };
    let Conn { cli, mut peer, .. } = clients::connect_with(kind, limits).await;
    let gate = SerGate::new();
    let gb = GatedBody { tag: 1, pad: if refused { 4 * GATE_LIMIT } else { 0 }, gate: gate.clone() };
    let handle = tokio::runtime::Handle::current();
    let cli_a = cli.clone();
    // A runs on its own OS thread (polled there), so that it can be parked in the middle of a call while the
    // runtime thread goes on serving the other callers and the client's reader task
    let th = std::thread::spawn(move || {
        handle.block_on(async move {
            match (cli_a, a_notify) {
                (Cli::Async(c), false) => c.call_json("/p", &gb).await,
                (Cli::Ws(c), false) => c.call_json("/p", &gb).await,
                (Cli::Async(c), true) => c.notify_json("/p", &gb).await.map(|_| Value::Null),
                (Cli::Ws(c), true) => c.notify_json("/p", &gb).await.map(|_| Value::Null),
            }
        })
    });
    if !gate.wait_arrived() {
        gate.open();
        let _ = th.join();
        return (vec![("C04:harness".into(), format!("{what}: the body was never serialized"))], 0);
    }
    let mut seen: Vec<crate::frames::Frame> = Vec::new();
    // ---- B, while A is parked
    let hb = tokio::spawn(cli.call(2, if b == BMode::TimedOut { Some(std::time::Duration::from_secs(5)) } else { None }, 0));
    match peer.drain_requests().await {
        Ok(r) => seen.extend(r),
        Err(e) => bad.push(("C04:request-stream-malformed".into(), format!("{what}: {e}"))),
    }
    let id_b = seen.iter().find(|f| clients::tag_of(f) == Some(2)).map(|f| f.h.id);
    let Some(id_b) = id_b else {
        gate.open();
        let _ = th.join();
        bad.push(("C04:requests-missing".into(), format!("{what}: B's request never arrived")));
        return (bad, 0);
    };
    let mut hb = Some(hb);
    match b {
        BMode::Answered => {
            peer.send(&clients::reply(id_b)).await;
            memstream::settle().await;
            let r = clients::join_call(hb.take().unwrap()).await;
            if r != Res::Id(id_b) {
                bad.push(("C04:wrong-response:error".into(), format!("{what}: B (request id {id_b}) returned {r:?}")));
            }
        }
        BMode::TimedOut => {
            tokio::time::advance(std::time::Duration::from_secs(6)).await;
            let r = clients::join_call(hb.take().unwrap()).await;
            if r != Res::Timeout {
                bad.push(("C04:gated:timeout-not-reported".into(), format!("{what}: B (5 s timeout, never answered) returned {r:?} after 6 s")));
            }
        }
        BMode::Pending => {}
    }
    // ---- A continues
    gate.open();
    let begun = std::time::Instant::now();
    let mut a_done = false;
    loop {
        match peer.drain_requests().await {
            Ok(r) => seen.extend(r),
            Err(e) => {
                bad.push(("C04:request-stream-malformed".into(), format!("{what}: {e}")));
                break;
            }
        }
        let a_on_wire = seen.iter().any(|f| clients::tag_of(f) == Some(1));
        if th.is_finished() {
            a_done = true;
        }
        if a_on_wire || a_done || begun.elapsed() > std::time::Duration::from_secs(10) {
            break;
        }
        std::thread::sleep(std::time::Duration::from_millis(1));
    }
    let a_frame = seen.iter().find(|f| clients::tag_of(f) == Some(1)).cloned();
    if refused {
        if let Some(f) = &a_frame {
            // (C17 judges the limit; here it only means A is a live call after all)
            bad.push(("C04:harness".into(), format!("{what}: the oversized request ({} bytes) was written", f.to_bytes().len())));
        }
    } else if a_frame.is_none() {
        bad.push(("C04:requests-missing".into(), format!("{what}: A's request never arrived after the gate was opened")));
    }
    // ---- C
    let hc = tokio::spawn(cli.call(3, None, 0));
    match peer.drain_requests().await {
        Ok(r) => seen.extend(r),
        Err(e) => bad.push(("C04:request-stream-malformed".into(), format!("{what}: {e}"))),
    }
    let id_c = seen.iter().find(|f| clients::tag_of(f) == Some(3)).map(|f| f.h.id);
    // all request ids issued on one connection are distinct
    let mut ids: Vec<u64> = seen.iter().map(|f| f.h.id).collect();
    let n_ids = ids.len();
    ids.sort();
    ids.dedup();
    if ids.len() != n_ids {
        bad.push(("C04:duplicate-request-id".into(), format!("{what}: request ids on the wire are not distinct: {:?}", seen.iter().map(|f| (clients::tag_of(f), f.h.id)).collect::<Vec<_>>())));
    }
    // ---- replies to whatever is still pending, in the scripted order (B's late reply first when B timed out)
    if b == BMode::TimedOut {
        peer.send(&clients::reply(id_b)).await;
        memstream::settle().await;
    }
    let mut pend: Vec<u64> = Vec::new();
    if let (Some(f), false) = (&a_frame, a_notify) {
        pend.push(f.h.id);
    }
    if b == BMode::Pending {
        pend.push(id_b);
    }
    if let Some(c) = id_c {
        pend.push(c);
    } else {
        bad.push(("C04:requests-missing".into(), format!("{what}: C's request never arrived")));
    }
    for i in order {
        if let Some(id) = pend.get(*i) {
            peer.send(&clients::reply(*id)).await;
            memstream::settle().await;
        }
    }
    // ---- every call gets its own response
    if let Some(h) = hb.take() {
        let r = clients::join_call(h).await;
        if r != Res::Id(id_b) {
            bad.push((format!("C04:wrong-response:{}", match r { Res::Hang => "hang", Res::Id(_) => "other-calls-response", _ => "error" }), format!("{what}: B (request id {id_b}) returned {r:?}")));
        }
    }
    let rc = clients::join_call(hc).await;
    if let Some(c) = id_c {
        if rc != Res::Id(c) {
            bad.push((format!("C04:wrong-response:{}", match rc { Res::Hang => "hang", Res::Id(_) => "other-calls-response", _ => "error" }), format!("{what}: C (request id {c}, B had {id_b}) returned {rc:?}")));
        }
    }
    let begun = std::time::Instant::now();
    while !th.is_finished() && begun.elapsed() < std::time::Duration::from_secs(10) {
        memstream::settle().await;
        std::thread::sleep(std::time::Duration::from_millis(1));
    }
    if !th.is_finished() {
        bad.push(("C04:wrong-response:hang".into(), format!("{what}: A never returned")));
        // (the thread is left behind; it holds nothing the next scenario uses)
    } else {
        let ra = th.join().map(clients::classify).unwrap_or(Res::Err("A panicked".into()));
        match (&a_frame, a_notify, refused) {
            (Some(f), false, false) if ra != Res::Id(f.h.id) => {
                bad.push((format!("C04:wrong-response:{}", match ra { Res::Id(_) => "other-calls-response", _ => "error" }), format!("{what}: A (request id {}) returned {ra:?}", f.h.id)));
            }
            (_, _, true) if matches!(ra, Res::Id(_)) => bad.push(("C04:wrong-response:other-calls-response".into(), format!("{what}: A was never sent, yet it returned {ra:?}"))),
            _ => {}
        }
    }
    if cli.pending() != 0 {
        bad.push(("C04:pending-residue".into(), format!("{what}: {} pending entries after all calls returned", cli.pending())));
    }
    (bad, 512 | if refused { 1024 } else { 0 })
}

pub fn run(tier: Tier) -> ! {
    let ctx = Ctx::new("C04", tier);
    let all = scenarios(tier);
    let samples = Samples::new(4);
    samples.offer(|| json!(format!("{:?}", all[all.len() / 3])));
    samples.offer(|| json!(format!("{:?}", all[all.len() - 1])));
    let parts = par::for_each_index(
        all.len() as u64,
        64,
        |_| {
            let rt = tokio::runtime::Builder::new_current_thread().enable_time().start_paused(true).build().unwrap();
            (rt, Vec::<(usize, String, String)>::new(), BTreeMap::<u64, u64>::new(), 0u64)
        },
        |(rt, bad, flagc, n), i| {
            let sc = &all[i as usize];
            let (b, flags) = rt.block_on(async {
                match sc {
                    Scenario::Perm { kind, n, perm, extra, pos, burst } => run_perm(*kind, *n, perm, *extra, *pos, *burst).await,
                    Scenario::Batch { kind, n, perm } => run_batch(*kind, *n, perm).await,
                    Scenario::BatchTimeout { kind, n, silent, reversed } => run_batch_timeout(*kind, *n, *silent, *reversed).await,
                    Scenario::MixNotify { kind, n, pattern, acks_first } => run_mix_notify(*kind, *n, *pattern, *acks_first).await,
                    Scenario::Early { k, queued_behind } => run_early(*k, *queued_behind).await,
                    Scenario::ForwardDuplicate { n, victim } => run_forward_duplicate(*n, *victim).await,
                    Scenario::PermBlocking { n, perm, extra, pos } => run_perm_blocking(*n, perm, *extra, *pos, false),
                    Scenario::BatchBlocking { n, perm } => run_perm_blocking(*n, perm, Extra::None, 0, true),
                    Scenario::BigBatch { kind: Some(k), n, order } => run_big_batch(*k, *n, *order).await,
                    Scenario::BigBatch { kind: None, n, order } => run_big_batch_blocking(*n, *order),
                    Scenario::Gated { kind, a_notify, refused, b, order } => run_gated(*kind, *a_notify, *refused, *b, order).await,
                    Scenario::WsSub { n, perm, j, pos, sub } => run_perm_sub(Kind::Ws, *n, perm, Extra::NotifyReuse(*j), *pos, false, Some(*sub)).await,
                    Scenario::EarlyWs { k, queued_behind } => run_early_ws(*k, *queued_behind).await,
                }
            });
            *n += 1;
            for bit in 0..14 {
                if flags & (1 << bit) != 0 {
                    *flagc.entry(bit).or_insert(0) += 1;
                }
            }
            for (k, w) in b {
                if bad.len() < 50 {
                    bad.push((i as usize, k, w));
                }
            }
        },
    );
    let mut executed = 0u64;
    let mut flagc = BTreeMap::<u64, u64>::new();
    let mut bads = Vec::new();
    for (_, bad, f, n) in parts {
        executed += n;
        for (k, v) in f {
            *flagc.entry(k).or_insert(0) += v;
        }
        bads.extend(bad);
    }
    bads.sort_by_key(|b| b.0);
    for (i, k, w) in bads {
        ctx.violation(k, w, json!({"scenario": format!("{:?}", all[i]), "index": i, "tier": tier.name()}));
    }
    let g = |b: u64| flagc.get(&b).copied().unwrap_or(0);
    if !ctx.has_violation() && (g(0) == 0 || g(2) == 0 || g(3) == 0 || g(4) == 0 || g(5) == 0 || g(6) == 0 || g(9) == 0 || g(10) == 0 || g(11) == 0 || g(12) == 0 || g(13) == 0) {
        ctx.machinery("vacuous exploration: a scenario family never ran");
    }
    let coverage = json!({
        "states": all.len(),
        "transitions": executed,
        "traces_validated_against_impl": executed,
        "samples": samples.take(),
        "exhaustive": executed == all.len() as u64,
        "bound": {"max_concurrent_calls": tier.pick(5, 7), "batch_max": tier.pick(5, 6)},
        "nonvacuity": {
            "non_identity_reply_orders": g(0),
            "notify_consumed_by_call_on_AsyncClient(allowed)": g(1),
            "notifies_routed_to_subscriber": g(2),
            "batch_scenarios": g(3),
            "replies_overtaking_a_blocked_write": g(4),
            "blocking_client_tcp_scenarios": g(5),
            "blocking_client_batch_scenarios": g(6),
            "caller_preempted_inside_its_call": g(9),
            "preempted_caller_refused_as_too_large": g(10),
            "notify_reusing_an_id_under_other_subscription_states": g(11),
            "websocket_client_early_reply_scenarios": g(12),
            "bad_version_reply_or_ping_scenarios": g(13),
        },
        "rule": "blocking Client over loopback TCP with n caller threads (n <= 4, thorough 5): every reply permutation x extra frame x position, and batch_json under every reply order; for both tokio clients over an in-memory stream on a paused single-threaded runtime: n concurrent calls, every permutation of the n replies, one extra frame (unknown id / duplicate of reply j / notify reusing in-flight id j) at every position, delivered one by one or in one burst; batch_json under every reply order; AsyncClient replies injected while the request's write is blocked after 48+k bytes, WebSocketClient replies injected while the request's WebSocket frame is blocked after k bytes (the peer unmasks the id from the partial frame); n <= 3 calls with the reply to call j carrying protocol version 2 (call j reports an error, the others their own replies) and, WebSocketClient, a server Ping at every position; stray error responses (unknown id, every error-code class) at every position for n <= 2 on all three clients; a caller (call or notify, on its own OS thread) parked inside its own call at body serialization while another call is issued and answered / left pending / timed out, then resumed (or refused locally as larger than the WebSocket client's assumed peer limit), then a third call, the pending ones answered in every order: request ids on the wire pairwise distinct and every call gets its own response; WebSocketClient: the notify reusing an in-flight id (n <= 3, every reply order, victim and position) with the subscription unsubscribed / its receiver dropped / re-subscribed / re-subscribed over a stale slot",
    });
    ctx.finish(
        "model_checking",
        coverage,
        &[
            "tokio task interleavings are removed by a single-threaded runtime and a paused clock: the only scheduling freedom is what the scripted peer induces",
            "AsyncClient has no notification API: a notify frame reusing an in-flight id may be consumed by that call or dropped; only other calls must be unaffected",
            "the blocking Client's correlation is decided at lock granularity by the loom part",
        ],
    )
}

pub fn replay(case: &Value) -> Result<(), String> {
    let tier = if case["tier"].as_str() == Some("thorough") { Tier::Thorough } else { Tier::Quick };
    let all = scenarios(tier);
    let i = case["index"].as_u64().ok_or("index")? as usize;
    let sc = all.get(i).ok_or("index out of range")?;
    let (b, _) = memstream::run_paused(async {
        match sc {
            Scenario::Perm { kind, n, perm, extra, pos, burst } => run_perm(*kind, *n, perm, *extra, *pos, *burst).await,
            Scenario::Batch { kind, n, perm } => run_batch(*kind, *n, perm).await,
                    Scenario::BatchTimeout { kind, n, silent, reversed } => run_batch_timeout(*kind, *n, *silent, *reversed).await,
                    Scenario::MixNotify { kind, n, pattern, acks_first } => run_mix_notify(*kind, *n, *pattern, *acks_first).await,
            Scenario::Early { k, queued_behind } => run_early(*k, *queued_behind).await,
            Scenario::ForwardDuplicate { n, victim } => run_forward_duplicate(*n, *victim).await,
            Scenario::PermBlocking { n, perm, extra, pos } => run_perm_blocking(*n, perm, *extra, *pos, false),
            Scenario::BatchBlocking { n, perm } => run_perm_blocking(*n, perm, Extra::None, 0, true),
            Scenario::BigBatch { kind: Some(k), n, order } => run_big_batch(*k, *n, *order).await,
            Scenario::BigBatch { kind: None, n, order } => run_big_batch_blocking(*n, *order),
            Scenario::Gated { kind, a_notify, refused, b, order } => run_gated(*kind, *a_notify, *refused, *b, order).await,
            Scenario::WsSub { n, perm, j, pos, sub } => run_perm_sub(Kind::Ws, *n, perm, Extra::NotifyReuse(*j), *pos, false, Some(*sub)).await,
            Scenario::EarlyWs { k, queued_behind } => run_early_ws(*k, *queued_behind).await,
        }
    });
    if b.is_empty() { Ok(()) } else { Err(b.into_iter().map(|(k, w)| format!("{k}: {w}")).collect::<Vec<_>>().join("\n")) }
}

#[allow(dead_code)]
fn _unused(_: &Peer) {}
