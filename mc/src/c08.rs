//! C08 — bulk numeric bodies are bit-identical to the generic encoding and decode exactly.
//!
//! Bounded-exhaustive input enumeration against the real `repe` code:
//!
//! * part `msg`  — per (element type, length, rotation): builder vs generic serde
//!   encoding (a), the 2x2 encoder/decoder matrix (b), streamed vs built frame (c),
//!   wrong header body format (e);
//! * part `route` — per (type, length, query length, receive-buffer misalignment,
//!   client, route, dispatch): requests built exactly as `Client`/`AsyncClient`
//!   build them, placed at chosen offsets of an 8-aligned backing buffer, driven
//!   through `Router::get(path)` + `handle_view` / `handle`; the response is decoded
//!   the way the same client decodes it (b, d), and a handler observes whether its
//!   slice points into the request buffer (d: borrowed iff aligned);
//! * part `wrong` — every (sent type, route type) pair and every wrong header body
//!   format against the bulk decoders (e);
//! * part `tcp` — a thin sweep of the real `Client`/`AsyncClient` helpers against
//!   `Server`/`AsyncServer` over loopback.
//!
//! The oracle is the slice itself (bit images), `beve::to_vec` / `beve::from_slice`
//! as "the generic encoding", and an independent parse of the aligned layout for
//! the expected payload address.

#[path = "c08_types.rs"]
mod types;

use crate::ctx::{Ctx, Samples, Tier};
use crate::frames;
use repe::server::{HandlerErased, Router, TypedResponse};
use repe::{BodyFormat, CallContext, Complex, Header, Message, MessageView, QueryFormat};
use serde_json::{Value, json};
use std::cell::Cell;
use std::collections::BTreeMap;
use std::panic::{AssertUnwindSafe, catch_unwind};
use std::sync::Arc;
use types::*;

// ---------------------------------------------------------------- bounds

const SMALL_MAX: usize = 64;
/// tcp cases sort after every in-memory case when picking the recorded representative
const TCP_ORDER: u64 = 1 << 60;
const SPECIAL_LENS: [usize; 9] = [127, 128, 255, 256, 4095, 4096, 16383, 16384, 65537];
const Q_MAX: usize = 64;
const REQ_ID: u64 = 0x0102_0304_0506_0708;

fn path_for(q: usize) -> String {
    if q == 0 { String::new() } else { format!("/{}", "p".repeat(q - 1)) }
}

// ---------------------------------------------------------------- counters

macro_rules! counters {
    ($($name:ident),* $(,)?) => {
        #[allow(non_camel_case_types, clippy::upper_case_acronyms)]
        #[derive(Clone, Copy)]
        enum C { $($name),*, _N }
        const C_NAMES: &[&str] = &[$(stringify!($name)),*];
    };
}
counters!(
    emit_frames_captured,
    emit_aligned_frames_borrowed,
    msg_cases,
    route_cases,
    wrong_cases,
    tcp_cases,
    impl_calls,
    bulk_eq_generic_checked,
    cross_bulk_to_generic_ok,
    cross_generic_to_bulk_ok,
    same_encoder_roundtrips_ok,
    streamed_frames_equal,
    streamed_frames_size_prefix_2_or_more_bytes,
    wire_paths_equal,
    route_view_dispatches,
    route_owned_dispatches,
    route_accepted_identical,
    route_either_rejected,
    route_either_accepted_identical,
    aligned_to_ref_cases,
    aligned_layout_unparsed,
    aligned_borrowed,
    aligned_borrowed_nonzero_padding,
    aligned_copied_fallback,
    aligned_owned_dispatch_borrowed,
    aligned_owned_dispatch_copied,
    regular_form_copied,
    regular_form_borrowed,
    empty_slice_borrowed,
    wrong_type_rejected_bulk_decoder,
    wrong_type_rejected_slice_route,
    wrong_type_generic_route_rejected,
    wrong_type_generic_route_coerced,
    wrong_format_rejected_bulk_decoder,
    wrong_format_rejected_slice_route,
    wrong_format_generic_route_rejected,
    wrong_format_generic_route_identical,
    known_class_hits,
    panics,
    tcp_ok_identical,
    tcp_rejected,
);

struct Fail {
    order: u64,
    what: String,
    case: Value,
}

struct W {
    c: [u64; C::_N as usize],
    by_type: [u64; 14],
    fails: BTreeMap<String, Fail>,
    /// (entry point, element type) pairs observed for the empty-vector class
    empty_class: BTreeMap<String, u64>,
    backing: Vec<u64>,
    order: u64,
    /// harness-side problems (never a verdict)
    machinery: Vec<String>,
}

impl W {
    fn new() -> W {
        W {
            c: [0; C::_N as usize],
            by_type: [0; 14],
            fails: BTreeMap::new(),
            empty_class: BTreeMap::new(),
            backing: Vec::new(),
            order: 0,
            machinery: Vec::new(),
        }
    }
    fn inc(&mut self, c: C) {
        self.c[c as usize] += 1;
    }
    fn add(&mut self, c: C, n: u64) {
        self.c[c as usize] += n;
    }
    fn fail(&mut self, key: String, what: impl FnOnce() -> String, case: &Value) {
        let order = self.order;
        match self.fails.get(&key) {
            Some(f) if f.order <= order => {}
            _ => {
                self.fails.insert(key, Fail { order, what: what(), case: case.clone() });
            }
        }
    }
    fn merge(&mut self, o: W) {
        for i in 0..self.c.len() {
            self.c[i] += o.c[i];
        }
        for i in 0..14 {
            self.by_type[i] += o.by_type[i];
        }
        for (k, f) in o.fails {
            match self.fails.get(&k) {
                Some(mine) if mine.order <= f.order => {}
                _ => {
                    self.fails.insert(k, f);
                }
            }
        }
        self.machinery.extend(o.machinery);
        for (k, n) in o.empty_class {
            *self.empty_class.entry(k).or_default() += n;
        }
    }
}

fn merge_all(into: &mut W, ws: Vec<W>) {
    for w in ws {
        into.merge(w);
    }
}

/// Run one case, converting a panic of the code under test into a violation.
fn guarded(w: &mut W, part: &str, case: &Value, f: impl FnOnce(&mut W)) {
    IN_GUARD.with(|g| g.set(true));
    let r = catch_unwind(AssertUnwindSafe(|| f(w)));
    IN_GUARD.with(|g| g.set(false));
    if let Err(p) = r {
        let msg = p
            .downcast_ref::<String>()
            .cloned()
            .or_else(|| p.downcast_ref::<&str>().map(|s| s.to_string()))
            .unwrap_or_else(|| "non-string panic".into());
        w.inc(C::panics);
        w.fail(format!("C08:panic:{part}"), || format!("panic in case {case}: {msg}"), case);
    }
}

const KNOWN_EMPTY: &str = "C08:cross-decode:generic->bulk:len=0:";

// ---------------------------------------------------------------- part msg

fn base_builder(q: usize) -> repe::message::MessageBuilder {
    Message::builder().id(REQ_ID).query_str(&path_for(q)).query_format(QueryFormat::JsonPointer)
}

/// The three buffered ways of producing the frame of one built message.
fn built_frames(m: &Message) -> (Vec<u8>, Vec<u8>, Vec<u8>) {
    let mut via_write = Vec::new();
    repe::write_message(&mut via_write, m).expect("write to Vec");
    (m.to_vec(), via_write, m.clone().into_wire_bytes())
}

fn check_wire_paths(w: &mut W, m: &Message, what: &str, case: &Value) -> Vec<u8> {
    let (a, b, c) = built_frames(m);
    w.add(C::impl_calls, 3);
    if a != b || a != c {
        w.fail(
            format!("C08:built-frame:paths-disagree:{what}"),
            || {
                format!(
                    "to_vec / write_message / into_wire_bytes give different frames for the {what} message: {} / {} / {} ({case})",
                    hex(&a),
                    hex(&b),
                    hex(&c)
                )
            },
            case,
        );
    } else {
        w.inc(C::wire_paths_equal);
    }
    a
}

fn msg_case<T: Elem>(w: &mut W, n: usize, rot: usize, q: usize) {
    let case = json!({"part": "msg", "type": T::NAME, "len": n, "rot": rot, "q": q});
    w.inc(C::msg_cases);
    w.by_type[T::IDX] += 1;
    let c2 = case.clone();
    guarded(w, "msg", &c2, |w| {
        let v: Vec<T> = make(n, rot);
        let img = image(&v);
        let bulk = base_builder(q).body_typed_slice(&v).build();
        let generic_body = beve::to_vec(&v).expect("generic encode");
        let generic = base_builder(q).body_beve(&v).expect("body_beve").build();
        w.add(C::impl_calls, 3);

        // (a) non-empty: bulk bytes == generic serde bytes of the same Vec
        if bulk.header.body_format != BodyFormat::Beve as u16 {
            w.fail(
                "C08:bulk-body:format-code".into(),
                || format!("body_typed_slice set body_format {} ({case})", bulk.header.body_format),
                &case,
            );
        }
        if n > 0 {
            w.inc(C::bulk_eq_generic_checked);
            if bulk.body != generic_body || generic.body != generic_body {
                w.fail(
                    "C08:bulk-vs-generic-bytes".into(),
                    || {
                        format!(
                            "{}[{n}] rot {rot}: bulk body {} != generic {}",
                            T::NAME,
                            hex(&bulk.body),
                            hex(&generic_body)
                        )
                    },
                    &case,
                );
            }
        }
        // the payload of the bulk body is the little-endian image of the slice
        if !bulk.body.ends_with(&img) {
            w.fail(
                "C08:bulk-body:payload-image".into(),
                || format!("{}[{n}]: bulk body {} does not end with the element image {}", T::NAME, hex(&bulk.body), hex(&img)),
                &case,
            );
        }

        // (b) encoder x decoder matrix, through owned messages re-parsed from wire bytes
        let bulk_frame = check_wire_paths(w, &bulk, "bulk", &case);
        let generic_frame = generic.to_vec();
        for (enc, frame) in [("bulk", &bulk_frame), ("generic", &generic_frame)] {
            let m = match Message::from_slice(frame) {
                Ok(m) => m,
                Err(e) => {
                    w.fail(format!("C08:frame-reparse:{enc}"), || format!("built frame does not parse: {e} ({case})"), &case);
                    continue;
                }
            };
            w.add(C::impl_calls, 3);
            // bulk decoder
            match m.decode_typed_slice::<T>() {
                Ok(d) if bytes_of(&d) == bytes_of(&v) && d.len() == n => {
                    if enc == "generic" {
                        w.inc(C::cross_generic_to_bulk_ok)
                    } else {
                        w.inc(C::same_encoder_roundtrips_ok)
                    }
                }
                Ok(d) => w.fail(
                    format!("C08:decode:{enc}->bulk:bits"),
                    || format!("{}[{n}] rot {rot}: Message::decode_typed_slice of the {enc} encoding differs: {}", T::NAME, first_diff(&d, &v)),
                    &case,
                ),
                Err(e) => {
                    let key = if enc == "generic" && n == 0 {
                        w.inc(C::known_class_hits);
                        *w.empty_class.entry(format!("Message::decode_typed_slice|{}", T::NAME)).or_default() += 1;
                        format!("{KNOWN_EMPTY}Message::decode_typed_slice")
                    } else if enc == "generic" {
                        "C08:cross-decode:generic->bulk:len>0:Message::decode_typed_slice".to_string()
                    } else {
                        "C08:decode:bulk->bulk:error".to_string()
                    };
                    w.fail(
                        key,
                        || format!("{}[{n}]: Message::decode_typed_slice rejects the {enc} encoding {}: {e}", T::NAME, hex(&m.body)),
                        &case,
                    );
                }
            }
            // generic decoders: Message::beve_body and beve::from_slice on the view body
            let view = MessageView::from_slice(frame).expect("view");
            for (dec, r) in [
                ("Message::beve_body", m.beve_body::<Vec<T>>().map_err(|e| e.to_string())),
                ("beve::from_slice(view.body)", beve::from_slice::<Vec<T>>(view.body).map_err(|e| e.to_string())),
            ] {
                match r {
                    Ok(d) if bytes_of(&d) == bytes_of(&v) && d.len() == n => {
                        if enc == "bulk" {
                            w.inc(C::cross_bulk_to_generic_ok)
                        } else {
                            w.inc(C::same_encoder_roundtrips_ok)
                        }
                    }
                    Ok(d) => w.fail(
                        format!("C08:decode:{enc}->generic:bits"),
                        || format!("{}[{n}] rot {rot}: {dec} of the {enc} encoding differs: {}", T::NAME, first_diff(&d, &v)),
                        &case,
                    ),
                    Err(e) => w.fail(
                        format!("C08:cross-decode:{enc}->generic:error"),
                        || format!("{}[{n}]: {dec} rejects the {enc} encoding {}: {e}", T::NAME, hex(&m.body)),
                        &case,
                    ),
                }
            }
        }

        // (b') a builder that already held a body (a longer typed array, raw bytes with spare capacity, JSON)
        // when the bulk setter is called builds exactly the same message: the last body set is the body
        {
            let longer: Vec<T> = make(n + 3, (rot + 1) % 3);
            let mut spare = Vec::with_capacity(bulk.body.len() + 4096);
            spare.extend_from_slice(b"previous raw body");
            let rebuilt = [
                ("typed-then-typed", base_builder(q).body_typed_slice(&longer).body_typed_slice(&v).build()),
                ("bytes-then-typed", base_builder(q).body_bytes(spare).body_typed_slice(&v).build()),
                ("json-then-typed", base_builder(q).body_json(&json!({"old": [1, 2, 3], "pad": "x".repeat(bulk.body.len() + 64)})).expect("body_json").body_typed_slice(&v).build()),
            ];
            w.add(C::impl_calls, 3);
            for (what, m) in rebuilt {
                if m.body != bulk.body || m.header.body_format != bulk.header.body_format || m.header.body_length != bulk.header.body_length || m.header.length != bulk.header.length {
                    w.fail(
                        format!("C08:builder-body-replaced:{what}"),
                        || format!("{}[{n}] q={q}: a builder whose body was set before ({what}) built body {} (format {}, body_length {}), a fresh builder builds {}", T::NAME, hex(&m.body), m.header.body_format, m.header.body_length, hex(&bulk.body)),
                        &case,
                    );
                }
            }
        }

        // (c) streamed frame == built frame
        let mut h = Header::new();
        h.id = REQ_ID;
        h.query_format = QueryFormat::JsonPointer as u16;
        let mut streamed = Vec::new();
        let r = repe::write_message_typed_slice(&mut streamed, h, path_for(q).as_bytes(), &v);
        w.inc(C::impl_calls);
        if let Err(e) = r {
            w.fail("C08:streamed:error".into(), || format!("write_message_typed_slice failed: {e} ({case})"), &case);
        } else if streamed != bulk_frame {
            w.fail(
                "C08:streamed-vs-built:typed".into(),
                || format!("{}[{n}] q={q}: streamed frame {} != built frame {}", T::NAME, hex(&streamed), hex(&bulk_frame)),
                &case,
            );
        } else {
            w.inc(C::streamed_frames_equal);
            if n >= 64 {
                w.inc(C::streamed_frames_size_prefix_2_or_more_bytes);
            }
            // independent frame oracle: one whole frame carrying exactly the bulk body
            match frames::parse_one(&streamed) {
                Ok(Some((f, used))) if used == streamed.len() && f.body == bulk.body && f.h.body_format == 1 && f.h.id == REQ_ID => {}
                other => w.fail(
                    "C08:streamed:frame-oracle".into(),
                    || format!("streamed frame is not one consistent frame with the bulk body: {:?} ({case})", other.map(|o| o.map(|(f, u)| (f.h, u)))),
                    &case,
                ),
            }
        }

        // (c') the same with every header field a caller controls set away from its default (notify, an error
        // code, an unknown query format): the streaming writer forwards them exactly as the builder does
        {
            let ecs = [repe::ErrorCode::ParseError, repe::ErrorCode::MethodNotFound, repe::ErrorCode::InvalidBody, repe::ErrorCode::Timeout, repe::ErrorCode::VersionMismatch];
            let ec = ecs[(n + q + rot) % ecs.len()];
            let notify = (n + q) % 2 == 0;
            let built = base_builder(q).notify(notify).error_code(ec).query_format_code(7).body_typed_slice(&v).build().to_vec();
            let mut h = Header::new();
            h.id = REQ_ID;
            h.query_format = 7;
            h.notify = u8::from(notify);
            h.ec = ec as u32;
            let mut streamed = Vec::new();
            let r = repe::write_message_typed_slice(&mut streamed, h, path_for(q).as_bytes(), &v);
            w.add(C::impl_calls, 2);
            match r {
                Err(e) => w.fail("C08:streamed:error".into(), || format!("write_message_typed_slice failed on a decorated header: {e} ({case})"), &case),
                Ok(()) if streamed != built => w.fail(
                    "C08:streamed-vs-built:typed:decorated-header".into(),
                    || format!("{}[{n}] q={q} notify={notify} ec={}: streamed header {} != built header {}", T::NAME, ec as u32, hex(&streamed[..48.min(streamed.len())]), hex(&built[..48.min(built.len())])),
                    &case,
                ),
                Ok(()) => w.inc(C::streamed_frames_equal),
            }
        }

        // (e) wrong header body format -> bulk decoder refuses
        for code in [0u16, 2, 3, 0x7777] {
            for (enc, src) in [("bulk", &bulk), ("generic", &generic)] {
                let mut m = src.clone();
                m.header.body_format = code;
                w.inc(C::impl_calls);
                match m.decode_typed_slice::<T>() {
                    Err(_) => w.inc(C::wrong_format_rejected_bulk_decoder),
                    Ok(d) => w.fail(
                        "C08:wrong-format-accepted:Message::decode_typed_slice".into(),
                        || format!("{}[{n}]: decode_typed_slice accepted a {enc} body under body_format {code:#x} and returned {} elements", T::NAME, d.len()),
                        &case,
                    ),
                }
            }
        }
    });
}

fn complex_case<T: CElem>(w: &mut W, n: usize, rot: usize, q: usize)
where
    Complex<T>: serde::Serialize + serde::de::DeserializeOwned,
{
    let case = json!({"part": "complex", "type": T::CNAME, "len": n, "rot": rot, "q": q});
    w.inc(C::msg_cases);
    w.by_type[T::CIDX] += 1;
    let c2 = case.clone();
    guarded(w, "complex", &c2, |w| {
        let v: Vec<Complex<T>> = make_complex(n, rot);
        let img = image_complex(&v);
        let bulk = base_builder(q).body_complex_slice(&v).build();
        let generic_body = beve::to_vec(&v).expect("generic encode");
        let generic = base_builder(q).body_beve(&v).expect("body_beve").build();
        w.add(C::impl_calls, 3);
        if n > 0 {
            w.inc(C::bulk_eq_generic_checked);
            if bulk.body != generic_body {
                w.fail(
                    "C08:bulk-vs-generic-bytes:complex".into(),
                    || format!("{}[{n}] rot {rot}: bulk body {} != generic {}", T::CNAME, hex(&bulk.body), hex(&generic_body)),
                    &case,
                );
            }
        }
        if bulk.header.body_format != BodyFormat::Beve as u16 || !bulk.body.ends_with(&img) {
            w.fail(
                "C08:bulk-body:payload-image:complex".into(),
                || format!("{}[{n}]: complex bulk body {} / format {} is not the interleaved element image", T::CNAME, hex(&bulk.body), bulk.header.body_format),
                &case,
            );
        }
        let bulk_frame = check_wire_paths(w, &bulk, "complex", &case);
        let generic_frame = generic.to_vec();
        for (enc, frame) in [("bulk", &bulk_frame), ("generic", &generic_frame)] {
            let m = Message::from_slice(frame).expect("reparse");
            w.add(C::impl_calls, 2);
            match m.decode_complex_slice::<T>() {
                Ok(d) if bytes_of(&d) == bytes_of(&v) && d.len() == n => {
                    if enc == "generic" {
                        w.inc(C::cross_generic_to_bulk_ok)
                    } else {
                        w.inc(C::same_encoder_roundtrips_ok)
                    }
                }
                Ok(d) => w.fail(
                    format!("C08:decode:{enc}->bulk:bits:complex"),
                    || format!("{}[{n}] rot {rot}: decode_complex_slice of the {enc} encoding differs: {}", T::CNAME, first_diff(&d, &v)),
                    &case,
                ),
                Err(e) => {
                    let key = if enc == "generic" && n == 0 {
                        w.inc(C::known_class_hits);
                        *w.empty_class.entry(format!("Message::decode_complex_slice|{}", T::CNAME)).or_default() += 1;
                        format!("{KNOWN_EMPTY}Message::decode_complex_slice")
                    } else if enc == "generic" {
                        "C08:cross-decode:generic->bulk:len>0:Message::decode_complex_slice".to_string()
                    } else {
                        "C08:decode:bulk->bulk:error:complex".to_string()
                    };
                    w.fail(key, || format!("{}[{n}]: decode_complex_slice rejects the {enc} encoding {}: {e}", T::CNAME, hex(&m.body)), &case);
                }
            }
            match m.beve_body::<Vec<Complex<T>>>() {
                Ok(d) if bytes_of(&d) == bytes_of(&v) && d.len() == n => {
                    if enc == "bulk" {
                        w.inc(C::cross_bulk_to_generic_ok)
                    } else {
                        w.inc(C::same_encoder_roundtrips_ok)
                    }
                }
                Ok(d) => w.fail(
                    format!("C08:decode:{enc}->generic:bits:complex"),
                    || format!("{}[{n}] rot {rot}: beve_body of the {enc} encoding differs: {}", T::CNAME, first_diff(&d, &v)),
                    &case,
                ),
                Err(e) => w.fail(
                    format!("C08:cross-decode:{enc}->generic:error:complex"),
                    || format!("{}[{n}]: beve_body rejects the {enc} encoding {}: {e}", T::CNAME, hex(&m.body)),
                    &case,
                ),
            }
        }
        // (c)
        let mut h = Header::new();
        h.id = REQ_ID;
        h.query_format = QueryFormat::JsonPointer as u16;
        let mut streamed = Vec::new();
        let r = repe::write_message_complex_slice(&mut streamed, h, path_for(q).as_bytes(), &v);
        w.inc(C::impl_calls);
        if let Err(e) = r {
            w.fail("C08:streamed:error:complex".into(), || format!("write_message_complex_slice failed: {e} ({case})"), &case);
        } else if streamed != bulk_frame {
            w.fail(
                "C08:streamed-vs-built:complex".into(),
                || format!("{}[{n}] q={q}: streamed frame {} != built frame {}", T::CNAME, hex(&streamed), hex(&bulk_frame)),
                &case,
            );
        } else {
            w.inc(C::streamed_frames_equal);
            if n >= 64 {
                w.inc(C::streamed_frames_size_prefix_2_or_more_bytes);
            }
        }
        // (c') decorated header (see the scalar case)
        {
            let ecs = [repe::ErrorCode::ParseError, repe::ErrorCode::MethodNotFound, repe::ErrorCode::InvalidBody, repe::ErrorCode::Timeout, repe::ErrorCode::VersionMismatch];
            let ec = ecs[(n + q + rot) % ecs.len()];
            let notify = (n + q) % 2 == 0;
            let built = base_builder(q).notify(notify).error_code(ec).query_format_code(7).body_complex_slice(&v).build().to_vec();
            let mut h = Header::new();
            h.id = REQ_ID;
            h.query_format = 7;
            h.notify = u8::from(notify);
            h.ec = ec as u32;
            let mut streamed = Vec::new();
            let r = repe::write_message_complex_slice(&mut streamed, h, path_for(q).as_bytes(), &v);
            w.add(C::impl_calls, 2);
            match r {
                Err(e) => w.fail("C08:streamed:error:complex".into(), || format!("write_message_complex_slice failed on a decorated header: {e} ({case})"), &case),
                Ok(()) if streamed != built => w.fail(
                    "C08:streamed-vs-built:complex:decorated-header".into(),
                    || format!("{}[{n}] q={q} notify={notify} ec={}: streamed header {} != built header {}", T::CNAME, ec as u32, hex(&streamed[..48.min(streamed.len())]), hex(&built[..48.min(built.len())])),
                    &case,
                ),
                Ok(()) => w.inc(C::streamed_frames_equal),
            }
        }
        // (e) wrong header format, wrong component type, scalar/complex confusion
        for code in [0u16, 2, 3, 0x7777] {
            let mut m = bulk.clone();
            m.header.body_format = code;
            w.inc(C::impl_calls);
            match m.decode_complex_slice::<T>() {
                Err(_) => w.inc(C::wrong_format_rejected_bulk_decoder),
                Ok(d) => w.fail(
                    "C08:wrong-format-accepted:Message::decode_complex_slice".into(),
                    || format!("{}[{n}]: decode_complex_slice accepted body_format {code:#x} ({} elements)", T::CNAME, d.len()),
                    &case,
                ),
            }
        }
        struct Other<'a> {
            w: &'a mut W,
            m: &'a Message,
            own: &'static str,
            case: &'a Value,
        }
        impl ScalarVisitor for Other<'_> {
            fn visit<R: Elem>(&mut self) {
                self.w.add(C::impl_calls, 2);
                // complex body read as a scalar typed array of any type
                match self.m.decode_typed_slice::<R>() {
                    Err(_) => self.w.inc(C::wrong_type_rejected_bulk_decoder),
                    Ok(d) => self.w.fail(
                        "C08:wrong-type-accepted:Message::decode_typed_slice".into(),
                        || format!("complex {} body {} decoded as {} x{}", self.own, hex(&self.m.body), R::NAME, d.len()),
                        self.case,
                    ),
                }
                // complex body read as complex of another component type
                if R::NAME != self.own {
                    match self.m.decode_complex_slice::<R>() {
                        Err(_) => self.w.inc(C::wrong_type_rejected_bulk_decoder),
                        Ok(d) => self.w.fail(
                            "C08:wrong-type-accepted:Message::decode_complex_slice".into(),
                            || format!("complex<{}> body {} decoded as complex<{}> x{}", self.own, hex(&self.m.body), R::NAME, d.len()),
                            self.case,
                        ),
                    }
                }
            }
        }
        visit_all(&mut Other { w, m: &bulk, own: T::NAME, case: &case });
        // the reverse confusion: a REAL typed array of the component type itself (2n scalars: an even count,
        // the same width) is not a complex array
        {
            let scalars: Vec<T> = make(2 * n, rot);
            for (enc, m) in [("bulk", base_builder(q).body_typed_slice(&scalars).build()), ("generic", base_builder(q).body_beve(&scalars).expect("body_beve").build())] {
                if enc == "generic" && n == 0 {
                    continue; // the generic empty encoding names no element type (known finding D6)
                }
                w.add(C::impl_calls, 2);
                match m.decode_complex_slice::<T>() {
                    Err(_) => w.inc(C::wrong_type_rejected_bulk_decoder),
                    Ok(d) => w.fail(
                        "C08:wrong-type-accepted:Message::decode_complex_slice:real-array".into(),
                        || format!("{enc} body of {}[{}] ({}) decoded as complex<{}> x{}", T::NAME, 2 * n, hex(&m.body), T::NAME, d.len()),
                        &case,
                    ),
                }
            }
        }
    });
}

// ---------------------------------------------------------------- part route

thread_local! {
    /// (slice pointer, slice length, number of handler invocations) of the last dispatch
    static OBS: Cell<(usize, usize, u32)> = const { Cell::new((0, 0, 0)) };
}

fn observe<T>(xs: &[T]) {
    OBS.with(|o| {
        let (_, _, calls) = o.get();
        o.set((xs.as_ptr() as usize, xs.len(), calls + 1));
    });
}

const ROUTES: [&str; 3] = ["with_typed_slice", "with_typed_slice_ref", "with_typed"];
/// (index 3 is used by part route only: the aligned body handed to the builder BEFORE the query, so the
/// padding was chosen for another frame offset)
const CLIENTS: [&str; 4] = ["bulk", "aligned", "generic", "aligned-body-before-query"];

struct Env {
    routers: [Router; 3],
}

fn env<T: Elem>(paths: &[String]) -> Env {
    let mut slice = Router::new();
    let mut slice_ref = Router::new();
    let mut typed = Router::new();
    for p in paths {
        slice = slice.with_typed_slice::<T, T, _>(p, |xs: Vec<T>| {
            observe(&xs);
            Ok(xs)
        });
        slice_ref = slice_ref.with_typed_slice_ref::<T, T, _>(p, |xs: &[T]| {
            observe(xs);
            Ok(xs.to_vec())
        });
        typed = typed.with_typed::<Vec<T>, Vec<T>, _>(p, |xs: Vec<T>| {
            observe(&xs);
            Ok(TypedResponse::beve(xs))
        });
    }
    Env { routers: [slice, slice_ref, typed] }
}

/// Request exactly as `Client::call_with_body_and_timeout` builds it for the three helpers.
fn client_request<T: Elem>(client: usize, path: &str, v: &[T]) -> Message {
    if client == 3 {
        return Message::builder().id(REQ_ID).body_aligned_typed_slice(v).query_str(path).query_format_code(QueryFormat::JsonPointer as u16).build();
    }
    let b = Message::builder().id(REQ_ID).query_str(path).query_format_code(QueryFormat::JsonPointer as u16);
    match client {
        0 => b.body_typed_slice(v),
        1 => b.body_aligned_typed_slice(v),
        _ => b.body_beve(&v.to_vec()).expect("body_beve"),
    }
    .build()
}

/// Independent parse of the aligned typed-array layout
/// `0x5C | numeric header | SIZE | PADDING_LENGTH | PADDING | DATA`:
/// returns (offset of DATA inside the body, element count, padding length).
fn aligned_layout(body: &[u8]) -> Option<(usize, u64, usize)> {
    if body.len() < 4 || body[0] != 0x5C {
        return None;
    }
    let wdt = 1usize << (body[2] & 3);
    if body.len() < 2 + wdt + 1 {
        return None;
    }
    let mut raw = [0u8; 8];
    raw[..wdt].copy_from_slice(&body[2..2 + wdt]);
    let n = u64::from_le_bytes(raw) >> 2;
    let pad = body[2 + wdt] as usize;
    Some((2 + wdt + 1 + pad, n, pad))
}

enum Outcome {
    Rejected(String),
    Response(Message),
}

fn outcome(r: Result<Message, repe::RepeError>) -> Outcome {
    match r {
        Err(e) => Outcome::Rejected(format!("handler error: {e}")),
        Ok(m) if m.header.ec != 0 => Outcome::Rejected(format!("error response ec={} {:?}", m.header.ec, String::from_utf8_lossy(&m.body))),
        Ok(m) => Outcome::Response(m),
    }
}

/// Decode a success response the way the given client helper does.
fn client_decode<T: Elem>(client: usize, resp: &Message) -> Result<Vec<T>, String> {
    if client == 2 {
        // decode_typed_response: by body format
        match BodyFormat::try_from(resp.header.body_format) {
            Ok(BodyFormat::Beve) => beve::from_slice::<Vec<T>>(&resp.body).map_err(|e| e.to_string()),
            Ok(BodyFormat::Json) | Ok(BodyFormat::Utf8) => serde_json::from_slice::<Vec<T>>(&resp.body).map_err(|e| e.to_string()),
            _ => Err("response body is neither JSON nor BEVE".into()),
        }
    } else {
        resp.decode_typed_slice::<T>().map_err(|e| e.to_string())
    }
}

/// One (type, len, rot, q, client) group: all routes x all placements.
/// `mis_filter`: None = every placement (8 misalignments + owned dispatch).
#[allow(clippy::too_many_arguments)]
fn route_group<T: Elem>(w: &mut W, env: &Env, n: usize, rot: usize, q: usize, client: usize, only: Option<(usize, usize)>) {
    let v: Vec<T> = make(n, rot);
    let path = path_for(q);
    let align = std::mem::align_of::<T>();
    let req = client_request(client, &path, &v);
    let frame = {
        let mut f = Vec::new();
        repe::write_message(&mut f, &req).expect("write to Vec");
        f
    };
    w.add(C::impl_calls, 2);
    let base_case = json!({"part": "route", "type": T::NAME, "len": n, "rot": rot, "q": q, "client": CLIENTS[client]});
    let aligned_form = client == 1 || client == 3;
    if aligned_form {
        check_wire_paths(w, &req, CLIENTS[client], &base_case);
        // the emitted frame, parsed independently, carries exactly the built query and body
        match crate::frames::parse_one(&frame) {
            Ok(Some((f, used))) if used == frame.len() && f.body == req.body && f.query == req.query => {}
            other => w.fail(
                format!("C08:built-frame:header-disagrees-with-bytes:{}", CLIENTS[client]),
                || format!("{}[{n}] q={q}: the frame emitted for the built message ({} query bytes, {} body bytes) parses independently as {:?}", T::NAME, req.query.len(), req.body.len(), other.map(|o| o.map(|(f, u)| (f.h.query_length, f.h.body_length, f.h.length, u)))),
                &base_case,
            ),
        }
    }
    // independent location of the payload inside an aligned body (None for the regular forms)
    let layout = if aligned_form {
        let l = aligned_layout(&req.body).filter(|(off, cnt, _)| {
            *cnt as usize == n && req.body.len() == off + std::mem::size_of_val(&v[..]) && req.body[*off..] == *bytes_of(&v)
        });
        if l.is_none() {
            // the harness cannot locate the payload: a machinery problem at the end of the
            // run, unless the decoders themselves already disagree (then that is the verdict)
            w.inc(C::aligned_layout_unparsed);
        }
        l
    } else {
        None
    };
    let words = (frame.len() + 8) / 8 + 2;
    if w.backing.len() < words {
        w.backing.resize(words, 0);
    }
    for route in 0..3 {
        for place in 0..9usize {
            if let Some((r, p)) = only {
                if r != route || p != place {
                    continue;
                }
            }
            w.order += 1;
            w.inc(C::route_cases);
            w.by_type[T::IDX] += 1;
            let dispatch = if place < 8 { "handle_view" } else { "handle" };
            let case = json!({"part": "route", "type": T::NAME, "len": n, "rot": rot, "q": q, "client": CLIENTS[client],
                "route": ROUTES[route], "place": place});
            let c2 = case.clone();
            let mut backing = std::mem::take(&mut w.backing);
            guarded(w, "route", &c2, |w| {
                let Some(h): Option<Arc<dyn HandlerErased>> = env.routers[route].get(&path) else {
                    w.fail("C08:route:not-found".into(), || format!("Router::get({path:?}) found nothing"), &case);
                    return;
                };
                OBS.with(|o| o.set((0, 0, 0)));
                // ---- dispatch
                let owned_req;
                let (res, buf_range, body_addr) = if place < 8 {
                    // SAFETY: backing is a live Vec<u64> (8-aligned) with room for place + frame.len() bytes
                    let bytes = unsafe { std::slice::from_raw_parts_mut(backing.as_mut_ptr() as *mut u8, backing.len() * 8) };
                    let dst = &mut bytes[place..place + frame.len()];
                    dst.copy_from_slice(&frame);
                    let dst: &[u8] = dst;
                    let view = match MessageView::from_slice(dst) {
                        Ok(v) => v,
                        Err(e) => {
                            w.fail("C08:route:view-parse".into(), || format!("MessageView::from_slice failed on a client frame: {e} ({case})"), &case);
                            return;
                        }
                    };
                    w.inc(C::route_view_dispatches);
                    let start = dst.as_ptr() as usize;
                    let body_addr = view.body.as_ptr() as usize;
                    let ctx = CallContext::detached(&path);
                    (h.handle_view(&view, &ctx), (start, start + dst.len()), body_addr)
                } else {
                    owned_req = match Message::from_slice(&frame) {
                        Ok(m) => m,
                        Err(e) => {
                            w.fail("C08:route:frame-parse".into(), || format!("Message::from_slice failed on a client frame: {e} ({case})"), &case);
                            return;
                        }
                    };
                    w.inc(C::route_owned_dispatches);
                    let start = owned_req.body.as_ptr() as usize;
                    (h.handle(&owned_req), (start, start + owned_req.body.len()), start)
                };
                w.inc(C::impl_calls);
                let (ptr, plen, calls) = OBS.with(|o| o.get());
                let out = outcome(res);

                // ---- verdict on the result
                let must_accept = !aligned_form || route == 1;
                match &out {
                    Outcome::Rejected(why) => {
                        if must_accept {
                            let key = if n == 0 && client == 2 && route < 2 {
                                w.inc(C::known_class_hits);
                                *w.empty_class.entry(format!("{}:{dispatch}|{}", ROUTES[route], T::NAME)).or_default() += 1;
                                format!("{KNOWN_EMPTY}{}:{dispatch}", ROUTES[route])
                            } else {
                                format!("C08:route:{}->{}:{dispatch}:request-rejected", CLIENTS[client], ROUTES[route])
                            };
                            w.fail(
                                key,
                                || format!("{}[{n}] q={q} place={place}: {} request body {} to a {} route was rejected: {why}", T::NAME, CLIENTS[client], hex(&req.body), ROUTES[route]),
                                &case,
                            );
                        } else {
                            w.inc(C::route_either_rejected);
                        }
                    }
                    Outcome::Response(resp) => {
                        w.inc(C::impl_calls);
                        if resp.header.id != REQ_ID {
                            w.fail(
                                format!("C08:route:{}:response-id", ROUTES[route]),
                                || format!("response id {:#x} for request {REQ_ID:#x} ({case})", resp.header.id),
                                &case,
                            );
                        }
                        match client_decode::<T>(client, resp) {
                            Ok(d) if bytes_of(&d) == bytes_of(&v) && d.len() == n => {
                                if must_accept {
                                    w.inc(C::route_accepted_identical)
                                } else {
                                    w.inc(C::route_either_accepted_identical)
                                }
                            }
                            Ok(d) => w.fail(
                                format!("C08:route:{}->{}:{dispatch}:elements", CLIENTS[client], ROUTES[route]),
                                || format!("{}[{n}] rot {rot} q={q} place={place}: echoed elements differ: {}", T::NAME, first_diff(&d, &v)),
                                &case,
                            ),
                            Err(e) => {
                                let key = if n == 0 && client != 2 && route == 2 {
                                    // the serde route answers with the generic encoding of an empty Vec
                                    w.inc(C::known_class_hits);
                                    *w.empty_class.entry(format!("Message::decode_typed_slice(response of with_typed)|{}", T::NAME)).or_default() += 1;
                                    format!("{KNOWN_EMPTY}Message::decode_typed_slice")
                                } else {
                                    format!("C08:route:{}->{}:{dispatch}:response-decode-error", CLIENTS[client], ROUTES[route])
                                };
                                w.fail(
                                    key,
                                    || format!("{}[{n}] q={q} place={place}: the {} client cannot decode the {} route's response body {} (format {}): {e}", T::NAME, CLIENTS[client], ROUTES[route], hex(&resp.body), resp.header.body_format),
                                    &case,
                                );
                            }
                        }
                    }
                }

                // ---- (d) borrowed iff aligned, observed by the `_ref` handler
                if route == 1 && calls == 1 {
                    if plen != n {
                        w.fail("C08:route:handler-slice-len".into(), || format!("handler saw {plen} elements, sent {n} ({case})"), &case);
                    }
                    let size = plen * std::mem::size_of::<T>();
                    let in_buf = ptr >= buf_range.0 && ptr + size <= buf_range.1;
                    if in_buf && ptr % align != 0 {
                        w.fail(
                            "C08:borrow:misaligned-reference".into(),
                            || format!("{}: handler got a &[T] at {ptr:#x} inside the request buffer, not {align}-aligned ({case})", T::NAME),
                            &case,
                        );
                    }
                    if aligned_form {
                        w.inc(C::aligned_to_ref_cases);
                        if let Some((off, _, pad)) = layout {
                            let payload = body_addr + off;
                            let expect = payload % align == 0;
                            if in_buf != expect {
                                w.fail(
                                    format!("C08:borrow:{dispatch}:expected-{}", if expect { "borrowed" } else { "copied" }),
                                    || format!("{}[{n}] q={q} place={place}: payload address {payload:#x} (align {align}) but the handler slice {ptr:#x} is {} the request buffer {:#x}..{:#x}", T::NAME, if in_buf { "inside" } else { "outside" }, buf_range.0, buf_range.1),
                                    &case,
                                );
                            }
                            if place < 8 {
                                // a frame that lands on an align_of::<T>() boundary must be borrowable:
                                // this is what the padding for the 48 + query offset is for
                                if client == 1 && place % align == 0 && !in_buf {
                                    w.fail(
                                        "C08:borrow:aligned-frame-not-borrowed".into(),
                                        || format!("{}[{n}] q={q}: frame placed at misalignment {place} (aligned for {align}) but the payload at frame offset {} was copied, body {}", T::NAME, 48 + q + off, hex(&req.body[..req.body.len().min(16)])),
                                        &case,
                                    );
                                }
                                if in_buf {
                                    w.inc(C::aligned_borrowed);
                                    if pad != 0 {
                                        w.inc(C::aligned_borrowed_nonzero_padding);
                                    }
                                    if n == 0 {
                                        w.inc(C::empty_slice_borrowed);
                                    }
                                } else {
                                    w.inc(C::aligned_copied_fallback);
                                }
                            } else if in_buf {
                                w.inc(C::aligned_owned_dispatch_borrowed);
                            } else {
                                w.inc(C::aligned_owned_dispatch_copied);
                            }
                        }
                    } else if in_buf {
                        w.inc(C::regular_form_borrowed);
                    } else {
                        w.inc(C::regular_form_copied);
                    }
                }
            });
            w.backing = std::mem::take(&mut backing);
        }
    }
}

// ---------------------------------------------------------------- part wrong

#[derive(Clone)]
struct Sent {
    ty: &'static str,
    complex: bool,
    client: usize,
    n: usize,
    msg: Message,
}

const WRONG_PATH: &str = "/wrong";
const WRONG_LENS: [usize; 9] = [0, 1, 2, 3, 4, 8, 16, 23, 64];

struct BuildSent<'a>(&'a mut Vec<Sent>);
impl ScalarVisitor for BuildSent<'_> {
    fn visit<T: Elem>(&mut self) {
        for n in WRONG_LENS {
            for client in 0..3 {
                if client == 2 && n == 0 {
                    continue; // the generic empty encoding names no element type
                }
                let v: Vec<T> = make(n, n % 3);
                self.0.push(Sent { ty: T::NAME, complex: false, client, n, msg: client_request(client, WRONG_PATH, &v) });
            }
        }
    }
}

fn build_sent() -> Vec<Sent> {
    let mut out = Vec::new();
    visit_all(&mut BuildSent(&mut out));
    fn cx<T: CElem>(out: &mut Vec<Sent>)
    where
        Complex<T>: serde::Serialize,
    {
        for n in WRONG_LENS {
            let v: Vec<Complex<T>> = make_complex(n, 1);
            let b = || Message::builder().id(REQ_ID).query_str(WRONG_PATH).query_format_code(QueryFormat::JsonPointer as u16);
            out.push(Sent { ty: T::CNAME, complex: true, client: 0, n, msg: b().body_complex_slice(&v).build() });
            if n > 0 {
                out.push(Sent { ty: T::CNAME, complex: true, client: 2, n, msg: b().body_beve(&v).expect("body_beve").build() });
            }
        }
    }
    cx::<f32>(&mut out);
    cx::<f64>(&mut out);
    // BEVE bodies that are no numeric array at all, or a generic (untyped) array because its elements are not
    // of one numeric type: wrong for every receiving element type
    let others: [(&'static str, Value); 12] = [
        ("generic:[1,2.5,3]", json!([1, 2.5, 3])),
        ("generic:[null,1.0]", json!([null, 1.0])),
        ("generic:[[1.0],[2.0]]", json!([[1.0], [2.0]])),
        ("generic:[\"a\",\"b\"]", json!(["a", "b"])),
        ("generic:[true,false]", json!([true, false])),
        ("generic:[1,\"a\"]", json!([1, "a"])),
        ("generic:[{}]", json!([{}])),
        ("object", json!({"a": [1, 2]})),
        ("scalar:1.5", json!(1.5)),
        ("scalar:7", json!(7)),
        ("string", json!("xyz")),
        ("null", json!(null)),
    ];
    for (ty, v) in others {
        let n = v.as_array().map(|a| a.len()).unwrap_or(1);
        let msg = Message::builder().id(REQ_ID).query_str(WRONG_PATH).query_format_code(QueryFormat::JsonPointer as u16).body_beve(&v).expect("body_beve").build();
        out.push(Sent { ty, complex: false, client: 2, n, msg });
    }
    out
}

/// Dispatch one message to one route at placement 0 / 1 (view) or owned.
fn dispatch(env: &Env, route: usize, path: &str, msg: &Message, place: usize, backing: &mut Vec<u64>) -> (Outcome, u32) {
    let h = env.routers[route].get(path).expect("route registered");
    OBS.with(|o| o.set((0, 0, 0)));
    let res = if place < 8 {
        let frame = msg.to_vec();
        let words = (frame.len() + 8) / 8 + 2;
        if backing.len() < words {
            backing.resize(words, 0);
        }
        // SAFETY: as in route_group
        let bytes = unsafe { std::slice::from_raw_parts_mut(backing.as_mut_ptr() as *mut u8, backing.len() * 8) };
        bytes[place..place + frame.len()].copy_from_slice(&frame);
        let view = MessageView::from_slice(&bytes[place..place + frame.len()]).expect("view");
        h.handle_view(&view, &CallContext::detached(path))
    } else {
        h.handle(msg)
    };
    let calls = OBS.with(|o| o.get().2);
    (outcome(res), calls)
}

fn wrong_type_case<R: Elem>(w: &mut W, env: &Env, s: &Sent, sent_idx: usize) {
    if !s.complex && s.ty == R::NAME {
        return;
    }
    let case = json!({"part": "wrong-type", "recv": R::NAME, "sent_index": sent_idx, "sent": s.ty, "len": s.n, "client": CLIENTS[s.client]});
    w.inc(C::wrong_cases);
    w.by_type[R::IDX] += 1;
    w.order += 1;
    let c2 = case.clone();
    let mut backing = std::mem::take(&mut w.backing);
    guarded(w, "wrong-type", &c2, |w| {
        w.inc(C::impl_calls);
        match s.msg.decode_typed_slice::<R>() {
            Err(_) => w.inc(C::wrong_type_rejected_bulk_decoder),
            Ok(d) => w.fail(
                "C08:wrong-type-accepted:Message::decode_typed_slice".into(),
                || format!("{} body of {}[{}] ({}) decoded as {} x{}: {}", CLIENTS[s.client], s.ty, s.n, hex(&s.msg.body), R::NAME, d.len(), hex(bytes_of(&d))),
                &case,
            ),
        }
        for route in 0..3 {
            for place in [0usize, 1, 8] {
                let dispatch_name = if place < 8 { "handle_view" } else { "handle" };
                w.inc(C::impl_calls);
                let (out, calls) = dispatch(env, route, WRONG_PATH, &s.msg, place, &mut backing);
                match (route, out) {
                    (0 | 1, Outcome::Rejected(_)) => {
                        w.inc(C::wrong_type_rejected_slice_route);
                    }
                    (0 | 1, Outcome::Response(resp)) => w.fail(
                        format!("C08:wrong-type-accepted:{}:{dispatch_name}", ROUTES[route]),
                        || format!("{} body of {}[{}] ({}) was accepted by a {}<{}> route (handler calls {calls}); response body {}", CLIENTS[s.client], s.ty, s.n, hex(&s.msg.body), ROUTES[route], R::NAME, hex(&resp.body)),
                        &case,
                    ),
                    (_, Outcome::Rejected(_)) => w.inc(C::wrong_type_generic_route_rejected),
                    (_, Outcome::Response(_)) => w.inc(C::wrong_type_generic_route_coerced),
                }
            }
        }
    });
    w.backing = backing;
}

fn wrong_format_case<T: Elem>(w: &mut W, env: &Env, n: usize, client: usize, code: u16) {
    let case = json!({"part": "wrong-format", "type": T::NAME, "len": n, "client": CLIENTS[client], "format": code});
    w.inc(C::wrong_cases);
    w.by_type[T::IDX] += 1;
    w.order += 1;
    let c2 = case.clone();
    let mut backing = std::mem::take(&mut w.backing);
    guarded(w, "wrong-format", &c2, |w| {
        let v: Vec<T> = make(n, 2);
        let mut msg = client_request(client, WRONG_PATH, &v);
        msg.header.body_format = code;
        for route in 0..3 {
            for place in [0usize, 3, 8] {
                let dispatch_name = if place < 8 { "handle_view" } else { "handle" };
                w.inc(C::impl_calls);
                let (out, _calls) = dispatch(env, route, WRONG_PATH, &msg, place, &mut backing);
                match (route, out) {
                    (0 | 1, Outcome::Rejected(_)) => {
                        w.inc(C::wrong_format_rejected_slice_route);
                    }
                    (0 | 1, Outcome::Response(resp)) => w.fail(
                        format!("C08:wrong-format-accepted:{}:{dispatch_name}", ROUTES[route]),
                        || format!("{}[{n}] {} body under body_format {code:#x} was accepted by a {} route; response body {}", T::NAME, CLIENTS[client], ROUTES[route], hex(&resp.body)),
                        &case,
                    ),
                    (_, Outcome::Rejected(_)) => w.inc(C::wrong_format_generic_route_rejected),
                    (_, Outcome::Response(resp)) => match beve::from_slice::<Vec<T>>(&resp.body) {
                        Ok(d) if bytes_of(&d) == bytes_of(&v) => w.inc(C::wrong_format_generic_route_identical),
                        _ => w.fail(
                            format!("C08:wrong-format-reinterpreted:with_typed:{dispatch_name}"),
                            || format!("{}[{n}] {} body under body_format {code:#x}: serde route answered different elements, body {}", T::NAME, CLIENTS[client], hex(&resp.body)),
                            &case,
                        ),
                    },
                }
            }
        }
    });
    w.backing = backing;
}

// ---------------------------------------------------------------- part tcp

const TCP_LENS: [usize; 6] = [0, 1, 3, 64, 257, 4096];
const TCP_QS: [usize; 9] = [1, 2, 3, 4, 5, 6, 7, 8, 9];

fn tcp_paths() -> Vec<String> {
    let mut v = Vec::new();
    for r in 0..3 {
        for q in TCP_QS {
            // distinct per route kind, same length class: "/<r>ppp"
            v.push(format!("/{r}{}", "p".repeat(q)));
        }
    }
    v
}

fn tcp_router<T: Elem>() -> Router {
    let mut router = Router::new();
    for (i, p) in tcp_paths().iter().enumerate() {
        router = match i / TCP_QS.len() {
            0 => router.with_typed_slice::<T, T, _>(p, |xs: Vec<T>| Ok(xs)),
            1 => router.with_typed_slice_ref::<T, T, _>(p, |xs: &[T]| Ok(xs.to_vec())),
            _ => router.with_typed::<Vec<T>, Vec<T>, _>(p, |xs: Vec<T>| Ok(TypedResponse::beve(xs))),
        };
    }
    router
}

/// Judge one call result of a real client helper.
#[allow(clippy::too_many_arguments)]
fn tcp_judge<T: Elem>(w: &mut W, transport: &str, client: usize, route: usize, n: usize, q: usize, v: &[T], res: Result<Vec<T>, repe::RepeError>) {
    let case = json!({"part": "tcp", "transport": transport, "type": T::NAME, "len": n, "q": q, "client": CLIENTS[client], "route": ROUTES[route]});
    w.inc(C::tcp_cases);
    w.by_type[T::IDX] += 1;
    w.order = TCP_ORDER + (((T::IDX * 8192 + n) * 128 + q) * 16 + client * 4 + route) as u64 * 2 + (transport != "Client/Server") as u64;
    w.inc(C::impl_calls);
    let must_accept = client != 1 || route == 1;
    match res {
        Ok(d) if bytes_of(&d) == bytes_of(v) && d.len() == n => w.inc(C::tcp_ok_identical),
        Ok(d) => w.fail(
            format!("C08:tcp:{transport}:{}->{}:elements", CLIENTS[client], ROUTES[route]),
            || format!("{}[{n}] q={q}: {}", T::NAME, first_diff(&d, v)),
            &case,
        ),
        Err(e) => {
            w.inc(C::tcp_rejected);
            let server_side = matches!(e, repe::RepeError::ServerError { .. });
            if matches!(e, repe::RepeError::Io(_)) {
                w.fail(format!("C08:tcp:{transport}:io"), || format!("transport failure: {e} ({case})"), &case);
            } else if must_accept {
                let key = if n == 0 && client == 2 && route < 2 && server_side {
                    w.inc(C::known_class_hits);
                    *w.empty_class.entry(format!("{}:handle_view(over {transport})|{}", ROUTES[route], T::NAME)).or_default() += 1;
                    format!("{KNOWN_EMPTY}{}:handle_view", ROUTES[route])
                } else if n == 0 && client != 2 && route == 2 && !server_side {
                    w.inc(C::known_class_hits);
                    *w.empty_class.entry(format!("Message::decode_typed_slice(response of with_typed over {transport})|{}", T::NAME)).or_default() += 1;
                    format!("{KNOWN_EMPTY}Message::decode_typed_slice")
                } else {
                    format!("C08:tcp:{transport}:{}->{}:error", CLIENTS[client], ROUTES[route])
                };
                w.fail(key, || format!("{}[{n}] q={q} over {transport}: {} client against a {} route failed: {e}", T::NAME, CLIENTS[client], ROUTES[route]), &case);
            }
        }
    }
}

struct TcpSweep<'a> {
    w: &'a mut W,
    rt: &'a tokio::runtime::Runtime,
    only: Option<&'a Value>,
}

impl ScalarVisitor for TcpSweep<'_> {
    fn visit<T: Elem>(&mut self) {
        let w = &mut *self.w;
        let rt = self.rt;
        let paths = tcp_paths();
        let t = std::time::Duration::from_secs(10);
        // blocking pair
        let server = repe::Server::new(tcp_router::<T>());
        let listener = server.listen("127.0.0.1:0").expect("bind");
        let addr = listener.local_addr().expect("addr");
        std::thread::spawn(move || {
            let _ = server.serve(listener);
        });
        // async pair
        let (aaddr, _guard) = rt.block_on(async {
            let l = repe::AsyncServer::listen("127.0.0.1:0").await.expect("bind");
            let a = l.local_addr().expect("addr");
            (a, tokio::spawn(repe::AsyncServer::new(tcp_router::<T>()).serve(l)))
        });
        let connect = || repe::Client::connect(addr).expect("connect to the blocking server");
        let aconnect = || rt.block_on(repe::AsyncClient::connect(aaddr)).expect("connect to the async server");
        let mut client = connect();
        let mut aclient = aconnect();
        for n in TCP_LENS {
            let v: Vec<T> = make(n, n % 5);
            for (pi, p) in paths.iter().enumerate() {
                let route = pi / TCP_QS.len();
                let q = p.len();
                for cl in 0..3 {
                    for transport in ["Client/Server", "AsyncClient/AsyncServer"] {
                        if let Some(o) = self.only {
                            if o["len"] != json!(n) || o["q"] != json!(q) || o["client"] != json!(CLIENTS[cl]) || o["route"] != json!(ROUTES[route]) || o["transport"] != json!(transport) {
                                continue;
                            }
                        }
                        let call = |client: &repe::Client, aclient: &repe::AsyncClient| -> Result<Vec<T>, repe::RepeError> {
                            if transport == "Client/Server" {
                                match cl {
                                    0 => client.call_typed_slice_with_timeout(p, &v, t),
                                    1 => client.call_typed_slice_aligned_with_timeout(p, &v, t),
                                    _ => client.call_typed_beve_with_timeout(p, &v, t),
                                }
                            } else {
                                rt.block_on(async {
                                    match cl {
                                        0 => aclient.call_typed_slice_with_timeout(p, &v, t).await,
                                        1 => aclient.call_typed_slice_aligned_with_timeout(p, &v, t).await,
                                        _ => aclient.call_typed_beve_with_timeout(p, &v, t).await,
                                    }
                                })
                            }
                        };
                        let mut res = call(&client, &aclient);
                        if let Err(repe::RepeError::Io(e)) = &res {
                            // transport failure (timeout, reset): re-run once on fresh connections.
                            // Reproducible -> judged below; not reproducible -> harness nondeterminism.
                            let first = e.to_string();
                            client = connect();
                            aclient = aconnect();
                            res = call(&client, &aclient);
                            if !matches!(res, Err(repe::RepeError::Io(_))) {
                                w.machinery.push(format!("transport failure over {transport} did not reproduce on a fresh connection: {first}"));
                            }
                        }
                        let c = json!({"part": "tcp"});
                        let mut r = Some(res);
                        guarded(w, "tcp", &c, |w| tcp_judge::<T>(w, transport, cl, route, n, q, &v, r.take().unwrap()));
                    }
                }
            }
        }
    }
}

// ---------------------------------------------------------------- part emit
// The in-memory sweeps above judge frames built the way the clients build them. This part
// closes the gap to the real clients: the frame each real client helper actually puts on
// the wire is captured by a raw TCP peer and judged by the same clauses (elements arrive
// bit-exact; an aligned-form frame that lands on an aligned base is borrowed).

struct EmitSweep<'a> {
    w: &'a mut W,
    rt: &'a tokio::runtime::Runtime,
}

/// Raw peer: accepts one connection, captures every request frame, answers each with an
/// error response carrying the request id so the call returns at once.
fn capture_peer() -> (std::net::SocketAddr, std::sync::mpsc::Receiver<Vec<u8>>) {
    use std::io::{Read, Write};
    let l = std::net::TcpListener::bind("127.0.0.1:0").expect("bind");
    let addr = l.local_addr().expect("addr");
    let (tx, rx) = std::sync::mpsc::channel();
    std::thread::spawn(move || {
        let Ok((mut s, _)) = l.accept() else { return };
        let mut buf: Vec<u8> = Vec::new();
        let mut chunk = [0u8; 65536];
        loop {
            loop {
                match crate::frames::parse_one(&buf) {
                    Ok(Some((f, n))) => {
                        let frame: Vec<u8> = buf.drain(..n).collect();
                        let mut h = crate::frames::Hdr::consistent(0, 0);
                        h.version = 1;
                        h.id = f.h.id;
                        h.ec = 6;
                        let _ = s.write_all(&h.encode());
                        if tx.send(frame).is_err() {
                            return;
                        }
                    }
                    Ok(None) => break,
                    Err(_) => return,
                }
            }
            match s.read(&mut chunk) {
                Ok(0) | Err(_) => return,
                Ok(n) => buf.extend_from_slice(&chunk[..n]),
            }
        }
    });
    (addr, rx)
}

impl ScalarVisitor for EmitSweep<'_> {
    fn visit<T: Elem>(&mut self) {
        let w = &mut *self.w;
        let rt = self.rt;
        let align = std::mem::align_of::<T>();
        let t = std::time::Duration::from_secs(10);
        let paths: Vec<String> = (1..=24usize).map(|q| format!("/{}", "e".repeat(q - 1))).collect();
        let envr = env::<T>(&paths);
        let mut backing: Vec<u64> = Vec::new();
        for real in ["Client", "AsyncClient"] {
            let (addr, rx) = capture_peer();
            let client = if real == "Client" { Some(repe::Client::connect(addr).expect("connect capture peer")) } else { None };
            let aclient = if real == "AsyncClient" { Some(rt.block_on(repe::AsyncClient::connect(addr)).expect("connect capture peer")) } else { None };
            for p in &paths {
                for n in [1usize, 5] {
                    let v: Vec<T> = make(n, n);
                    for form in 0..3usize {
                        let _ = match (&client, &aclient) {
                            (Some(c), _) => match form {
                                0 => c.call_typed_slice_with_timeout::<_, T, T>(p, &v, t).map(|_| ()),
                                1 => c.call_typed_slice_aligned_with_timeout::<_, T, T>(p, &v, t).map(|_| ()),
                                _ => c.call_typed_beve_with_timeout::<_, _, Vec<T>>(p, &v, t).map(|_| ()),
                            },
                            (_, Some(c)) => rt.block_on(async {
                                match form {
                                    0 => c.call_typed_slice_with_timeout::<_, T, T>(p, &v, t).await.map(|_| ()),
                                    1 => c.call_typed_slice_aligned_with_timeout::<_, T, T>(p, &v, t).await.map(|_| ()),
                                    _ => c.call_typed_beve_with_timeout::<_, _, Vec<T>>(p, &v, t).await.map(|_| ()),
                                }
                            }),
                            _ => unreachable!(),
                        };
                        let case = json!({"part": "emit", "client": real, "form": CLIENTS[form], "type": T::NAME, "len": n, "q": p.len()});
                        let Ok(frame) = rx.recv_timeout(t) else {
                            w.machinery.push(format!("no frame captured from {real} ({case})"));
                            return;
                        };
                        w.inc(C::emit_frames_captured);
                        w.inc(C::impl_calls);
                        // judge the captured frame on the borrowing route, at an aligned base
                        let words = frame.len() / 8 + 2;
                        if backing.len() < words {
                            backing.resize(words, 0);
                        }
                        // SAFETY: `backing` is 8-aligned and at least `frame.len()` bytes long
                        let bytes = unsafe { std::slice::from_raw_parts_mut(backing.as_mut_ptr() as *mut u8, backing.len() * 8) };
                        bytes[..frame.len()].copy_from_slice(&frame);
                        let range = (bytes.as_ptr() as usize, bytes.as_ptr() as usize + frame.len());
                        let Ok(view) = MessageView::from_slice(&bytes[..frame.len()]) else {
                            w.fail("C08:emit:client-frame-malformed".into(), || format!("{real} emitted a frame that does not parse ({case})"), &case);
                            continue;
                        };
                        let h = envr.routers[1].get(p).expect("route");
                        OBS.with(|o| o.set((0, 0, 0)));
                        let res = h.handle_view(&view, &CallContext::detached(p));
                        let (ptr, _, calls) = OBS.with(|o| o.get());
                        match outcome(res) {
                            Outcome::Response(resp) if resp.header.ec == 0 => {
                                let back: Result<Vec<T>, _> = resp.decode_typed_slice();
                                let same = back.as_ref().map(|b| images(b) == images(&v)).unwrap_or(false);
                                if !same || calls != 1 {
                                    w.fail(format!("C08:emit:{}:elements", CLIENTS[form]), || format!("{real}: the frame emitted for {}[{n}] did not reach the borrowing route bit-exact ({case})", T::NAME), &case);
                                }
                                if form == 1 {
                                    let in_buf = ptr >= range.0 && ptr < range.1;
                                    if in_buf {
                                        w.inc(C::emit_aligned_frames_borrowed);
                                    } else if align <= 8 {
                                        w.fail(
                                            "C08:emit:aligned-frame-not-borrowed".into(),
                                            || format!("{real}::call_typed_slice_aligned: the emitted frame for {}[{n}] with a {}-byte path, placed on an 8-aligned base, was copied instead of borrowed (padding does not account for the frame offset) ({case})", T::NAME, p.len()),
                                            &case,
                                        );
                                    }
                                }
                            }
                            _ => {
                                // the generic form of a slice route may be refused only for the known empty-vector class; n > 0 here
                                w.fail(format!("C08:emit:{}:rejected", CLIENTS[form]), || format!("{real}: the borrowing route rejected the emitted frame ({case})"), &case);
                            }
                        }
                    }
                }
            }
        }
    }
}

fn images<T: Elem>(v: &[T]) -> Vec<u8> {
    let mut out = Vec::new();
    for x in v {
        x.le(&mut out);
    }
    out
}

// ---------------------------------------------------------------- enumeration

struct Bounds {
    /// part msg lengths
    lens: Vec<usize>,
    /// part route lengths
    route_lens: Vec<usize>,
    /// part msg: lengths up to which every rotation is used (first `big_rots` above)
    msg_all_rot_upto: usize,
    big_rots: usize,
    /// part route: lengths up to which every rotation is used (one rotation, (len+q)%|set|, above)
    route_all_rot_upto: usize,
}

fn bounds(tier: Tier) -> Bounds {
    match tier {
        Tier::Quick => {
            let mut lens: Vec<usize> = (0..=SMALL_MAX).collect();
            lens.extend_from_slice(&SPECIAL_LENS);
            Bounds { route_lens: lens.clone(), lens, msg_all_rot_upto: 256, big_rots: 2, route_all_rot_upto: 8 }
        }
        Tier::Thorough => {
            let mut lens: Vec<usize> = (0..=4096).collect();
            lens.extend_from_slice(&[16383, 16384, 65537]);
            let mut route_lens: Vec<usize> = (0..=4096).collect();
            route_lens.extend_from_slice(&[16383, 16384, 65535, 65536, 65537]);
            Bounds { lens, route_lens, msg_all_rot_upto: usize::MAX, big_rots: usize::MAX, route_all_rot_upto: SMALL_MAX }
        }
    }
}

struct MsgSweep<'a> {
    total: &'a mut W,
    b: &'a Bounds,
}
impl ScalarVisitor for MsgSweep<'_> {
    fn visit<T: Elem>(&mut self) {
        let b = self.b;
        let rots = rotations::<T>();
        // (len, rot, q) list: every rotation at q = f(len, rot); rotation 0 at every q
        let mut cases: Vec<(usize, usize, usize)> = Vec::new();
        for &n in &b.lens {
            let r_max = if n <= b.msg_all_rot_upto { rots } else { rots.min(b.big_rots) };
            for r in 0..r_max {
                cases.push((n, r, (n + 3 * r) % (Q_MAX + 1)));
            }
            if n <= 256 {
                for q in 0..=Q_MAX {
                    if q != n % (Q_MAX + 1) {
                        cases.push((n, 0, q));
                    }
                }
            }
        }
        // heavy first for load balance; the recorded representative is the minimal `order`
        cases.sort_by_key(|c| std::cmp::Reverse(c.0));
        let ws = crate::par::for_each_index(cases.len() as u64, 4, |_| W::new(), |w, i| {
            let (n, r, q) = cases[i as usize];
            w.order = ((n as u64) << 24) | ((r as u64) << 8) | q as u64;
            msg_case::<T>(w, n, r, q);
        });
        merge_all(self.total, ws);
    }
}

fn complex_sweep<T: CElem>(total: &mut W, b: &Bounds)
where
    Complex<T>: serde::Serialize + serde::de::DeserializeOwned,
{
    let rots = rotations::<T>();
    let mut cases: Vec<(usize, usize, usize)> = Vec::new();
    for &n in &b.lens {
        let r_max = if n <= b.msg_all_rot_upto { rots } else { rots.min(b.big_rots) };
        for r in 0..r_max {
            cases.push((n, r, (n + 3 * r) % (Q_MAX + 1)));
        }
    }
    cases.sort_by_key(|c| std::cmp::Reverse(c.0));
    let ws = crate::par::for_each_index(cases.len() as u64, 4, |_| W::new(), |w, i| {
        let (n, r, q) = cases[i as usize];
        w.order = ((n as u64) << 24) | ((r as u64) << 8) | q as u64;
        complex_case::<T>(w, n, r, q);
    });
    merge_all(total, ws);
}

struct RouteSweep<'a> {
    total: &'a mut W,
    b: &'a Bounds,
}
impl ScalarVisitor for RouteSweep<'_> {
    fn visit<T: Elem>(&mut self) {
        let b = self.b;
        let rots = rotations::<T>();
        let paths: Vec<String> = (0..=Q_MAX).map(path_for).collect();
        let env = env::<T>(&paths);
        // groups: (len, rot, q, client)
        let mut groups: Vec<(usize, usize, usize, usize)> = Vec::new();
        for &n in &b.route_lens {
            for q in 0..=Q_MAX {
                for client in 0..4 {
                    if n <= b.route_all_rot_upto {
                        for r in 0..rots {
                            groups.push((n, r, q, client));
                        }
                    } else {
                        groups.push((n, (n + q) % rots, q, client));
                    }
                }
            }
        }
        groups.sort_by_key(|g| std::cmp::Reverse(g.0));
        let ws = crate::par::for_each_index(groups.len() as u64, 8, |_| W::new(), |w, i| {
            let (n, r, q, client) = groups[i as usize];
            w.order = ((n as u64) << 32) | ((q as u64) << 16) | ((r as u64) << 8) | ((client as u64) << 6);
            route_group::<T>(w, &env, n, r, q, client, None);
        });
        merge_all(self.total, ws);
    }
}

struct WrongSweep<'a> {
    total: &'a mut W,
    sent: &'a [Sent],
}
impl ScalarVisitor for WrongSweep<'_> {
    fn visit<R: Elem>(&mut self) {
        let env = env::<R>(&[WRONG_PATH.to_string()]);
        let sent = self.sent;
        let ws = crate::par::for_each_index(sent.len() as u64, 8, |_| W::new(), |w, i| {
            w.order = i << 8;
            wrong_type_case::<R>(w, &env, &sent[i as usize], i as usize);
        });
        merge_all(self.total, ws);
        let mut w = W::new();
        for n in [0usize, 1, 5, 23] {
            for client in 0..3 {
                for code in [0u16, 2, 3, 0x7777] {
                    wrong_format_case::<R>(&mut w, &env, n, client, code);
                }
            }
        }
        self.total.merge(w);
    }
}

// ---------------------------------------------------------------- run / replay

thread_local! {
    static IN_GUARD: Cell<bool> = const { Cell::new(false) };
}

/// Panics of the code under test (inside `guarded`) become violations and stay
/// quiet; a panic anywhere else is a harness bug and is printed.
fn silence_panics() {
    std::panic::set_hook(Box::new(|info| {
        if !IN_GUARD.with(|g| g.get()) {
            eprintln!("MACHINERY-ERROR property=C08 harness panic: {info}");
        }
    }));
}

pub fn run(tier: Tier) -> ! {
    let ctx = Ctx::new("C08", tier);
    let b = bounds(tier);
    let samples = Samples::new(6);
    let default_hook = std::panic::take_hook();
    silence_panics();
    let mut total = W::new();
    let (mut t_msg, mut t_route, mut t_wrong, mut t_tcp) = (0.0, 0.0, 0.0, 0.0);
    let swept = catch_unwind(AssertUnwindSafe(|| {
    let t0 = std::time::Instant::now();
    visit_all(&mut MsgSweep { total: &mut total, b: &b });
    complex_sweep::<f32>(&mut total, &b);
    complex_sweep::<f64>(&mut total, &b);
    t_msg = t0.elapsed().as_secs_f64();
    visit_all(&mut RouteSweep { total: &mut total, b: &b });
    t_route = t0.elapsed().as_secs_f64() - t_msg;
    let sent = build_sent();
    visit_all(&mut WrongSweep { total: &mut total, sent: &sent });
    t_wrong = t0.elapsed().as_secs_f64() - t_msg - t_route;
    {
        let rt = tokio::runtime::Builder::new_multi_thread().worker_threads(2).enable_all().build().expect("runtime");
        let mut w = W::new();
        {
            let mut emit = EmitSweep { w: &mut w, rt: &rt };
            visit_all(&mut emit);
        }
        let mut sweep = TcpSweep { w: &mut w, rt: &rt, only: None };
        let tcp_types: &[&'static str] = tier.pick(&["f64", "u8", "i16", "f16"][..], &SCALARS[..]);
        for name in tcp_types {
            visit_named(name, &mut sweep);
        }
        total.merge(w);
        rt.shutdown_background();
    }
    t_tcp = t0.elapsed().as_secs_f64() - t_msg - t_route - t_wrong;
    }));
    std::panic::set_hook(default_hook);
    if swept.is_err() {
        ctx.machinery("the harness itself panicked (see the message above); no verdict");
    }

    // violations, in canonical order
    let mut fails: Vec<(String, Fail)> = std::mem::take(&mut total.fails).into_iter().collect();
    fails.sort_by(|a, b| a.0.cmp(&b.0));
    // every recorded representative is re-executed from its case record before it is
    // reported; a case that does not reproduce is harness nondeterminism, not a verdict
    for (k, f) in &fails {
        match replay(&f.case) {
            Err(e) if e.contains(k.as_str()) => {}
            other => ctx.machinery(format!("violation {k} did not reproduce when its case {} was re-executed: {other:?}", f.case)),
        }
    }
    std::panic::set_hook(Box::new(|info| eprintln!("{info}")));
    for (k, f) in fails {
        ctx.violation(k, f.what, f.case);
    }

    let c = |x: C| total.c[x as usize];
    // non-vacuity
    if !ctx.has_violation() {
        if c(C::aligned_layout_unparsed) > 0 {
            ctx.machinery(format!("{} aligned request bodies do not have the layout marker|type|size|padlen|pad|image; the payload address cannot be predicted", c(C::aligned_layout_unparsed)));
        }
        if let Some(m) = total.machinery.first() {
            ctx.machinery(format!("{m} ({} such events)", total.machinery.len()));
        }
        let need = [
            C::bulk_eq_generic_checked,
            C::cross_bulk_to_generic_ok,
            C::cross_generic_to_bulk_ok,
            C::streamed_frames_equal,
            C::streamed_frames_size_prefix_2_or_more_bytes,
            C::aligned_borrowed,
            C::aligned_borrowed_nonzero_padding,
            C::aligned_copied_fallback,
            C::regular_form_copied,
            C::empty_slice_borrowed,
            C::route_either_rejected,
            C::wrong_type_rejected_bulk_decoder,
            C::wrong_type_rejected_slice_route,
            C::wrong_format_rejected_bulk_decoder,
            C::wrong_format_rejected_slice_route,
            C::tcp_ok_identical,
            C::tcp_rejected,
            C::emit_frames_captured,
            C::emit_aligned_frames_borrowed,
        ];
        for n in need {
            if c(n) == 0 {
                ctx.machinery(format!("vacuous exploration: counter {} is zero", C_NAMES[n as usize]));
            }
        }
        for (i, n) in total.by_type.iter().enumerate() {
            if *n == 0 {
                ctx.machinery(format!("vacuous exploration: no case for element type {}", ALL_TYPES[i]));
            }
        }
    }

    samples.offer(|| json!({"part": "msg", "type": "f64", "len": 3, "rot": 14, "q": 9, "slice_bits": make::<f64>(3, 14).iter().map(|x| format!("{:#018x}", x.to_bits())).collect::<Vec<_>>()}));
    samples.offer(|| json!({"part": "route", "type": "f64", "len": 2, "rot": 0, "q": 5, "client": "aligned", "route": "with_typed_slice_ref", "place": 0,
        "request_body_hex": hex(&client_request::<f64>(1, &path_for(5), &make::<f64>(2, 0)).body)}));
    samples.offer(|| json!({"part": "route", "type": "u16", "len": 0, "rot": 0, "q": 64, "client": "generic", "route": "with_typed_slice", "place": 7,
        "request_body_hex": hex(&client_request::<u16>(2, &path_for(64), &[]).body)}));
    samples.offer(|| json!({"part": "wrong-type", "recv": "f32", "sent": "f64", "len": 4, "client": "bulk"}));
    samples.offer(|| json!({"part": "tcp", "transport": "Client/Server", "type": "f16", "len": 64, "q": 4, "client": "aligned", "route": "with_typed_slice_ref"}));

    if c(C::wrong_type_generic_route_coerced) > 0 {
        ctx.note(format!(
            "informational: the serde route (with_typed::<Vec<T>>) accepted {} of {} bodies of another numeric element type by beve's value coercion; the bulk decoders rejected all {} (the rejection clause is judged on the bulk decoders only)",
            c(C::wrong_type_generic_route_coerced),
            c(C::wrong_type_generic_route_coerced) + c(C::wrong_type_generic_route_rejected),
            c(C::wrong_type_rejected_slice_route) + c(C::wrong_type_rejected_bulk_decoder),
        ));
    }
    let states = c(C::msg_cases) + c(C::route_cases) + c(C::wrong_cases) + c(C::tcp_cases);
    let mut counters = serde_json::Map::new();
    for (i, name) in C_NAMES.iter().enumerate() {
        counters.insert((*name).into(), json!(total.c[i]));
    }
    let by_type: serde_json::Map<String, Value> = ALL_TYPES.iter().enumerate().map(|(i, n)| ((*n).to_string(), json!(total.by_type[i]))).collect();
    let empty_matrix: serde_json::Map<String, Value> = total.empty_class.iter().map(|(k, n)| (k.clone(), json!(n))).collect();
    let coverage = json!({
        "states": states,
        "transitions": c(C::impl_calls),
        "traces_validated_against_impl": states,
        "samples": samples.take(),
        "exhaustive": true,
        "rule": "part msg: every (element type, length, rotation of the type's boundary set) at query length (len+3*rot)%65, plus rotation 0 at every query length 0..=64 for len<=256; part route: every (type, length, query length, client in {bulk,aligned,generic,aligned with the body handed to the builder before the query}) x route in {with_typed_slice,with_typed_slice_ref,with_typed} x placement in {handle_view at misalignment 0..7 of an 8-aligned buffer, handle on an owned Message}; part wrong: every (sent type incl. complex, client form, length) x every other receiver type x 3 routes x 3 placements, and 4 wrong header body formats; part tcp: real Client/Server and AsyncClient/AsyncServer helpers",
        "bound": {
            "element_types": ALL_TYPES,
            "lengths_msg": tier.pick(format!("0..={SMALL_MAX} and {SPECIAL_LENS:?}"), "0..=4096 and [16383, 16384, 65537]".to_string()),
            "lengths_route": tier.pick(format!("0..={SMALL_MAX} and {SPECIAL_LENS:?}"), "0..=4096 and [16383, 16384, 65535, 65536, 65537]".to_string()),
            "lengths_count": [b.lens.len(), b.route_lens.len()],
            "rotations_msg": if b.big_rots == usize::MAX { "all rotations of the boundary set at every length".to_string() } else { format!("all rotations of the boundary set for len<={}, first {} for longer", b.msg_all_rot_upto, b.big_rots) },
            "rotations_route": format!("all rotations for len<={}, rotation (len+q)%|set| above", b.route_all_rot_upto),
            "query_lengths": format!("0..={Q_MAX}"),
            "misalignments": "0..=7 (handle_view) + owned dispatch (handle)",
            "wrong_type_lengths": WRONG_LENS,
            "wrong_formats": [0, 2, 3, 0x7777],
            "tcp": {"lengths": TCP_LENS, "path_lengths": TCP_QS.iter().map(|q| q + 2).collect::<Vec<_>>(), "types": tier.pick(4, 12)},
        },
        "alphabet": {"clients": CLIENTS, "routes": ROUTES, "boundary_set_sizes": {"unsigned": rotations::<u8>(), "signed": rotations::<i8>(), "float": rotations::<f32>()}},
        "nonvacuity": counters,
        "cases_by_type": by_type,
        "empty_vector_class_by_entry_and_type": empty_matrix,
        "phase_wall_s": {"msg": t_msg, "route": t_route, "wrong": t_wrong, "tcp": t_tcp},
    });
    ctx.finish(
        "model_checking",
        coverage,
        &[
            "\"the generic encoding\" is beve::to_vec / beve::from_slice (what body_beve, beve_body, with_typed and call_typed_beve use)",
            "element values come from per-type boundary sets; other values are not tried (the bulk paths are value-independent copies, the serde paths are per-element)",
            "i128/u128 and Complex of non-float components are outside the property's type list",
            "little-endian host; an 8-aligned backing buffer stands for the connection's receive buffer",
            "a serde (with_typed) route that accepts a body of another numeric type by value coercion is counted, not judged: the rejection clause is scoped to the bulk decoders",
            "over TCP the receive-buffer address is the allocator's; borrowed-vs-copied is only judged in the in-memory part",
        ],
    )
}

struct ReplayOne<'a> {
    case: &'a Value,
    w: W,
    sent: Option<Vec<Sent>>,
}
impl ScalarVisitor for ReplayOne<'_> {
    fn visit<T: Elem>(&mut self) {
        let c = self.case;
        let u = |k: &str| c[k].as_u64().unwrap_or(0) as usize;
        match c["part"].as_str().unwrap_or("") {
            "msg" => msg_case::<T>(&mut self.w, u("len"), u("rot"), u("q")),
            "route" => {
                let paths: Vec<String> = (0..=Q_MAX).map(path_for).collect();
                let env = env::<T>(&paths);
                let client = CLIENTS.iter().position(|x| Some(*x) == c["client"].as_str()).unwrap_or(0);
                let only = match (c["route"].as_str(), c.get("place").and_then(|p| p.as_u64())) {
                    (Some(r), Some(p)) => ROUTES.iter().position(|x| *x == r).map(|r| (r, p as usize)),
                    _ => None,
                };
                route_group::<T>(&mut self.w, &env, u("len"), u("rot"), u("q"), client, only);
            }
            "wrong-type" => {
                let env = env::<T>(&[WRONG_PATH.to_string()]);
                let sent = self.sent.take().unwrap_or_else(build_sent);
                if let Some(s) = sent.get(u("sent_index")) {
                    wrong_type_case::<T>(&mut self.w, &env, s, u("sent_index"));
                }
            }
            "wrong-format" => {
                let env = env::<T>(&[WRONG_PATH.to_string()]);
                let client = CLIENTS.iter().position(|x| Some(*x) == c["client"].as_str()).unwrap_or(0);
                wrong_format_case::<T>(&mut self.w, &env, u("len"), client, u("format") as u16);
            }
            _ => {}
        }
    }
}

pub fn replay(case: &Value) -> Result<(), String> {
    silence_panics();
    let part = case["part"].as_str().unwrap_or("");
    let mut w = W::new();
    match part {
        "complex" => {
            let u = |k: &str| case[k].as_u64().unwrap_or(0) as usize;
            match case["type"].as_str() {
                Some("c32") => complex_case::<f32>(&mut w, u("len"), u("rot"), u("q")),
                Some("c64") => complex_case::<f64>(&mut w, u("len"), u("rot"), u("q")),
                _ => return Err("unknown complex type".into()),
            }
        }
        "tcp" => {
            let rt = tokio::runtime::Builder::new_multi_thread().worker_threads(2).enable_all().build().map_err(|e| e.to_string())?;
            let mut sweep = TcpSweep { w: &mut w, rt: &rt, only: Some(case) };
            if !visit_named(case["type"].as_str().unwrap_or(""), &mut sweep) {
                return Err("unknown type".into());
            }
            rt.shutdown_background();
        }
        "emit" => {
            // the whole emit sweep for that element type (a few hundred calls)
            let rt = tokio::runtime::Builder::new_multi_thread().worker_threads(2).enable_all().build().map_err(|e| e.to_string())?;
            let mut sweep = EmitSweep { w: &mut w, rt: &rt };
            if !visit_named(case["type"].as_str().unwrap_or(""), &mut sweep) {
                return Err("unknown type".into());
            }
            rt.shutdown_background();
        }
        "msg" | "route" | "wrong-type" | "wrong-format" => {
            let ty = if part == "wrong-type" { case["recv"].as_str() } else { case["type"].as_str() };
            let mut r = ReplayOne { case, w, sent: None };
            if !visit_named(ty.unwrap_or(""), &mut r) {
                return Err("unknown element type".into());
            }
            w = r.w;
        }
        _ => return Err(format!("unknown part {part:?}")),
    }
    if w.fails.is_empty() {
        Ok(())
    } else {
        Err(w.fails.iter().map(|(k, f)| format!("{k}: {}", f.what)).collect::<Vec<_>>().join("\n"))
    }
}
