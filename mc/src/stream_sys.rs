//! Real `repe::TransferControl` driven by operation histories, next to an
//! exact reference model. Used by C11 (credit accounting) and C13 (replay ring).
//!
//! Oracle clauses are tagged with the property that states them; a run for one
//! property only reports its own clauses. Divergence from the *exact* model on
//! points the properties do not state is reported as a note, never a violation.

use crate::explore::{Bad, Key, Outcome, System, key_of};
use repe::{
    CreditError, NotifyBody, PeerHandle, PeerId, PeerSendError, PeerSink, ReconnectOutcome,
    ResumeRejection, TransferControl,
};
use std::sync::Arc;
use std::time::{Duration, Instant};

struct NullSink;
impl PeerSink for NullSink {
    fn send_notify(&self, _m: &str, _b: NotifyBody) -> Result<(), PeerSendError> {
        Ok(())
    }
}

#[derive(Clone, Copy, PartialEq, Eq, Debug)]
pub enum Which {
    C11,
    C13,
}

#[derive(Clone, Debug, PartialEq, Eq, Hash)]
pub struct Chunk {
    pub file: u32,
    pub offset: u64,
    pub data_len: u64,
    pub wire_len: u64,
    pub last: bool,
}

impl Chunk {
    pub fn body(&self) -> Vec<u8> {
        // deterministic content that identifies (file, offset, data_len, last)
        let tag = [
            self.file as u8,
            self.offset as u8,
            (self.offset >> 8) as u8,
            self.data_len as u8,
            self.last as u8,
            0xC3,
        ];
        (0..self.wire_len as usize).map(|i| tag[i % tag.len()] ^ (i / tag.len()) as u8).collect()
    }
}

/// Concrete operation (arguments already resolved).
#[derive(Clone, Debug)]
pub enum Op {
    /// documented loop: wait_for_credit(c, expired) and, iff granted, push_replay + record_sent
    Produce { c: u64, overhead: u64, last: bool },
    /// push_replay + record_sent without asking for credit (hostile producer)
    SendUnchecked { c: u64 },
    /// push only (C13: the ring is filled, record_sent separately)
    Push { data_len: u64, overhead: u64, last: bool },
    RecordSent(u64),
    Ack { file: u32, off: u64 },
    Advance(u32),
    Resume { file: u32, off: u64 },
    Cancel(&'static str),
    ReconnectWait,
    CreditProbe(u64),
}

#[derive(Clone, Hash, PartialEq, Eq, Debug)]
pub struct Model {
    pub window: u64,
    pub cap: u64,
    pub sent: u64,
    pub acked: u64,
    pub file: u32,
    pub cancelled: Option<&'static str>,
    /// everything pushed since the last advance (oracle memory)
    pub pushed: Vec<Chunk>,
    /// index of the first chunk retained under the exact eviction policy
    pub ring_start: usize,
    pub pending: Option<u64>,
    pub peer: Option<u64>,
    pub next_peer: u64,
    /// highest offset the receiver has claimed for the CURRENT file (acks for this file, uncapped, and
    /// accepted resumes) since the last advance: the implementation's acknowledged offset can never be above
    /// it, or credit was released by something that is not an acknowledgement for this file. Oracle memory
    /// only: not part of the canonical state (each check runs on a real history with its own value).
    pub claim_high: u64,
    /// true while every send so far followed the documented loop
    pub loop_only: bool,
    pub last_chunk: u64,
}

impl Model {
    pub fn new(window: u64, cap: u64) -> Self {
        Model {
            window,
            cap,
            sent: 0,
            acked: 0,
            file: 0,
            cancelled: None,
            pushed: Vec::new(),
            ring_start: 0,
            pending: None,
            peer: None,
            next_peer: 1,
            loop_only: true,
            last_chunk: 0,
            claim_high: 0,
        }
    }
    pub fn emitted_end(&self) -> u64 {
        self.pushed.last().map(|c| c.offset + c.data_len).unwrap_or(0)
    }
    pub fn retained(&self) -> &[Chunk] {
        &self.pushed[self.ring_start..]
    }
    fn grant(&self, c: u64) -> bool {
        let inflight = self.sent.saturating_sub(self.acked);
        inflight == 0 || inflight.saturating_add(c) <= self.window
    }
    fn push(&mut self, data_len: u64, wire_len: u64, last: bool) -> Chunk {
        let ch = Chunk {
            file: self.file,
            offset: self.emitted_end(),
            data_len,
            wire_len,
            last,
        };
        self.pushed.push(ch.clone());
        let mut held: u64 = self.retained().iter().map(|c| c.wire_len).sum();
        while held > self.cap && self.pushed.len() - self.ring_start > 1 {
            held -= self.pushed[self.ring_start].wire_len;
            self.ring_start += 1;
        }
        ch
    }
    fn covers(&self, off: u64) -> bool {
        let r = self.retained();
        if r.is_empty() {
            return off == 0;
        }
        r.iter().any(|c| c.offset == off) || self.emitted_end() == off
    }
    /// canonical projection for state merging
    fn canon(&self) -> impl std::hash::Hash + '_ {
        (
            self.sent,
            self.acked,
            self.file,
            self.cancelled,
            self.retained(),
            self.emitted_end(),
            self.pending,
            self.peer,
            self.loop_only,
            self.last_chunk,
        )
    }
}

pub struct Impl {
    pub tc: Arc<TransferControl>,
}

fn peer(id: u64) -> PeerHandle {
    PeerHandle::new(PeerId(id), Arc::new(NullSink))
}

#[derive(Debug, PartialEq, Eq, Hash, Clone)]
pub struct Obs {
    sent: u64,
    acked: u64,
    cancelled: bool,
    reason: Option<String>,
    ring: Vec<(u64, u64, bool, u64)>,
    peer: Option<u64>,
}

impl Impl {
    pub fn new(window: u64, cap: u64) -> Self {
        Impl { tc: TransferControl::with_replay_capacity(window, cap) }
    }
    pub fn observe(&self) -> (Obs, Vec<repe::RingChunk>) {
        let (sent, acked) = self.tc.offsets();
        let chunks = self.tc.replay_chunks_from(0);
        (
            Obs {
                sent,
                acked,
                cancelled: self.tc.is_cancelled(),
                reason: self.tc.cancel_reason(),
                ring: chunks
                    .iter()
                    .map(|c| (c.offset, c.data_len, c.last, c.body_bytes.len() as u64))
                    .collect(),
                peer: self.tc.peer().map(|p| p.peer_id().0),
            },
            chunks,
        )
    }
}

pub struct StreamSys {
    pub which: Which,
    pub window: u64,
    pub cap: u64,
    pub alphabet: Vec<Letter>,
}

/// Letters carry arguments *relative to the current model state*.
#[derive(Clone, Copy, Debug, PartialEq, Eq)]
pub enum Letter {
    Produce(u64),
    ProduceWin(i64),
    SendUnchecked(u64),
    AckCur(Rel),
    AckOther(i32),
    AdvanceNext,
    AdvanceSame,
    ResumeCur(RingPos),
    ResumeOther,
    Cancel(&'static str),
    ReconnectWait,
    RecordSentLower,
    RecordSentEnd,
    Push(u64, u64, bool),
}

#[derive(Clone, Copy, Debug, PartialEq, Eq)]
pub enum Rel {
    Zero,
    AckedMinus1,
    Acked,
    AckedPlus1,
    SentMinus1,
    Sent,
    SentPlus1,
    Max,
}

#[derive(Clone, Copy, Debug, PartialEq, Eq)]
pub enum RingPos {
    Zero,
    Retained(usize),
    LastRetained,
    MidChunk,
    End,
    EndPlus1,
    Evicted,
    Max,
    Sent,
    AckedPlus1,
}

pub const F_GRANT: u64 = 1 << 0;
pub const F_DENY: u64 = 1 << 1;
pub const F_OVERSIZED_GRANT: u64 = 1 << 2;
pub const F_ACK_CAPPED: u64 = 1 << 3;
pub const F_RESUME_OK: u64 = 1 << 4;
pub const F_RESUME_REJ: u64 = 1 << 5;
pub const F_EVICT: u64 = 1 << 6;
pub const F_RESUME_READY: u64 = 1 << 7;
pub const F_CANCELLED_WAIT: u64 = 1 << 8;
pub const F_REPLAY_NONEMPTY: u64 = 1 << 9;
pub const F_STALE_ACK: u64 = 1 << 10;
pub const F_RESUME_FREED_CREDIT: u64 = 1 << 11;
pub const F_MODEL_DIVERGED: u64 = 1 << 15;

pub fn flag_names() -> Vec<(&'static str, u64)> {
    vec![
        ("credit_granted", F_GRANT),
        ("credit_denied", F_DENY),
        ("oversized_granted_when_idle", F_OVERSIZED_GRANT),
        ("ack_capped_to_sent", F_ACK_CAPPED),
        ("resume_accepted", F_RESUME_OK),
        ("resume_rejected", F_RESUME_REJ),
        ("ring_evicted", F_EVICT),
        ("resume_ready_consumed", F_RESUME_READY),
        ("wait_reported_cancel", F_CANCELLED_WAIT),
        ("replay_tail_nonempty", F_REPLAY_NONEMPTY),
        ("stale_or_foreign_ack", F_STALE_ACK),
        ("resume_freed_credit", F_RESUME_FREED_CREDIT),
        ("exact_model_divergence(note only)", F_MODEL_DIVERGED),
    ]
}

impl StreamSys {
    pub fn c11(window: u64) -> Self {
        let mut a = vec![
            Letter::Produce(0),
            Letter::Produce(1),
            Letter::ProduceWin(-1),
            Letter::ProduceWin(0),
            Letter::ProduceWin(1),
            Letter::Produce(1 << 48),
            Letter::SendUnchecked(2),
        ];
        // drop letters that resolve to the same chunk length for this window
        let mut seen = Vec::new();
        a.retain(|l| match l {
            Letter::Produce(_) | Letter::ProduceWin(_) => match Self::produce_len(*l, window) {
                Some(c) if !seen.contains(&c) => {
                    seen.push(c);
                    true
                }
                _ => false,
            },
            _ => true,
        });
        for r in [
            Rel::Zero,
            Rel::AckedMinus1,
            Rel::Acked,
            Rel::AckedPlus1,
            Rel::SentMinus1,
            Rel::Sent,
            Rel::SentPlus1,
            Rel::Max,
        ] {
            a.push(Letter::AckCur(r));
        }
        a.extend([
            Letter::AckOther(1),
            Letter::AckOther(-1),
            Letter::AdvanceNext,
            Letter::AdvanceSame,
            Letter::ResumeCur(RingPos::Zero),
            Letter::ResumeCur(RingPos::Sent),
            Letter::ResumeCur(RingPos::AckedPlus1),
            Letter::ResumeCur(RingPos::LastRetained),
            Letter::ResumeCur(RingPos::End),
            Letter::ResumeOther,
            Letter::Push(2, 0, false),
            Letter::Cancel("a"),
            Letter::Cancel("b"),
            Letter::ReconnectWait,
            Letter::RecordSentLower,
        ]);
        StreamSys { which: Which::C11, window, cap: 6, alphabet: a }
    }

    fn produce_len(l: Letter, window: u64) -> Option<u64> {
        match l {
            Letter::Produce(c) => Some(c),
            Letter::ProduceWin(d) => {
                let v = window as i128 + d as i128;
                if v < 0 || v > (1i128 << 48) { None } else { Some(v as u64) }
            }
            _ => None,
        }
    }

    pub fn c13(cap: u64) -> Self {
        let a = vec![
            Letter::Push(1, 0, false),
            Letter::Push(2, 1, false),
            Letter::Push(5, 0, false),
            Letter::Push(5, 7, false),
            Letter::Push(0, 1, false),
            Letter::Push(0, 0, false),
            Letter::Push(1, 0, true),
            Letter::ResumeCur(RingPos::Zero),
            Letter::ResumeCur(RingPos::Retained(0)),
            Letter::ResumeCur(RingPos::Retained(1)),
            Letter::ResumeCur(RingPos::LastRetained),
            Letter::ResumeCur(RingPos::MidChunk),
            Letter::ResumeCur(RingPos::End),
            Letter::ResumeCur(RingPos::EndPlus1),
            Letter::ResumeCur(RingPos::Evicted),
            Letter::ResumeCur(RingPos::Max),
            Letter::ResumeOther,
            Letter::AdvanceNext,
            Letter::Cancel("a"),
            Letter::ReconnectWait,
            Letter::RecordSentEnd,
            Letter::AckCur(Rel::Sent),
        ];
        StreamSys { which: Which::C13, window: 8, cap, alphabet: a }
    }

    pub fn resolve(&self, l: Letter, m: &Model) -> Option<Op> {
        Some(match l {
            Letter::Produce(_) | Letter::ProduceWin(_) => Op::Produce {
                c: Self::produce_len(l, self.window)?,
                overhead: 0,
                last: false,
            },
            Letter::SendUnchecked(c) => Op::SendUnchecked { c },
            Letter::AckCur(r) => Op::Ack {
                file: m.file,
                off: match r {
                    Rel::Zero => 0,
                    Rel::AckedMinus1 => m.acked.checked_sub(1)?,
                    Rel::Acked => m.acked,
                    Rel::AckedPlus1 => m.acked + 1,
                    Rel::SentMinus1 => m.sent.checked_sub(1)?,
                    Rel::Sent => m.sent,
                    Rel::SentPlus1 => m.sent + 1,
                    Rel::Max => u64::MAX,
                },
            },
            Letter::AckOther(d) => Op::Ack { file: m.file.wrapping_add(d as u32), off: m.sent },
            Letter::AdvanceNext => Op::Advance(m.file.wrapping_add(1)),
            Letter::AdvanceSame => Op::Advance(m.file),
            Letter::ResumeCur(p) => {
                let r = m.retained();
                let off = match p {
                    RingPos::Zero => 0,
                    RingPos::Retained(i) => r.get(i)?.offset,
                    RingPos::LastRetained => r.last()?.offset,
                    RingPos::MidChunk => {
                        let c = r.iter().find(|c| c.data_len >= 2)?;
                        c.offset + 1
                    }
                    RingPos::End => m.emitted_end(),
                    RingPos::EndPlus1 => m.emitted_end() + 1,
                    RingPos::Evicted => {
                        if m.ring_start == 0 {
                            return None;
                        }
                        m.pushed[m.ring_start - 1].offset
                    }
                    RingPos::Max => u64::MAX,
                    RingPos::Sent => m.sent,
                    RingPos::AckedPlus1 => m.acked + 1,
                };
                Op::Resume { file: m.file, off }
            }
            Letter::ResumeOther => Op::Resume { file: m.file.wrapping_add(1), off: m.emitted_end() },
            Letter::Cancel(r) => Op::Cancel(r),
            Letter::ReconnectWait => Op::ReconnectWait,
            Letter::RecordSentLower => Op::RecordSent(m.sent.checked_sub(1)?),
            Letter::RecordSentEnd => Op::RecordSent(m.emitted_end()),
            Letter::Push(d, o, last) => Op::Push { data_len: d, overhead: o, last },
        })
    }
}

struct Run<'a> {
    sys: &'a StreamSys,
    imp: Impl,
    m: Model,
    bad: Vec<Bad>,
    flags: u64,
    step: usize,
    checking: bool,
}

impl<'a> Run<'a> {
    fn fail(&mut self, which: Which, key: &str, what: String) {
        if which == self.sys.which && self.checking {
            self.bad.push(Bad { key: key.to_string(), what, step: self.step });
        }
    }

    fn apply(&mut self, op: &Op) {
        let (before, ring_before) = self.imp.observe();
        let tc = self.imp.tc.clone();
        match op {
            Op::Produce { c, overhead, last } => {
                let r = tc.wait_for_credit(*c, Instant::now());
                let inflight = before.sent.saturating_sub(before.acked);
                let fits = inflight == 0 || inflight.saturating_add(*c) <= self.sys.window;
                match &r {
                    Ok(()) => {
                        self.flags |= F_GRANT;
                        if inflight == 0 && *c > self.sys.window {
                            self.flags |= F_OVERSIZED_GRANT;
                        }
                        if !fits {
                            self.fail(Which::C11, "C11:over-grant", format!(
                                "credit for {c} bytes granted with {inflight} in flight, window {}",
                                self.sys.window));
                        }
                        if self.m.cancelled.is_some() {
                            self.fail(Which::C11, "C11:grant-after-cancel",
                                "credit granted after cancel".into());
                        }
                    }
                    Err(CreditError::Cancelled(reason)) => {
                        self.flags |= F_CANCELLED_WAIT;
                        match self.m.cancelled {
                            None => self.fail(Which::C11, "C11:spurious-cancel",
                                format!("wait_for_credit reported Cancelled({reason}) without a cancel")),
                            Some(r0) if r0 != reason => self.fail(Which::C11, "C11:cancel-reason",
                                format!("wait_for_credit reported reason {reason:?}, first reason was {r0:?}")),
                            _ => {}
                        }
                    }
                    Err(CreditError::Timeout) => {
                        self.flags |= F_DENY;
                        if self.m.cancelled.is_some() {
                            self.fail(Which::C11, "C11:cancel-not-reported",
                                "wait_for_credit returned Timeout after cancel".into());
                        }
                    }
                }
                let model_grant = self.m.cancelled.is_none() && self.m.grant(*c);
                if model_grant != r.is_ok() {
                    self.flags |= F_MODEL_DIVERGED;
                }
                if r.is_ok() {
                    let ch = self.m.push(*c, c.min(&8) + overhead, *last);
                    tc.push_replay(ch.offset, ch.data_len, ch.last, ch.body());
                    // the documented loop: record_sent(offset at which this chunk ends)
                    let end = ch.offset + ch.data_len;
                    tc.record_sent(end);
                    self.m.sent = self.m.sent.max(end);
                    self.m.last_chunk = *c;
                }
            }
            Op::SendUnchecked { c } => {
                let ch = self.m.push(*c, *c, false);
                tc.push_replay(ch.offset, ch.data_len, ch.last, ch.body());
                let end = ch.offset + ch.data_len;
                tc.record_sent(end);
                self.m.sent = self.m.sent.max(end);
                self.m.loop_only = false;
            }
            Op::Push { data_len, overhead, last } => {
                let was = self.m.ring_start;
                // pushed but never recorded as sent (the send failed, or C13 fills the ring)
                self.m.loop_only = false;
                let ch = self.m.push(*data_len, data_len + overhead, *last);
                if self.m.ring_start != was {
                    self.flags |= F_EVICT;
                }
                tc.push_replay(ch.offset, ch.data_len, ch.last, ch.body());
            }
            Op::RecordSent(v) => {
                tc.record_sent(*v);
                if *v > self.m.sent {
                    self.m.sent = *v;
                }
            }
            Op::Ack { file, off } => {
                tc.record_ack(*file, *off);
                let (s2, a2) = tc.offsets();
                let stale = *file != self.m.file || *off <= before.acked;
                if stale {
                    self.flags |= F_STALE_ACK;
                    if (s2, a2) != (before.sent, before.acked) {
                        self.fail(Which::C11, "C11:stale-ack-released-credit", format!(
                            "ack(file {file}, off {off}) with current file {} and acked {} changed offsets {:?} -> {:?}",
                            self.m.file, before.acked, (before.sent, before.acked), (s2, a2)));
                    }
                }
                if *file == self.m.file {
                    self.m.claim_high = self.m.claim_high.max(*off);
                    let capped = (*off).min(self.m.sent);
                    if *off > self.m.sent {
                        self.flags |= F_ACK_CAPPED;
                    }
                    if capped > self.m.acked {
                        self.m.acked = capped;
                    }
                }
            }
            Op::Advance(f) => {
                tc.advance_to_file(*f);
                self.m.file = *f;
                self.m.sent = 0;
                self.m.acked = 0;
                self.m.claim_high = 0;
                self.m.pushed.clear();
                self.m.ring_start = 0;
                self.m.pending = None;
                let (_, ring) = self.imp.observe();
                if !ring.is_empty() {
                    self.fail(Which::C13, "C13:advance-keeps-ring",
                        format!("replay buffer holds {} chunks after advance_to_file", ring.len()));
                }
            }
            Op::Resume { file, off } => {
                let id = self.m.next_peer;
                self.m.next_peer += 1;
                let r = tc.request_resume(peer(id), *file, *off);
                match &r {
                    Ok(ret) => {
                        self.flags |= F_RESUME_OK;
                        // --- C11: refused after cancel
                        if self.m.cancelled.is_some() {
                            self.fail(Which::C11, "C11:resume-after-cancel",
                                "request_resume accepted after cancel".into());
                            self.fail(Which::C13, "C13:resume-after-cancel",
                                "request_resume accepted after cancel".into());
                        }
                        if *file != self.m.file {
                            self.fail(Which::C13, "C13:resume-wrong-file", format!(
                                "resume for file {file} accepted while current file is {}", self.m.file));
                        }
                        // acceptance only at a retained boundary / trailing edge / zero-on-empty,
                        // judged against the ring the implementation itself exposed
                        let end = self.m.emitted_end();
                        let at_boundary = ring_before.iter().any(|c| c.offset == *off);
                        let ok = at_boundary
                            || (!ring_before.is_empty() && *off == end)
                            || (ring_before.is_empty() && *off == 0);
                        if !ok {
                            self.fail(Which::C13, "C13:resume-accepted-off-boundary", format!(
                                "resume at offset {off} accepted; retained chunk starts {:?}, emitted end {end}",
                                ring_before.iter().map(|c| c.offset).collect::<Vec<_>>()));
                        }
                        if *ret != *off {
                            self.fail(Which::C13, "C13:resume-return", format!(
                                "request_resume({off}) returned {ret}"));
                        }
                        // replay tail: suffix of what was pushed, starting exactly at off, to the end
                        let tail = tc.replay_chunks_from(*off);
                        self.check_tail(*off, &tail);
                        if !tail.is_empty() {
                            self.flags |= F_REPLAY_NONEMPTY;
                        }
                        let p = tc.peer().map(|p| p.peer_id().0);
                        if p != Some(id) {
                            self.fail(Which::C13, "C13:resume-peer", format!(
                                "peer() is {p:?} after an accepted resume installing peer {id}"));
                        }
                        // an accepted resume is the receiver's claim to hold everything below `off`
                        self.m.claim_high = self.m.claim_high.max(*off);
                        // exact model
                        if self.m.cancelled.is_none() && *file == self.m.file && self.m.covers(*off) {
                            self.m.peer = Some(id);
                            self.m.pending = Some(*off);
                            if *off > self.m.acked && *off <= self.m.sent {
                                self.m.acked = *off;
                                self.flags |= F_RESUME_FREED_CREDIT;
                            }
                        } else {
                            self.flags |= F_MODEL_DIVERGED;
                            self.m.peer = Some(id);
                            self.m.pending = Some(*off);
                        }
                    }
                    Err(rej) => {
                        self.flags |= F_RESUME_REJ;
                        if self.m.cancelled.is_some() && *rej != ResumeRejection::Cancelled {
                            // still refused, which is what C11 states; the reason string is not stated
                        }
                        let would = self.m.cancelled.is_none() && *file == self.m.file && self.m.covers(*off);
                        if would {
                            self.flags |= F_MODEL_DIVERGED;
                        }
                        // a refused resume must not install the peer or stage anything
                        let p = tc.peer().map(|p| p.peer_id().0);
                        if p != before.peer {
                            self.fail(Which::C13, "C13:rejected-resume-installed-peer", format!(
                                "rejected resume changed peer() {:?} -> {p:?}", before.peer));
                        }
                    }
                }
            }
            Op::Cancel(r) => {
                tc.cancel(*r);
                if self.m.cancelled.is_none() {
                    self.m.cancelled = Some(r);
                }
            }
            Op::ReconnectWait => {
                let r = tc.wait_for_reconnect(Duration::ZERO);
                match (&r, self.m.cancelled) {
                    (ReconnectOutcome::Cancelled(reason), Some(r0)) => {
                        self.flags |= F_CANCELLED_WAIT;
                        if reason != r0 {
                            self.fail(Which::C11, "C11:cancel-reason", format!(
                                "wait_for_reconnect reported reason {reason:?}, first reason was {r0:?}"));
                        }
                    }
                    (ReconnectOutcome::Cancelled(reason), None) => {
                        self.fail(Which::C11, "C11:spurious-cancel", format!(
                            "wait_for_reconnect reported Cancelled({reason}) without a cancel"));
                    }
                    (_, Some(_)) => {
                        self.fail(Which::C11, "C11:cancel-not-reported", format!(
                            "wait_for_reconnect returned {r:?} after cancel"));
                    }
                    (ReconnectOutcome::ResumeReady(p), None) => {
                        self.flags |= F_RESUME_READY;
                        match self.m.pending {
                            Some(off) if off == p.resume_at_offset => {}
                            Some(off) => self.fail(Which::C13, "C13:resume-ready-offset", format!(
                                "ResumeReady({}) but the accepted resume was at {off}", p.resume_at_offset)),
                            None => self.fail(Which::C13, "C13:resume-ready-stale", format!(
                                "ResumeReady({}) with no accepted resume outstanding (already consumed or discarded by advance)",
                                p.resume_at_offset)),
                        }
                        self.m.pending = None;
                    }
                    (ReconnectOutcome::Timeout, None) => {
                        if let Some(off) = self.m.pending {
                            self.fail(Which::C13, "C13:resume-lost", format!(
                                "accepted resume at {off} was never delivered to wait_for_reconnect"));
                            self.m.pending = None;
                        }
                    }
                }
            }
            Op::CreditProbe(_) => {}
        }
        self.invariants(&before);
    }

    fn check_tail(&mut self, off: u64, tail: &[repe::RingChunk]) {
        let pushed = self.m.pushed.clone();
        let end = self.m.emitted_end();
        if tail.is_empty() {
            if off != end {
                self.fail(Which::C13, "C13:replay-gap", format!(
                    "accepted resume at {off}: nothing offered for replay but emitted end is {end}"));
            }
            return;
        }
        if tail.len() > pushed.len() {
            self.fail(Which::C13, "C13:replay-foreign", "replay offers more chunks than were pushed".into());
            return;
        }
        let start = pushed.len() - tail.len();
        for (i, t) in tail.iter().enumerate() {
            let p = &pushed[start + i];
            if t.offset != p.offset || t.data_len != p.data_len || t.last != p.last
                || *t.body_bytes != p.body()
            {
                self.fail(Which::C13, "C13:replay-not-a-suffix", format!(
                    "replay chunk {i} (offset {}, len {}) is not the chunk originally sent there (offset {}, len {}) or its bytes differ",
                    t.offset, t.data_len, p.offset, p.data_len));
                return;
            }
        }
        if tail[0].offset != off {
            self.fail(Which::C13, "C13:replay-start", format!(
                "accepted resume at {off}: replay starts at {}", tail[0].offset));
        }
        // every pushed chunk with offset >= off and non-zero length must be in the tail (no gap)
        if let Some(missing) = pushed[..start].iter().find(|c| c.offset >= off && c.data_len > 0) {
            self.fail(Which::C13, "C13:replay-gap", format!(
                "accepted resume at {off}: chunk at offset {} (len {}) is not replayed", missing.offset, missing.data_len));
        }
    }

    fn invariants(&mut self, before: &Obs) {
        let (o, ring) = self.imp.observe();
        // ---- C11
        if o.acked > o.sent {
            self.fail(Which::C11, "C11:acked-exceeds-sent", format!(
                "acked {} > sent {}", o.acked, o.sent));
        }
        if o.acked > self.m.claim_high {
            self.fail(Which::C11, "C11:credit-released-without-ack-for-this-file", format!(
                "acknowledged offset is {} (sent {}), but the highest offset the receiver has acknowledged (or resumed at) for the current file {} is {}",
                o.acked, o.sent, self.m.file, self.m.claim_high));
        }
        match (self.m.cancelled, &o.reason, o.cancelled) {
            (Some(r0), Some(r), true) if r == r0 => {}
            (None, None, false) => {}
            (Some(r0), r, c) => self.fail(Which::C11, "C11:cancel-not-sticky", format!(
                "first cancel reason {r0:?}, but is_cancelled()={c}, cancel_reason()={r:?}")),
            (None, r, c) => self.fail(Which::C11, "C11:spurious-cancel", format!(
                "never cancelled, but is_cancelled()={c}, cancel_reason()={r:?}")),
        }
        if self.m.loop_only {
            let inflight = o.sent.saturating_sub(o.acked);
            let bound = self.sys.window.max(self.m.last_chunk);
            if inflight > bound {
                self.fail(Which::C11, "C11:window-exceeded", format!(
                    "documented loop has {inflight} bytes unacknowledged; window {}, last chunk {}",
                    self.sys.window, self.m.last_chunk));
            }
        }
        // ---- C13 ring invariants, against what was pushed
        let pushed = self.m.pushed.clone();
        if ring.len() > pushed.len() {
            self.fail(Which::C13, "C13:ring-foreign", "ring holds chunks that were never pushed in this file".into());
        } else {
            let start = pushed.len() - ring.len();
            let suffix_ok = ring.iter().zip(&pushed[start..]).all(|(t, p)| {
                t.offset == p.offset && t.data_len == p.data_len && t.last == p.last
                    && t.body_bytes.len() as u64 == p.wire_len && *t.body_bytes == p.body()
            });
            if !suffix_ok {
                self.fail(Which::C13, "C13:ring-not-a-suffix",
                    "retained chunks are not the most recent pushed chunks in order".into());
            }
            if !pushed.is_empty() && ring.is_empty() {
                self.fail(Which::C13, "C13:ring-dropped-latest",
                    "most recent chunk is not retained".into());
            }
            let held: u64 = ring.iter().map(|c| c.body_bytes.len() as u64).sum();
            if held > self.sys.cap && ring.len() > 1 {
                self.fail(Which::C13, "C13:ring-over-capacity", format!(
                    "ring holds {held} wire bytes in {} chunks, capacity {}", ring.len(), self.sys.cap));
            }
        }
        // exact-model comparison (note only)
        let exact = o.sent == self.m.sent
            && o.acked == self.m.acked
            && o.peer == self.m.peer
            && ring.len() == self.m.retained().len();
        if !exact {
            self.flags |= F_MODEL_DIVERGED;
        }
        let _ = before;
    }
}

impl System for StreamSys {
    fn letters(&self) -> usize {
        self.alphabet.len()
    }
    fn letter_name(&self, l: u8) -> String {
        format!("{:?}", self.alphabet[l as usize])
    }
    fn run(&self, history: &[u8], check_from: usize) -> Outcome {
        let mut run = Run {
            sys: self,
            imp: Impl::new(self.window, self.cap),
            m: Model::new(self.window, self.cap),
            bad: Vec::new(),
            flags: 0,
            step: 0,
            checking: false,
        };
        run.imp.tc.set_peer(peer(0));
        run.m.peer = Some(0);
        for (i, &l) in history.iter().enumerate() {
            run.step = i;
            run.checking = i >= check_from;
            // a letter whose argument does not exist in this state is a no-op
            if let Some(op) = self.resolve(self.alphabet[l as usize], &run.m) {
                run.apply(&op);
            }
        }
        // canonical key: exact model state + observable projection; the pending
        // resume (hidden) is probed destructively last, on this throw-away object
        let (obs, _) = run.imp.observe();
        let probe = match run.imp.tc.wait_for_reconnect(Duration::ZERO) {
            ReconnectOutcome::ResumeReady(p) => Some(p.resume_at_offset),
            _ => None,
        };
        let key: Key = key_of(&(run.m.canon(), &obs, probe));
        Outcome { key: Some(key), bad: run.bad, flags: run.flags }
    }
}

impl StreamSys {
    /// Human-readable concrete operations of a history (relative arguments resolved).
    pub fn describe(&self, history: &[u8]) -> Vec<String> {
        let mut out = Vec::new();
        let mut run = Run {
            sys: self,
            imp: Impl::new(self.window, self.cap),
            m: Model::new(self.window, self.cap),
            bad: Vec::new(),
            flags: 0,
            step: 0,
            checking: false,
        };
        run.imp.tc.set_peer(peer(0));
        run.m.peer = Some(0);
        for &l in history {
            match self.resolve(self.alphabet[l as usize], &run.m) {
                Some(op) => {
                    out.push(format!("{op:?}"));
                    run.apply(&op);
                }
                None => out.push(format!("{:?} (not applicable here: no-op)", self.alphabet[l as usize])),
            }
        }
        out
    }
}
