//! C02 — hostile bytes never crash a parser or reader; only consistent frames parse.
//!
//! Bounded-exhaustive enumeration of input byte strings (`c02_cases.rs`), each
//! executed on every parsing / stream-reading entry point of the real crate
//! (`c02_exec.rs`) and compared with the independent frame oracle
//! (`frames::Hdr::consistent_total`, u128 arithmetic).
//!
//! An allocation failure aborts the process, so the cases run in worker
//! processes (`mc C02 --worker batch ...`). A worker announces every case before
//! running it; when a worker dies, the parent re-runs the announced case alone
//! (`--worker case`, which announces every entry point), reports the entry
//! point that killed it, and resumes the batch after that case.

#[path = "c02_cases.rs"]
mod cases;
#[path = "c02_exec.rs"]
mod exec;
#[path = "c02_net.rs"]
mod net;

use crate::ctx::{Ctx, Samples, Tier};
use cases::{Family, Input, families};
use exec::{Counters, ENTRIES, ERR_CLASSES, REF_CLASSES, Slot};
use serde_json::{Value, json};
use std::collections::{BTreeMap, VecDeque};
use std::io::{BufRead, BufReader, Read, Write};
use std::os::unix::process::ExitStatusExt;
use std::process::{Command, ExitStatus, Stdio};
use std::sync::Mutex;
use std::sync::atomic::{AtomicBool, AtomicU32, AtomicU64, Ordering};
use std::time::{Duration, Instant};

/// a worker that announces no new case for this long is killed and the case reported as a hang
const WATCHDOG: Duration = Duration::from_secs(90);
/// crashing cases for which every entry point is attributed separately (one extra process per crash)
const FULL_ATTRIBUTION_CASES: u32 = 4;
/// violation lines a batch worker prints per key (the rest are only counted)
const EMIT_PER_KEY: u32 = 2;

// ===================================================================== worker

fn tier_of(s: &str) -> Tier {
    match s {
        "quick" => Tier::Quick,
        "thorough" => Tier::Thorough,
        _ => {
            println!("Hbad tier {s}");
            std::process::exit(3)
        }
    }
}

fn emit(line: &str) {
    let mut o = std::io::stdout().lock();
    if o.write_all(line.as_bytes()).and_then(|_| o.write_all(b"\n")).and_then(|_| o.flush()).is_err() {
        std::process::exit(3); // parent is gone
    }
}

fn worker_setup() {
    unsafe {
        let none = libc::rlimit { rlim_cur: 0, rlim_max: 0 };
        libc::setrlimit(libc::RLIMIT_CORE, &none);
        // safety net only: every allocation the property allows is <= 2 x 16 MiB (+ the input),
        // every forbidden one is >= 2^62, so no verdict depends on this limit
        let lim = libc::rlimit { rlim_cur: 4 << 30, rlim_max: 4 << 30 };
        libc::setrlimit(libc::RLIMIT_AS, &lim);
    }
    std::panic::set_hook(Box::new(|info| {
        let payload = info.payload();
        let msg = payload
            .downcast_ref::<&str>()
            .map(|s| s.to_string())
            .or_else(|| payload.downcast_ref::<String>().cloned())
            .unwrap_or_else(|| "<non-string panic payload>".into());
        let loc = info.location().map(|l| format!(" at {}:{}", l.file(), l.line())).unwrap_or_default();
        if exec::IN_SUT.with(|f| f.get()) {
            exec::LAST_PANIC.with(|p| *p.borrow_mut() = format!("{msg}{loc}"));
        } else {
            // a panic of the harness itself is never a verdict
            println!("H{}{}", msg.replace('\n', " "), loc);
            std::process::exit(2);
        }
    }));
}

fn case_json(fam: &str, idx: Option<u64>, input: &Input, slot: &str) -> Value {
    json!({"family": fam, "index": idx, "input": input.to_json(), "slot": slot})
}

fn outcome_summary(slot: Slot, bytes: &[u8], r: &exec::RefInfo) -> String {
    match exec::execute(slot, bytes, r) {
        exec::Res::Ok(g) => format!("Ok(q={},b={})", g.query.len(), g.body.len()),
        exec::Res::Err(k, _) => format!("Err({})", ERR_CLASSES[k]),
        exec::Res::Panic(m) => format!("PANIC({m})"),
        exec::Res::Livelock => "LIVELOCK".into(),
    }
}

fn worker_batch(tier: Tier, fi: usize, start: u64, end: u64) {
    let fams = families(tier);
    let fam = &fams[fi];
    let all = exec::slots();
    let mut c = Counters::default();
    let mut emitted: BTreeMap<String, u32> = BTreeMap::new();
    for idx in start..end {
        let input = fam.get(idx);
        let bytes = input.materialize();
        let r = exec::classify(&bytes);
        emit(&format!("@{idx} {:016x}", exec::fnv64(&bytes)));
        c.inputs += 1;
        c.ref_class[r.class as usize] += 1;
        if exec::stream_allowed(&r) {
            c.stream_inputs += 1;
        } else {
            c.stream_inputs_skipped_midrange += 1;
        }
        for (_, slot) in exec::applicable(&all, &r) {
            if let Some(f) = exec::check(slot, &bytes, &r, &mut c) {
                c.violations += 1;
                *c.violations_by_key.entry(f.key.clone()).or_insert(0) += 1;
                let n = emitted.entry(f.key.clone()).or_insert(0);
                if *n < EMIT_PER_KEY {
                    *n += 1;
                    emit(&format!(
                        "V{}",
                        json!({"key": f.key, "what": f.what, "case": case_json(fam.name, Some(idx), &input, &f.slot)})
                    ));
                }
            }
        }
        if idx == 0 || idx == fam.len / 2 {
            // evidence sample: what every entry point answered for this input (not counted)
            let outcomes: BTreeMap<String, String> =
                exec::applicable(&all, &r).map(|(_, s)| (s.name(), outcome_summary(s, &bytes, &r))).collect();
            let mut distinct: BTreeMap<String, Vec<String>> = BTreeMap::new();
            for (k, v) in outcomes {
                distinct.entry(v).or_default().push(k);
            }
            emit(&format!(
                "S{}",
                json!({"family": fam.name, "index": idx, "input": exec::describe_input(&bytes, &r),
                       "outcomes": distinct.iter().map(|(o, s)| json!({"outcome": o, "slots": s.len(), "first_slot": s[0]})).collect::<Vec<_>>()})
            ));
        }
    }
    emit(&format!("D{}", c.to_json()));
}

/// One input, every applicable slot from `slot_from` on, each announced first.
fn worker_isolated(fam_name: &str, idx: Option<u64>, input: &Input, slot_from: usize) {
    let all = exec::slots();
    let bytes = input.materialize();
    let r = exec::classify(&bytes);
    let mut c = Counters::default();
    for (si, slot) in exec::applicable(&all, &r) {
        if si < slot_from {
            continue;
        }
        emit(&format!("E{si}"));
        if let Some(f) = exec::check(slot, &bytes, &r, &mut c) {
            emit(&format!("V{}", json!({"key": f.key, "what": f.what, "case": case_json(fam_name, idx, input, &f.slot)})));
        }
    }
    emit(&format!("D{}", c.to_json()));
}

pub fn worker(args: &[String]) {
    if args.first().map(|s| s.as_str()) != Some("net") {
        worker_setup();
    }
    let num = |i: usize| -> u64 {
        args.get(i).and_then(|s| s.parse().ok()).unwrap_or_else(|| {
            println!("Hbad worker arguments {args:?}");
            std::process::exit(3)
        })
    };
    match args.first().map(|s| s.as_str()) {
        Some("batch") => worker_batch(tier_of(&args[1]), num(2) as usize, num(3), num(4)),
        Some("case") => {
            let fams = families(tier_of(&args[1]));
            let fam = &fams[num(2) as usize];
            let idx = num(3);
            worker_isolated(fam.name, Some(idx), &fam.get(idx), num(4) as usize);
        }
        Some("hex") => {
            let head = cases::unhex(&args[1]).unwrap_or_else(|e| {
                println!("Hbad hex: {e}");
                std::process::exit(3)
            });
            let input = Input { head, tail_len: num(2) as usize };
            worker_isolated("replay", None, &input, num(3) as usize);
        }
        Some("net") => net::worker(num(1) as usize, num(2) as usize, &|l| emit(l)),
        _ => {
            println!("Hunknown worker mode {args:?}");
            std::process::exit(3)
        }
    }
    std::process::exit(0)
}

// ===================================================================== parent

fn exe() -> std::path::PathBuf {
    std::env::current_exe().expect("current_exe")
}

fn death(status: &ExitStatus, timed_out: bool) -> (String, String) {
    // (key fragment, human text)
    if timed_out {
        return ("hang".into(), format!("made no progress for {} s and was killed", WATCHDOG.as_secs()));
    }
    if let Some(sig) = status.signal() {
        let name = match sig {
            6 => "SIGABRT".to_string(),
            11 => "SIGSEGV".to_string(),
            7 => "SIGBUS".to_string(),
            4 => "SIGILL".to_string(),
            9 => "SIGKILL".to_string(),
            n => format!("signal-{n}"),
        };
        return (format!("abort:{name}"), format!("killed the process with {name}"));
    }
    let code = status.code().unwrap_or(-1);
    (format!("abort:exit-{code}"), format!("terminated the process with exit status {code}"))
}

#[derive(Clone)]
struct Found {
    fam: usize,
    idx: u64,
    slot_order: usize,
    key: String,
    what: String,
    case: Value,
}

/// The line of a dead child's stderr that says why it died.
fn stderr_digest(stderr: &str) -> String {
    let interesting = ["memory allocation", "panicked at", "fatal runtime error", "capacity overflow", "stack overflow"];
    stderr
        .lines()
        .find(|l| interesting.iter().any(|k| l.contains(k)))
        .or_else(|| stderr.lines().rev().find(|l| !l.trim().is_empty() && !l.starts_with("[repe]")))
        .unwrap_or("")
        .trim()
        .to_string()
}

struct ChildOut {
    stdout: String,
    stderr: String,
    status: ExitStatus,
    timed_out: bool,
}

/// Runs a short-lived child to completion, capturing both streams, with a kill-after timeout.
fn run_child(args: &[String], timeout: Duration) -> Result<ChildOut, String> {
    let mut child = Command::new(exe())
        .arg("C02")
        .arg("--worker")
        .args(args)
        .env("RUST_BACKTRACE", "0")
        .stdin(Stdio::null())
        .stdout(Stdio::piped())
        .stderr(Stdio::piped())
        .spawn()
        .map_err(|e| format!("cannot spawn worker: {e}"))?;
    let mut so = child.stdout.take().unwrap();
    let mut se = child.stderr.take().unwrap();
    let t1 = std::thread::spawn(move || {
        let mut s = String::new();
        let _ = so.read_to_string(&mut s);
        s
    });
    let t2 = std::thread::spawn(move || {
        let mut s = Vec::new();
        let _ = se.read_to_end(&mut s);
        String::from_utf8_lossy(&s).into_owned()
    });
    let begun = Instant::now();
    let mut timed_out = false;
    let status = loop {
        match child.try_wait() {
            Ok(Some(s)) => break s,
            Ok(None) => {
                if begun.elapsed() > timeout && !timed_out {
                    timed_out = true;
                    let _ = child.kill();
                }
                std::thread::sleep(Duration::from_millis(2));
            }
            Err(e) => return Err(format!("wait failed: {e}")),
        }
    };
    Ok(ChildOut { stdout: t1.join().unwrap_or_default(), stderr: t2.join().unwrap_or_default(), status, timed_out })
}

struct Isolated {
    found: Vec<(usize, String, String, Value)>, // slot order, key, what, case
    crashed: bool,
    machinery: Option<String>,
}

/// Re-runs one case alone. `mode` = worker arguments without the trailing slot_from.
/// Every slot is announced; a death is attributed to the last announced slot and
/// (if `full`) the run resumes behind it.
fn isolate(mode: &[String], fam_name: &str, idx: Option<u64>, input: &Input, full: bool) -> Isolated {
    let all = exec::slots();
    let mut out = Isolated { found: Vec::new(), crashed: false, machinery: None };
    let mut slot_from = 0usize;
    loop {
        let mut args = mode.to_vec();
        args.push(slot_from.to_string());
        let co = match run_child(&args, WATCHDOG) {
            Ok(c) => c,
            Err(e) => {
                out.machinery = Some(e);
                return out;
            }
        };
        let mut last_slot = None;
        let mut done = false;
        for line in co.stdout.lines() {
            match line.as_bytes().first() {
                Some(b'E') => last_slot = line[1..].parse::<usize>().ok(),
                Some(b'V') => {
                    if let Ok(v) = serde_json::from_str::<Value>(&line[1..]) {
                        out.found.push((
                            last_slot.unwrap_or(0),
                            v["key"].as_str().unwrap_or("C02:?").to_string(),
                            v["what"].as_str().unwrap_or("").to_string(),
                            v["case"].clone(),
                        ));
                    }
                }
                Some(b'D') => done = true,
                Some(b'H') => {
                    out.machinery = Some(format!("worker harness failure: {}", &line[1..]));
                    return out;
                }
                _ => {}
            }
        }
        if done && co.status.success() {
            return out;
        }
        let Some(k) = last_slot else {
            out.machinery = Some(format!("isolated worker died before announcing a slot: {:?} {}", co.status, co.stderr.trim()));
            return out;
        };
        out.crashed = true;
        let slot = all[k];
        let (frag, text) = death(&co.status, co.timed_out);
        let bytes = input.materialize();
        let r = exec::classify(&bytes);
        let stderr_tail = stderr_digest(&co.stderr);
        out.found.push((
            k,
            format!("C02:{}:{}", ENTRIES[slot.entry], frag),
            format!("{} {text}{}; {}", slot.name(), if stderr_tail.is_empty() { String::new() } else { format!(" (stderr: {stderr_tail})") }, exec::describe_input(&bytes, &r)),
            {
                let mut c = case_json(fam_name, idx, input, &slot.name());
                c["died"] = json!(text);
                c
            },
        ));
        if !full {
            return out;
        }
        slot_from = k + 1;
    }
}

struct Watch {
    pid: AtomicU32,
    last_ms: AtomicU64,
    killed: AtomicBool,
}

#[derive(Default)]
struct Agg {
    counters: Counters,
    hashes: Vec<u64>,
    found: Vec<Found>,
    samples: BTreeMap<(usize, u64), Value>,
    machinery: Vec<String>,
    crashes: u64,
    worker_processes: u64,
    per_family_inputs: BTreeMap<usize, u64>,
}

struct Shared<'a> {
    tier: Tier,
    fams: &'a [Family],
    queue: Mutex<VecDeque<(usize, u64, u64)>>,
    agg: Mutex<Agg>,
    watch: Vec<Watch>,
    crash_cases: AtomicU32,
    t0: Instant,
    finished: AtomicBool,
}

fn run_batch(sh: &Shared, me: usize, fi: usize, start: u64, end: u64) {
    let fam = &sh.fams[fi];
    let mut cur = start;
    while cur < end {
        let mut child = match Command::new(exe())
            .args(["C02", "--worker", "batch", sh.tier.name(), &fi.to_string(), &cur.to_string(), &end.to_string()])
            .env("RUST_BACKTRACE", "0")
            .stdin(Stdio::null())
            .stdout(Stdio::piped())
            .stderr(Stdio::null())
            .spawn()
        {
            Ok(c) => c,
            Err(e) => {
                sh.agg.lock().unwrap().machinery.push(format!("cannot spawn worker: {e}"));
                return;
            }
        };
        let w = &sh.watch[me];
        w.killed.store(false, Ordering::SeqCst);
        w.last_ms.store(sh.t0.elapsed().as_millis() as u64, Ordering::SeqCst);
        w.pid.store(child.id(), Ordering::SeqCst);
        let mut last_idx: Option<u64> = None;
        let mut hashes = Vec::new();
        let mut found = Vec::new();
        let mut samples = Vec::new();
        let mut counters: Option<Value> = None;
        let mut harness: Option<String> = None;
        let rd = BufReader::new(child.stdout.take().unwrap());
        for line in rd.lines() {
            let Ok(line) = line else { break };
            match line.as_bytes().first() {
                Some(b'@') => {
                    let mut it = line[1..].split(' ');
                    let idx = it.next().and_then(|s| s.parse::<u64>().ok());
                    let h = it.next().and_then(|s| u64::from_str_radix(s, 16).ok());
                    if let (Some(i), Some(h)) = (idx, h) {
                        last_idx = Some(i);
                        hashes.push(h);
                        w.last_ms.store(sh.t0.elapsed().as_millis() as u64, Ordering::Relaxed);
                    }
                }
                Some(b'V') => {
                    if let Ok(v) = serde_json::from_str::<Value>(&line[1..]) {
                        found.push(Found {
                            fam: fi,
                            idx: last_idx.unwrap_or(0),
                            slot_order: found.len(),
                            key: v["key"].as_str().unwrap_or("C02:?").to_string(),
                            what: v["what"].as_str().unwrap_or("").to_string(),
                            case: v["case"].clone(),
                        });
                    }
                }
                Some(b'S') => {
                    if let Ok(v) = serde_json::from_str::<Value>(&line[1..]) {
                        samples.push((last_idx.unwrap_or(0), v));
                    }
                }
                Some(b'D') => counters = serde_json::from_str::<Value>(&line[1..]).ok(),
                Some(b'H') => harness = Some(line[1..].to_string()),
                _ => {}
            }
        }
        let status = child.wait();
        w.pid.store(0, Ordering::SeqCst);
        let timed_out = w.killed.load(Ordering::SeqCst);
        {
            let mut a = sh.agg.lock().unwrap();
            a.worker_processes += 1;
            *a.per_family_inputs.entry(fi).or_insert(0) += hashes.len() as u64;
            a.hashes.append(&mut hashes);
            a.found.append(&mut found);
            for (i, s) in samples {
                a.samples.insert((fi, i), s);
            }
            if let Some(c) = &counters {
                a.counters.add_json(c);
            }
            if let Some(h) = &harness {
                a.machinery.push(format!("worker harness failure in {} batch {cur}..{end}: {h}", fam.name));
            }
        }
        if harness.is_some() {
            return;
        }
        let status = match status {
            Ok(s) => s,
            Err(e) => {
                sh.agg.lock().unwrap().machinery.push(format!("wait failed: {e}"));
                return;
            }
        };
        if counters.is_some() && status.success() {
            return;
        }
        // the worker died: the last announced case is the one that was running
        let Some(idx) = last_idx else {
            sh.agg.lock().unwrap().machinery.push(format!(
                "worker for {} {cur}..{end} died before announcing a case: {status:?}",
                fam.name
            ));
            return;
        };
        let (_, how) = death(&status, timed_out);
        let full = sh.crash_cases.fetch_add(1, Ordering::SeqCst) < FULL_ATTRIBUTION_CASES;
        let input = fam.get(idx);
        let mode = vec!["case".to_string(), sh.tier.name().to_string(), fi.to_string(), idx.to_string()];
        let iso = isolate(&mode, fam.name, Some(idx), &input, full);
        {
            let mut a = sh.agg.lock().unwrap();
            a.crashes += 1;
            if let Some(m) = iso.machinery {
                a.machinery.push(m);
            } else if !iso.crashed {
                a.machinery.push(format!(
                    "worker {how} at {} case {idx}, but the case run alone completed: not reproducible",
                    fam.name
                ));
            }
            for (order, key, what, case) in iso.found {
                // findings printed by the batch worker for this case were lost with it; these replace them
                a.found.push(Found { fam: fi, idx, slot_order: order, key, what, case });
            }
        }
        cur = idx + 1;
    }
}

#[derive(Default)]
struct NetOutcome {
    found: Vec<(usize, String, String, Value)>,
    stats: BTreeMap<String, u64>,
    machinery: Vec<String>,
    deaths: u64,
    processes: u64,
}

struct NetChild {
    last: Option<usize>,
    done: bool,
    co: ChildOut,
}

fn net_child(from: usize, to: usize, out: &mut NetOutcome) -> Option<NetChild> {
    out.processes += 1;
    let co = match run_child(&["net".to_string(), from.to_string(), to.to_string()], Duration::from_secs(600)) {
        Ok(c) => c,
        Err(e) => {
            out.machinery.push(e);
            return None;
        }
    };
    let mut last = None;
    let mut done = false;
    for line in co.stdout.lines() {
        match line.as_bytes().first() {
            Some(b'@') => last = line[1..].parse::<usize>().ok(),
            Some(b'V') => {
                if let Ok(v) = serde_json::from_str::<Value>(&line[1..]) {
                    out.found.push((
                        last.unwrap_or(0),
                        v["key"].as_str().unwrap_or("C02:net:?").to_string(),
                        v["what"].as_str().unwrap_or("").to_string(),
                        v["case"].clone(),
                    ));
                }
            }
            Some(b'D') => {
                done = true;
                if let Ok(Value::Object(m)) = serde_json::from_str::<Value>(&line[1..]) {
                    for (k, n) in m {
                        *out.stats.entry(k).or_insert(0) += n.as_u64().unwrap_or(0);
                    }
                }
            }
            Some(b'H') => out.machinery.push(format!("net worker harness failure: {}", &line[1..])),
            _ => {}
        }
    }
    Some(NetChild { last, done, co })
}

/// Second phase: hostile headers over loopback TCP, in a child process; a dead child is
/// blamed on the announced scenario, confirmed by running that scenario alone.
fn run_net(from: usize, to: usize, confirm: bool) -> NetOutcome {
    let mut out = NetOutcome::default();
    let mut from = from;
    while from < to {
        let Some(ch) = net_child(from, to, &mut out) else { break };
        if !out.machinery.is_empty() || (ch.done && ch.co.status.success()) {
            break;
        }
        let Some(k) = ch.last else {
            out.machinery.push(format!("net worker died before its first scenario: {:?} {}", ch.co.status, ch.co.stderr.trim()));
            break;
        };
        out.deaths += 1;
        let mut died = ch;
        if confirm {
            match net_child(k, k + 1, &mut out) {
                Some(c2) if !(c2.done && c2.co.status.success()) => died = c2,
                Some(_) => {
                    out.machinery.push(format!("net worker died in scenario {} but the scenario alone completed: not reproducible", net::scenario_name(k)));
                    break;
                }
                None => break,
            }
        }
        let (frag, text) = death(&died.co.status, died.co.timed_out);
        let stderr_tail = stderr_digest(&died.co.stderr);
        let name = net::scenario_name(k);
        let ep = name.split(' ').next().unwrap_or("?").to_string();
        out.found.push((
            k,
            format!("C02:net:{ep}:{frag}"),
            format!("{name}: the hostile bytes {text}{}", if stderr_tail.is_empty() { String::new() } else { format!(" (stderr: {stderr_tail})") }),
            {
                let hs = net::hostiles();
                let h = &hs[k % hs.len()];
                json!({"net": {"scenario": k, "endpoint": ep, "hostile": h.name, "bytes_hex": cases::hex(&h.bytes), "died": text}})
            },
        ));
        from = k + 1;
    }
    out
}

pub fn run(tier: Tier) -> ! {
    let ctx = Ctx::new("C02", tier);
    let fams = families(tier);
    let slots = exec::slots();
    let nworkers = crate::par::workers();
    let mut queue = VecDeque::new();
    for (fi, f) in fams.iter().enumerate() {
        let mut s = 0;
        while s < f.len {
            let e = (s + f.batch).min(f.len);
            queue.push_back((fi, s, e));
            s = e;
        }
    }
    let batches = queue.len();
    let sh = Shared {
        tier,
        fams: &fams,
        queue: Mutex::new(queue),
        agg: Mutex::new(Agg::default()),
        watch: (0..nworkers).map(|_| Watch { pid: AtomicU32::new(0), last_ms: AtomicU64::new(0), killed: AtomicBool::new(false) }).collect(),
        crash_cases: AtomicU32::new(0),
        t0: Instant::now(),
        finished: AtomicBool::new(false),
    };
    std::thread::scope(|sc| {
        let shr = &sh;
        let dog = sc.spawn(move || {
            while !shr.finished.load(Ordering::SeqCst) {
                std::thread::sleep(Duration::from_millis(250));
                let now = shr.t0.elapsed().as_millis() as u64;
                for w in &shr.watch {
                    let pid = w.pid.load(Ordering::SeqCst);
                    if pid != 0 && now.saturating_sub(w.last_ms.load(Ordering::SeqCst)) > WATCHDOG.as_millis() as u64 {
                        w.killed.store(true, Ordering::SeqCst);
                        unsafe {
                            libc::kill(pid as i32, libc::SIGKILL);
                        }
                        w.last_ms.store(now, Ordering::SeqCst);
                    }
                }
            }
        });
        let hs: Vec<_> = (0..nworkers)
            .map(|me| {
                sc.spawn(move || {
                    loop {
                        let job = shr.queue.lock().unwrap().pop_front();
                        let Some((fi, s, e)) = job else { break };
                        run_batch(shr, me, fi, s, e);
                    }
                })
            })
            .collect();
        for h in hs {
            let _ = h.join();
        }
        sh.finished.store(true, Ordering::SeqCst);
        let _ = dog.join();
    });
    let mut agg = sh.agg.into_inner().unwrap();

    // ---- second phase (after the first, so that its waits are not competing with 16 busy workers)
    let net_n = net::scenario_count();
    let net = run_net(0, net_n, true);
    agg.machinery.extend(net.machinery.iter().cloned());
    for (k, key, what, case) in &net.found {
        agg.found.push(Found { fam: usize::MAX, idx: *k as u64, slot_order: 0, key: key.clone(), what: what.clone(), case: case.clone() });
    }

    // ---- violations, in canonical order (family, case, slot)
    agg.found.sort_by(|a, b| (a.fam, a.idx, a.slot_order, &a.key).cmp(&(b.fam, b.idx, b.slot_order, &b.key)));
    for f in &agg.found {
        ctx.violation(f.key.clone(), f.what.clone(), f.case.clone());
    }
    if !agg.machinery.is_empty() && !ctx.has_violation() {
        ctx.machinery(agg.machinery.join(" ;; "));
    }
    for m in &agg.machinery {
        ctx.note(format!("machinery problem while violations were also found: {m}"));
    }

    let c = &agg.counters;
    let expected_inputs: u64 = fams.iter().map(|f| f.len).sum();
    let announced = agg.hashes.len() as u64;
    agg.hashes.sort_unstable();
    agg.hashes.dedup();
    let distinct = agg.hashes.len() as u64;
    let exhaustive = announced == expected_inputs && agg.machinery.is_empty();

    // ---- notes (outside the statement of C02)
    let converse: u64 = c.per_entry.iter().map(|e| e[4]).sum();
    if converse > 0 {
        ctx.note(format!(
            "NOTE (not a C02 violation; that direction belongs to C01): {converse} executions rejected a complete consistent frame, per entry point {:?}; e.g. {}",
            ENTRIES.iter().zip(c.per_entry.iter()).filter(|(_, e)| e[4] > 0).map(|(n, e)| format!("{n}={}", e[4])).collect::<Vec<_>>(),
            c.converse_example.clone().unwrap_or_default()
        ));
    }
    if c.over_consumed > 0 {
        ctx.note(format!("NOTE: {} successful stream reads consumed a number of bytes different from the frame size (C05 territory)", c.over_consumed));
    }
    if c.other_header_field_diff > 0 {
        ctx.note(format!("NOTE: {} successful parses returned a header differing from the input in a field other than length/spec/query_length/body_length (C01 territory)", c.other_header_field_diff));
    }
    if c.new_accepts_mismatch > 0 {
        ctx.note(format!("NOTE: Message::new accepted {} (header, query, body) triples whose lengths disagree (constructor, not bound by the statement)", c.new_accepts_mismatch));
    }

    // ---- non-vacuity (machinery, never a verdict)
    if !ctx.has_violation() {
        let mut vac = Vec::new();
        if announced != expected_inputs {
            vac.push(format!("{announced} cases announced, {expected_inputs} enumerated"));
        }
        if c.inputs != expected_inputs {
            vac.push(format!("workers counted {} inputs, {expected_inputs} enumerated", c.inputs));
        }
        for (i, n) in ENTRIES.iter().enumerate() {
            let e = c.per_entry[i];
            // e[1] + e[4] = executions on inputs the reference parser accepts; what the harness must
            // guarantee is that such inputs were presented. An implementation that rejects all of them
            // satisfies "a parse succeeds only when ..." trivially (noted above; C01 decides that direction).
            if e[0] == 0 || e[1] + e[4] == 0 || e[2] == 0 {
                vac.push(format!("{n}: executions={} ok={} rejected-though-complete={} err={}", e[0], e[1], e[4], e[2]));
            } else if e[1] == 0 {
                ctx.note(format!("NOTE: {n} never returned Ok although {} complete consistent frames were presented; its Ok-side clauses were not exercised", e[4]));
            }
        }
        for (i, n) in REF_CLASSES.iter().enumerate() {
            if c.ref_class[i] == 0 {
                vac.push(format!("no input of reference class {n}"));
            }
        }
        if c.stream_huge_consistent_exec == 0 {
            vac.push("no consistent >= 2^62 header reached a stream reader".into());
        }
        if c.stream_big_alloc_exec == 0 || c.stream_big_ok == 0 {
            vac.push("no 16 MiB frame reached / was parsed by a stream reader".into());
        }
        if c.into_reused_ok == 0 || c.pending_ok == 0 {
            vac.push("reused-buffer or Pending-interleaved stream slots never succeeded".into());
        }
        let ns = |k: &str| net.stats.get(k).copied().unwrap_or(0);
        let (tcp_n, ws_n) = net::applicable_counts();
        let (tcp_n, ws_n) = (tcp_n as u64, ws_n as u64);
        if ns("scenarios") != 4 * tcp_n + 3 * ws_n
            || ns("server_closed") + ns("server_error_reply") != 2 * tcp_n
            || ns("liveness_ok") != 2 * tcp_n
            || ns("client_call_err") != 2 * tcp_n
            || ns("ws_server_ended") + ns("ws_server_left_open(not judged)") + ns("ws_proxy_ended_nothing_forwarded") + ns("ws_proxy_left_open(not judged)") + ns("ws_valid_request_not_served(not judged)") != 2 * ws_n
            || ns("ws_client_call_err") + ns("ws_client_call_own_timeout(not judged)") != ws_n
        {
            vac.push(format!("network phase incomplete: {:?} for {net_n} scenarios", net.stats));
        }
        if ns("ws_valid_request_not_served(not judged)") > 0 {
            ctx.note(format!(
                "{} WebSocket scenarios not judged: the endpoint did not serve a VALID request before the hostile one (not C02's business)",
                ns("ws_valid_request_not_served(not judged)")
            ));
        }
        if !vac.is_empty() {
            ctx.machinery(format!("vacuous run: {}", vac.join("; ")));
        }
    }

    let samples = Samples::new(12);
    for ((fi, idx), s) in &agg.samples {
        let _ = (fi, idx);
        samples.offer(|| s.clone());
    }
    let per_entry: BTreeMap<&str, Value> = ENTRIES
        .iter()
        .enumerate()
        .map(|(i, n)| {
            let e = c.per_entry[i];
            let errs: BTreeMap<&str, u64> =
                ERR_CLASSES.iter().enumerate().filter(|(k, _)| c.err_class[i][*k] > 0).map(|(k, n)| (*n, c.err_class[i][k])).collect();
            (*n, json!({"executions": e[0], "ok": e[1], "err": e[2], "panic_or_hang": e[3], "rejected_complete_frame": e[4], "err_kinds": errs}))
        })
        .collect();
    let distinct_outcomes: usize = (0..10)
        .map(|i| (c.per_entry[i][1] > 0) as usize + (c.per_entry[i][3] > 0) as usize + c.err_class[i].iter().filter(|&&n| n > 0).count())
        .sum();
    let net_applicable = {
        let (t, w) = net::applicable_counts();
        4 * t + 3 * w
    };
    let coverage = json!({
        "states": distinct,
        "transitions": c.executions + net.stats.get("scenarios").copied().unwrap_or(0),
        "traces_validated_against_impl": c.executions + net.stats.get("scenarios").copied().unwrap_or(0),
        "parser_reader_executions": c.executions,
        "network_phase": {
            "what": "each hostile header sent over loopback TCP as a request to repe::Server and repe::AsyncServer (after one valid echo on the same connection) and as the response to a pending call of repe::Client and repe::AsyncClient; oracle: no thread panics, process survives, server closes or answers with an error and still serves a fresh connection, the pending call returns an error within 10 s. The same payloads plus WebSocket-only ones (valid frame + trailing bytes, two frames in one message, a frame cut short) sent as one WebSocket message to a WebSocketServer connection, to proxy_connection_with_limits and as the response to a pending WebSocketClient call, over in-memory streams on a paused clock; oracle: no task panics, no hostile payload is answered with a non-error frame, forwarded upstream by the proxy or turned into Ok for the pending call, and a fresh connection is served (whether the endpoint ends the connection or skips the message is counted, not judged)",
            "endpoints": net::ENDPOINTS,
            "hostile_headers": net::hostiles().iter().map(|h| h.name.clone()).collect::<Vec<_>>(),
            "scenarios_enumerated": net_applicable,
            "measured": net.stats,
            "worker_deaths": net.deaths,
            "worker_processes": net.processes,
        },
        "inputs_executed": announced,
        "inputs_enumerated": expected_inputs,
        "exhaustive": exhaustive,
        "rule": "every input of every family (index order) x every applicable slot; slot = entry point x stream read size {1,7,48,all} x {fresh, reused} buffer x {ready, Pending-interleaved} stream; \
                 stream readers only see inputs whose three declared lengths are each <= 16 MiB or >= 2^62; cases run in child processes, a dead child is attributed to the announced case and slot",
        "bound": {
            "max_input_bytes": "4096 (+ one complete 16 MiB frame)",
            "slots_per_input": slots.len(),
            "tier": tier.name(),
        },
        "alphabet": fams.iter().enumerate().map(|(i, f)| json!({"family": f.name, "inputs": f.len, "executed": agg.per_family_inputs.get(&i).copied().unwrap_or(0), "what": f.describe})).collect::<Vec<_>>(),
        "slots": slots.iter().map(|s| s.name()).collect::<Vec<_>>(),
        "entry_points": per_entry,
        "distinct_outcomes": distinct_outcomes,
        "nonvacuity": {
            "reference_classes": REF_CLASSES.iter().enumerate().map(|(i, n)| (n.to_string(), json!(c.ref_class[i]))).collect::<serde_json::Map<_, _>>(),
            "inputs_given_to_stream_readers": c.stream_inputs,
            "inputs_withheld_from_stream_readers_midrange_length": c.stream_inputs_skipped_midrange,
            "stream_executions_consistent_header_ge_2pow62": c.stream_huge_consistent_exec,
            "stream_executions_some_field_ge_2pow62": c.stream_huge_field_exec,
            "stream_executions_consistent_header_gt_1MiB": c.stream_big_alloc_exec,
            "stream_ok_gt_1MiB": c.stream_big_ok,
            "stream_err_unallocatable": (6..10).map(|i| c.err_class[i][5]).sum::<u64>(),
            "into_reused_buffer_ok": c.into_reused_ok,
            "pending_interleaved_ok": c.pending_ok,
            "message_new_accepts_length_disagreement": c.new_accepts_mismatch,
            "rejected_complete_frame_executions": converse,
        },
        "worker_processes": agg.worker_processes,
        "batches": batches,
        "worker_deaths": agg.crashes,
        "violating_executions": c.violations,
        "violating_executions_by_key": c.violations_by_key,
        "samples": samples.take(),
    });
    ctx.finish(
        "model_checking",
        coverage,
        &[
            "inputs are boundary classes x exhaustive single-point mutations, not all 2^32768 strings of <= 4 KiB",
            "out-of-bounds reads are observable only as panics (safe Rust) or as views not aliasing the input",
            "an allocation of <= 32 MiB succeeds and one of >= 2^62 bytes fails on the machine running the check",
            "declared lengths in (16 MiB, 2^62) are given to the slice parsers only",
            "a hang is a worker announcing nothing for 90 s (confirmed by re-running the case alone)",
        ],
    )
}

/// Re-executes one recorded input on every entry point in a child process.
pub fn replay(case: &Value) -> Result<(), String> {
    if case.get("net").is_some() {
        // by (endpoint, hostile name) when recorded, so that the case survives a reordered list
        let hs = net::hostiles();
        let by_name = case["net"]["endpoint"].as_str().zip(case["net"]["hostile"].as_str()).and_then(|(e, n)| {
            let ei = net::ENDPOINTS.iter().position(|x| *x == e)?;
            let hi = hs.iter().position(|h| h.name == n)?;
            Some(ei * hs.len() + hi)
        });
        let k = by_name.or(case["net"]["scenario"].as_u64().map(|k| k as usize)).ok_or("net case without scenario")?;
        let out = run_net(k, k + 1, false);
        if !out.machinery.is_empty() {
            return Err(format!("machinery: {}", out.machinery.join("; ")));
        }
        if out.found.is_empty() {
            return Ok(());
        }
        return Err(summarize(out.found.iter().map(|(_, k, w, _)| format!("{k} :: {w}")).collect()));
    }
    let input = Input::from_json(&case["input"])?;
    let mode = vec!["hex".to_string(), cases::hex(&input.head), input.tail_len.to_string()];
    let iso = isolate(&mode, "replay", None, &input, true);
    if let Some(m) = iso.machinery {
        return Err(format!("machinery: {m}"));
    }
    if iso.found.is_empty() {
        return Ok(());
    }
    Err(summarize(iso.found.iter().map(|(_, k, w, _)| format!("{k} :: {w}")).collect()))
}

fn summarize(lines: Vec<String>) -> String {
    let n = lines.len();
    let mut out: Vec<String> = lines.into_iter().take(8).collect();
    if n > 8 {
        out.push(format!("... and {} more violating entry-point executions on this input", n - 8));
    }
    out.join("\n")
}
