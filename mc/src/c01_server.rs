//! C01 — server-side emission: the bytes a peer receives from `repe::Server`,
//! `repe::AsyncServer` (raw loopback TCP) and `SharedWebSocketServer`
//! (tungstenite client over `tokio::io::duplex`, inline and off-reader
//! dispatch) equal the oracle encoding of the predicted response.
//!
//! Requests are encoded by the oracle (`frames`), never by the crate.
//! Responses are predicted by a small model of the registered handlers:
//! five custom `HandlerErased` templates (harness code: the response a handler
//! returns is known exactly), two built-in routes and the method-not-found error.
#![allow(dead_code)]

use super::local::{self, Bad, bpat, hdr_json, oracle_bytes, qpat, region};
use crate::ctx::{Ctx, Samples, Tier};
use crate::frames::{HEADER, Hdr, SPEC};
use repe::server::{Execution, HandlerErased};
use repe::{Message, RepeError, Router};
use serde_json::{Value, json};
use std::io::{Read, Write};
use std::sync::Arc;
use std::time::Duration;

const WATCHDOG: Duration = Duration::from_secs(10);
const PATH_LENS: [usize; 5] = [3, 8, 49, 255, 4096];
const TEMPLATES: u8 = 5;
const TPL_NAMES: [&str; 5] = ["plain-echo", "every-field-decorated", "handler-set-query", "resized-body+app-error", "empty-body"];

// ------------------------------------------------------------------ handlers (harness code) and their model

/// What template `tpl` answers to a request: (header fields, own query, body).
/// Used both by the handler (to build the `Message`) and by the model.
fn plan(tpl: u8, rh: &Hdr, body: &[u8]) -> (Hdr, Vec<u8>, Vec<u8>) {
    let base = Hdr { spec: SPEC, version: 1, notify: 0, reserved: 0, id: rh.id, query_format: 1, body_format: rh.body_format, ec: 0, ..Default::default() };
    match tpl {
        0 => (base, Vec::new(), body.to_vec()),
        1 => (
            Hdr { version: 0x11, notify: 0x22, reserved: 0x3344_5566, query_format: 0x7788, body_format: rh.body_format ^ 0xffff, ec: 0xbbcc_ddee, ..base },
            Vec::new(),
            body.to_vec(),
        ),
        2 => {
            let mut q = b"/own".to_vec();
            q.extend_from_slice(qpat(body.len() % 61));
            (base, q, body.to_vec())
        }
        3 => {
            let mut b = body.to_vec();
            b.extend(body.iter().rev());
            b.push(0x5a);
            (Hdr { reserved: rh.reserved, body_format: 3, ec: 0x1000, ..base }, Vec::new(), b)
        }
        _ => (Hdr { body_format: 0, ..base }, Vec::new(), Vec::new()),
    }
}

struct Tpl {
    tpl: u8,
    off_reader: bool,
}
impl HandlerErased for Tpl {
    fn handle(&self, req: &Message) -> Result<Message, RepeError> {
        let (mut h, q, b) = plan(self.tpl, &local::from_header(&req.header), &req.body);
        h.query_length = q.len() as u64;
        h.body_length = b.len() as u64;
        h.length = (HEADER + q.len() + b.len()) as u64;
        Ok(Message { header: local::to_header(&h), query: q, body: b })
    }
    fn execution(&self) -> Execution {
        if self.off_reader { Execution::OffReader } else { Execution::Inline }
    }
}

fn tpl_path(tpl: u8, len: usize, off_reader: bool) -> String {
    let mut s = format!("/{}{}", if off_reader { 'o' } else { 't' }, tpl);
    while s.len() < len {
        s.push((b'a' + (s.len() % 26) as u8) as char);
    }
    s
}

fn router() -> Router {
    let mut r = Router::new();
    for off in [false, true] {
        for tpl in 0..TEMPLATES {
            for len in PATH_LENS {
                r = r.with_erased_handler(&tpl_path(tpl, len, off), Arc::new(Tpl { tpl, off_reader: off }));
            }
        }
    }
    r.with_json("/json", |v: Value| Ok(v))
        .with_json_blocking("/json_blocking", |v: Value| Ok(v))
        .with_typed_slice::<f64, f64, _>("/scale", |xs| Ok(xs.iter().map(|x| x * 2.0).collect()))
}

// ------------------------------------------------------------------ requests

#[derive(Clone, Debug)]
enum Kind {
    Tpl { tpl: u8, off_reader: bool },
    Json { blocking: bool },
    Scale { n: usize },
    Missing,
}

#[derive(Clone, Debug)]
struct Req {
    kind: Kind,
    h: Hdr,
    path: String,
    body: Vec<u8>,
}

impl Req {
    fn wire(&self) -> Vec<u8> {
        let mut h = self.h;
        h.query_length = self.path.len() as u64;
        h.body_length = self.body.len() as u64;
        h.length = (HEADER + self.path.len() + self.body.len()) as u64;
        oracle_bytes(&h, self.path.as_bytes(), &self.body)
    }
    /// Predicted response: header (lengths filled), query, body; `None` body = text not modelled.
    fn predicted(&self) -> (Hdr, Vec<u8>, Option<Vec<u8>>) {
        let echo = self.path.as_bytes().to_vec();
        let ok = Hdr { spec: SPEC, version: 1, id: self.h.id, query_format: 1, ..Default::default() };
        let (mut h, q, b) = match &self.kind {
            Kind::Tpl { tpl, .. } => {
                let (h, own, b) = plan(*tpl, &self.h, &self.body);
                (h, if own.is_empty() { echo } else { own }, Some(b))
            }
            Kind::Json { .. } => {
                let v: Value = serde_json::from_slice(&self.body).expect("harness json body");
                (Hdr { body_format: 2, ..ok }, echo, Some(serde_json::to_vec(&v).unwrap()))
            }
            Kind::Scale { n } => {
                let out: Vec<f64> = scale_input(*n).iter().map(|x| x * 2.0).collect();
                (Hdr { body_format: 1, ..ok }, echo, Some(Message::builder().body_typed_slice(&out).build().body))
            }
            // error frame: id echoed, ec = MethodNotFound, UTF-8 text, query echoed, query_format left RawBinary
            Kind::Missing => (Hdr { body_format: 3, ec: 6, query_format: 0, ..ok }, echo, None),
        };
        h.query_length = q.len() as u64;
        if let Some(b) = &b {
            h.body_length = b.len() as u64;
            h.length = (HEADER + q.len() + b.len()) as u64;
        }
        (h, q, b)
    }
    fn to_json(&self, server: &str) -> Value {
        json!({"block": "server", "server": server, "kind": format!("{:?}", self.kind), "hdr": hdr_json(&self.h), "path_len": self.path.len(),
               "path_head": self.path.chars().take(16).collect::<String>(), "body_len": self.body.len()})
    }
}

fn scale_input(n: usize) -> Vec<f64> {
    (0..n).map(|i| i as f64 * 0.5 - 7.0).collect()
}

const U16C: [u16; 9] = [0, 1, 2, 3, 4, 0xff, 0x100, 0x7fff, 0xffff];
const U32C: [u32; 6] = [0, 1, 0xffff, 0x1_0000, 0x7fff_ffff, 0xffff_ffff];
const U64C: [u64; 9] = [0, 1, 1 << 8, 1 << 16, (1 << 32) - 1, 1 << 32, 1 << 63, u64::MAX, 0x0102_0304_0506_0708];

/// Request header variant `v`: id / body_format / reserved / ec cycle through their classes.
fn req_header(v: usize) -> Hdr {
    Hdr {
        spec: SPEC,
        version: 1,
        notify: 0,
        reserved: U32C[v % 6],
        id: U64C[v % 9],
        query_format: 1,
        body_format: U16C[(v / 2) % 9],
        ec: U32C[(v / 3) % 6],
        ..Default::default()
    }
}

fn requests(tier: Tier, off_reader: bool) -> Vec<Req> {
    let body_lens: &[usize] = tier.pick(&[0, 1, 48, 49, 4096, 65536][..], &[0, 1, 2, 7, 8, 47, 48, 49, 255, 256, 4095, 4096, 8191, 8192, 8193, 65535, 65536][..]);
    let variants = tier.pick(1usize, 12);
    let mut v = Vec::new();
    let mut i = 0usize;
    for tpl in 0..TEMPLATES {
        for pl in PATH_LENS {
            for &bl in body_lens {
                for _ in 0..variants {
                    v.push(Req { kind: Kind::Tpl { tpl, off_reader }, h: req_header(i), path: tpl_path(tpl, pl, off_reader), body: bpat(bl).to_vec() });
                    i += 1;
                }
            }
        }
    }
    for pad in [0usize, 1, 100, 5000, 60000] {
        let body = serde_json::to_vec(&json!({"a": [1, 2, 3], "pad": "x".repeat(pad), "n": -3.5})).unwrap();
        v.push(Req { kind: Kind::Json { blocking: off_reader }, h: Hdr { body_format: 2, ..req_header(i) }, path: if off_reader { "/json_blocking".into() } else { "/json".into() }, body });
        i += 1;
    }
    for n in [0usize, 1, 7, 256, 8192] {
        let body = Message::builder().body_typed_slice(&scale_input(n)).build().body;
        v.push(Req { kind: Kind::Scale { n }, h: Hdr { body_format: 1, ..req_header(i) }, path: "/scale".into(), body });
        i += 1;
    }
    for pl in PATH_LENS {
        let mut p = String::from("/missing");
        while p.len() < pl.max(8) {
            p.push('z');
        }
        v.push(Req { kind: Kind::Missing, h: req_header(i), path: p, body: bpat(pl % 50).to_vec() });
        i += 1;
    }
    v
}

// ------------------------------------------------------------------ comparison

#[derive(Default)]
struct Tally {
    compared: u64,
    states: u64,
    handler_query_kept: u64,
    decorated: u64,
    error_frames: u64,
    builtin: u64,
    max_frame: usize,
    bytes: u64,
}

fn compare(server: &'static str, req: &Req, got: &[u8], t: &mut Tally) -> Option<Bad> {
    let (h, q, b) = req.predicted();
    t.compared += 1;
    t.bytes += got.len() as u64;
    t.max_frame = t.max_frame.max(got.len());
    match &req.kind {
        Kind::Tpl { tpl: 2, .. } => t.handler_query_kept += 1,
        Kind::Tpl { tpl: 1, .. } => t.decorated += 1,
        Kind::Missing => t.error_frames += 1,
        Kind::Json { .. } | Kind::Scale { .. } => t.builtin += 1,
        _ => {}
    }
    let kind = match &req.kind {
        Kind::Tpl { tpl, .. } => TPL_NAMES[*tpl as usize],
        Kind::Json { .. } => "with_json",
        Kind::Scale { .. } => "with_typed_slice",
        Kind::Missing => "method-not-found",
    };
    let desc = format!("request id={:#x} body_format={:#x} reserved={:#x}, {}-byte path, {}-byte body to the `{kind}` route", req.h.id, req.h.body_format, req.h.reserved, req.path.len(), req.body.len());
    match b {
        Some(b) => {
            let want = oracle_bytes(&h, &q, &b);
            if got == want {
                return None;
            }
            let reg = if got.len() != want.len() {
                "frame-length"
            } else {
                region(got.iter().zip(&want).position(|(a, b)| a != b).unwrap(), q.len())
            };
            let gh = Hdr::decode_raw(got);
            Some(Bad {
                key: format!("C01:server:{server}:{kind}:{reg}"),
                what: format!("{server} answered {desc} with a frame that differs from the oracle encoding of the response in `{reg}` (got header {gh:?}, {} bytes; expected header {h:?}, {} bytes)", got.len(), want.len()),
            })
        }
        None => {
            // error response: header fields and echoed query exactly, body only framed consistently
            let Some(gh) = Hdr::decode_raw(got) else {
                return Some(Bad { key: format!("C01:server:{server}:{kind}:frame-length"), what: format!("{server} answered {desc} with only {} bytes", got.len()) });
            };
            let want = Hdr { body_length: gh.body_length, length: (HEADER + q.len()) as u64 + gh.body_length, ..h };
            let ok = gh == want && got.len() as u64 == want.length && got[HEADER..HEADER + q.len()] == q[..];
            if ok {
                return None;
            }
            Some(Bad {
                key: format!("C01:server:{server}:{kind}:header"),
                what: format!("{server} answered {desc} with error frame header {gh:?} ({} bytes); expected {want:?} with the request query echoed", got.len()),
            })
        }
    }
}

// ------------------------------------------------------------------ raw TCP peers

enum Xfer {
    Frame(Vec<u8>),
    /// header is not a consistent REPE header: these 48 bytes were received
    BadHeader(Vec<u8>),
    Timeout,
    Closed(String),
}

fn tcp_exchange(s: &mut std::net::TcpStream, wire: &[u8]) -> Xfer {
    if let Err(e) = s.write_all(wire) {
        return Xfer::Closed(format!("write: {e}"));
    }
    let mut hdr = [0u8; HEADER];
    if let Err(e) = s.read_exact(&mut hdr) {
        return match e.kind() {
            std::io::ErrorKind::WouldBlock | std::io::ErrorKind::TimedOut => Xfer::Timeout,
            _ => Xfer::Closed(format!("read header: {e}")),
        };
    }
    let h = Hdr::decode_raw(&hdr).unwrap();
    let Some(total) = h.consistent_total().filter(|t| *t <= 1 << 26) else {
        return Xfer::BadHeader(hdr.to_vec());
    };
    let mut frame = hdr.to_vec();
    frame.resize(total as usize, 0);
    if let Err(e) = s.read_exact(&mut frame[HEADER..]) {
        return match e.kind() {
            std::io::ErrorKind::WouldBlock | std::io::ErrorKind::TimedOut => Xfer::Timeout,
            _ => Xfer::Closed(format!("read payload: {e}")),
        };
    }
    Xfer::Frame(frame)
}

fn tcp_connect(addr: std::net::SocketAddr) -> Result<std::net::TcpStream, String> {
    let s = std::net::TcpStream::connect(addr).map_err(|e| format!("connect {addr}: {e}"))?;
    s.set_read_timeout(Some(WATCHDOG)).map_err(|e| e.to_string())?;
    s.set_write_timeout(Some(WATCHDOG)).map_err(|e| e.to_string())?;
    let _ = s.set_nodelay(true);
    Ok(s)
}

/// After the last response: half-close and require EOF with no further bytes.
fn tcp_drain(mut s: std::net::TcpStream) -> Result<usize, String> {
    s.shutdown(std::net::Shutdown::Write).map_err(|e| e.to_string())?;
    let mut rest = Vec::new();
    match s.read_to_end(&mut rest) {
        Ok(_) => Ok(rest.len()),
        // a reset after our FIN still means nothing more was sent
        Err(e) if e.kind() == std::io::ErrorKind::ConnectionReset => Ok(rest.len()),
        Err(e) => Err(format!("waiting for EOF: {e}")),
    }
}

struct Out {
    bad: Vec<(Bad, Value)>,
    tally: Tally,
    machinery: Option<String>,
    reconnects: u64,
}

fn run_tcp(server: &'static str, addr: std::net::SocketAddr, reqs: &[Req]) -> Out {
    let mut out = Out { bad: Vec::new(), tally: Tally::default(), machinery: None, reconnects: 0 };
    let mut conn = match tcp_connect(addr) {
        Ok(c) => Some(c),
        Err(e) => {
            out.machinery = Some(e);
            return out;
        }
    };
    for req in reqs {
        out.tally.states += 1;
        let wire = req.wire();
        let mut attempt = 0;
        loop {
            if conn.is_none() {
                out.reconnects += 1;
                match tcp_connect(addr) {
                    Ok(c) => conn = Some(c),
                    Err(e) => {
                        out.machinery = Some(e);
                        return out;
                    }
                }
            }
            match tcp_exchange(conn.as_mut().unwrap(), &wire) {
                Xfer::Frame(f) => {
                    if let Some(b) = compare(server, req, &f, &mut out.tally) {
                        out.bad.push((b, req.to_json(server)));
                    }
                    break;
                }
                Xfer::BadHeader(h48) => {
                    // the stream cannot be re-synchronised: judge the header, then start over on a new connection
                    if let Some(b) = compare(server, req, &h48, &mut out.tally) {
                        out.bad.push((b, req.to_json(server)));
                    }
                    conn = None;
                    break;
                }
                Xfer::Timeout | Xfer::Closed(_) if attempt == 0 => {
                    // re-execute once on a fresh connection; only a reproducible silence is a verdict
                    attempt = 1;
                    conn = None;
                }
                Xfer::Timeout => {
                    out.bad.push((Bad { key: format!("C01:server:{server}:no-response"), what: format!("{server} sent no complete response within {WATCHDOG:?} (twice) for {:?}", req.to_json(server)) }, req.to_json(server)));
                    conn = None;
                    break;
                }
                Xfer::Closed(e) => {
                    out.bad.push((Bad { key: format!("C01:server:{server}:connection-lost"), what: format!("{server} dropped the connection instead of answering ({e}, twice) for {:?}", req.to_json(server)) }, req.to_json(server)));
                    conn = None;
                    break;
                }
            }
        }
    }
    if let Some(c) = conn {
        match tcp_drain(c) {
            Ok(0) => {}
            Ok(n) => out.bad.push((Bad { key: format!("C01:server:{server}:trailing-bytes"), what: format!("{server} sent {n} bytes beyond the predicted responses") }, json!({"block": "server", "server": server, "kind": "drain"}))),
            Err(e) => out.machinery = Some(format!("{server}: {e}")),
        }
    }
    out
}

fn start_sync_server() -> Result<std::net::SocketAddr, String> {
    let server = repe::Server::new(router());
    let listener = server.listen("127.0.0.1:0").map_err(|e| format!("listen: {e}"))?;
    let addr = listener.local_addr().map_err(|e| e.to_string())?;
    std::thread::spawn(move || {
        let _ = server.serve(listener);
    });
    Ok(addr)
}

fn start_async_server() -> Result<std::net::SocketAddr, String> {
    let (tx, rx) = std::sync::mpsc::channel();
    std::thread::spawn(move || {
        let rt = match tokio::runtime::Builder::new_current_thread().enable_all().build() {
            Ok(rt) => rt,
            Err(e) => {
                let _ = tx.send(Err(format!("runtime: {e}")));
                return;
            }
        };
        rt.block_on(async move {
            let listener = match repe::AsyncServer::listen("127.0.0.1:0").await {
                Ok(l) => l,
                Err(e) => {
                    let _ = tx.send(Err(format!("listen: {e}")));
                    return;
                }
            };
            let _ = tx.send(listener.local_addr().map_err(|e| e.to_string()));
            let _ = repe::AsyncServer::new(router()).serve(listener).await;
        });
    });
    rx.recv_timeout(WATCHDOG).map_err(|e| format!("async server did not start: {e}"))?
}

// ------------------------------------------------------------------ a frame that arrives in two bursts

/// Real time between the two bursts of one frame: longer than any sub-second or one-second housekeeping
/// interval a server might poll with (idle ticks, stop-flag checks), far below any documented timeout (the
/// servers here have none configured).
const PACE: std::time::Duration = std::time::Duration::from_millis(1250);

/// One request per (server, split position), each on its own connection and thread (so the rows cost one
/// pause of wall time altogether): the first `split` bytes, a pause of `PACE`, the rest. "Parsing those bytes
/// returns an identical message" whatever the timing of their arrival: the answer must be the one the same
/// request gets when it arrives in one piece.
fn run_paced(server: &'static str, addr: std::net::SocketAddr, reqs: &[Req]) -> Out {
    let mut out = Out { bad: Vec::new(), tally: Tally::default(), machinery: None, reconnects: 0 };
    // a request with a body and a path, one without a body, one error case
    let picks: Vec<&Req> = {
        let mut v: Vec<&Req> = Vec::new();
        for want in [|r: &Req| r.body.len() >= 64, |r: &Req| r.body.is_empty(), |r: &Req| matches!(r.kind, Kind::Missing), |r: &Req| matches!(r.kind, Kind::Json { .. })] {
            if let Some(r) = reqs.iter().find(|r| want(r)) {
                v.push(r);
            }
        }
        v
    };
    let mut rows: Vec<(&Req, usize)> = Vec::new();
    for r in &picks {
        let n = r.wire().len();
        let mut splits = vec![1usize, HEADER - 1, HEADER, HEADER + 1, HEADER + r.path.len(), n - 1];
        splits.retain(|k| *k > 0 && *k < n);
        splits.sort();
        splits.dedup();
        for k in splits {
            rows.push((r, k));
        }
    }
    let results: Vec<(usize, Result<Xfer, String>)> = std::thread::scope(|sc| {
        let hs: Vec<_> = rows
            .iter()
            .enumerate()
            .map(|(i, (r, k))| {
                let wire = r.wire();
                let k = *k;
                (i, sc.spawn(move || -> Result<Xfer, String> {
                    let mut s = tcp_connect(addr)?;
                    s.write_all(&wire[..k]).and_then(|_| s.flush()).map_err(|e| format!("first burst: {e}"))?;
                    std::thread::sleep(PACE);
                    Ok(tcp_exchange(&mut s, &wire[k..]))
                }))
            })
            .collect();
        hs.into_iter().map(|(i, h)| (i, h.join().unwrap_or_else(|_| Err("paced row panicked".into())))).collect()
    });
    for (i, res) in results {
        let (req, k) = rows[i];
        out.tally.states += 1;
        let mut case = req.to_json(server);
        case["split_at"] = json!(k);
        case["pause_ms"] = json!(PACE.as_millis() as u64);
        match res {
            Err(e) => out.machinery = Some(format!("{server} paced row: {e}")),
            Ok(Xfer::Frame(f)) => {
                if let Some(mut b) = compare(server, req, &f, &mut out.tally) {
                    b.key = b.key.replacen("C01:server:", "C01:server-paced:", 1);
                    b.what = format!("request sent as {k} bytes, a pause of {PACE:?}, then the rest: {}", b.what);
                    out.bad.push((b, case));
                }
            }
            Ok(Xfer::BadHeader(h)) => out.bad.push((Bad { key: format!("C01:server-paced:{server}:bad-response-header"), what: format!("request sent as {k} bytes, a pause of {PACE:?}, then the rest: the response starts with {h:02x?}") }, case)),
            Ok(Xfer::Timeout) => out.bad.push((Bad { key: format!("C01:server-paced:{server}:no-response"), what: format!("request sent as {k} bytes, a pause of {PACE:?}, then the rest: {server} sent no complete response within {WATCHDOG:?}; request {case}") }, case.clone())),
            Ok(Xfer::Closed(e)) => out.bad.push((Bad { key: format!("C01:server-paced:{server}:connection-lost"), what: format!("request sent as {k} bytes, a pause of {PACE:?}, then the rest: {server} dropped the connection instead of answering ({e}); request {case}") }, case.clone())),
        }
    }
    out
}

// ------------------------------------------------------------------ several frames in one burst

/// Groups of three requests written to the socket in ONE write, sizes descending (a big frame first, so a
/// reused read buffer is warm and roomy when the small ones follow), ascending, and big-small-big: each of
/// the three is parsed as sent and answered in order, like the same requests sent one at a time.
fn run_burst(server: &'static str, addr: std::net::SocketAddr, reqs: &[Req]) -> Out {
    let mut out = Out { bad: Vec::new(), tally: Tally::default(), machinery: None, reconnects: 0 };
    let mut by_size: Vec<&Req> = reqs.iter().filter(|r| r.h.notify == 0).collect();
    by_size.sort_by_key(|r| std::cmp::Reverse(r.wire().len()));
    let n = by_size.len();
    if n < 6 {
        out.machinery = Some("burst rows: fewer than 6 requests".into());
        return out;
    }
    let mut groups: Vec<Vec<&Req>> = Vec::new();
    for k in 0..(n / 3).min(8) {
        let (big, mid, small) = (by_size[k], by_size[n / 2 + k % (n / 4).max(1)], by_size[n - 1 - k]);
        groups.push(vec![big, mid, small]);
        groups.push(vec![small, mid, big]);
        groups.push(vec![big, small, big]);
    }
    for g in groups {
        let mut s = match tcp_connect(addr) {
            Ok(s) => s,
            Err(e) => {
                out.machinery = Some(e);
                return out;
            }
        };
        let burst: Vec<u8> = g.iter().flat_map(|r| r.wire()).collect();
        let sizes: Vec<usize> = g.iter().map(|r| r.wire().len()).collect();
        let mut first = tcp_exchange(&mut s, &burst);
        for (i, req) in g.iter().enumerate() {
            out.tally.states += 1;
            let x = if i == 0 { std::mem::replace(&mut first, Xfer::Timeout) } else { tcp_exchange(&mut s, &[]) };
            let mut case = req.to_json(server);
            case["burst_sizes"] = json!(sizes);
            case["position_in_burst"] = json!(i);
            match x {
                Xfer::Frame(f) => {
                    if let Some(mut b) = compare(server, req, &f, &mut out.tally) {
                        b.key = b.key.replacen("C01:server:", "C01:server-burst:", 1);
                        b.what = format!("requests of {sizes:?} bytes written in one burst, response #{i}: {}", b.what);
                        out.bad.push((b, case));
                    }
                }
                Xfer::BadHeader(h) => {
                    out.bad.push((Bad { key: format!("C01:server-burst:{server}:bad-response-header"), what: format!("requests of {sizes:?} bytes written in one burst: response #{i} starts with {h:02x?}") }, case));
                    break;
                }
                Xfer::Timeout => {
                    out.bad.push((Bad { key: format!("C01:server-burst:{server}:no-response"), what: format!("requests of {sizes:?} bytes written in one burst: no complete response #{i} within {WATCHDOG:?}") }, case));
                    break;
                }
                Xfer::Closed(e) => {
                    out.bad.push((Bad { key: format!("C01:server-burst:{server}:connection-lost"), what: format!("requests of {sizes:?} bytes written in one burst: the connection was dropped before response #{i} ({e})") }, case));
                    break;
                }
            }
        }
    }
    out
}

// ------------------------------------------------------------------ WebSocket over an in-memory duplex

fn run_ws(server: &'static str, reqs: &[Req]) -> Out {
    use futures_util::{SinkExt, StreamExt};
    use repe::tokio_tungstenite::WebSocketStream;
    use repe::tokio_tungstenite::tungstenite::Message as Ws;
    use repe::tokio_tungstenite::tungstenite::protocol::Role;

    let mut out = Out { bad: Vec::new(), tally: Tally::default(), machinery: None, reconnects: 0 };
    let rt = match tokio::runtime::Builder::new_current_thread().enable_all().build() {
        Ok(rt) => rt,
        Err(e) => {
            out.machinery = Some(format!("runtime: {e}"));
            return out;
        }
    };
    rt.block_on(async {
        let shared = repe::WebSocketServer::new(router()).into_shared();
        let (a, b) = tokio::io::duplex(1 << 20);
        let srv = shared.clone();
        let task = tokio::spawn(async move {
            let ws = srv.adopt_upgraded(a).await;
            srv.serve_connection(ws).await
        });
        let mut ws = WebSocketStream::from_raw_socket(b, Role::Client, None).await;
        for req in reqs {
            out.tally.states += 1;
            if let Err(e) = ws.send(Ws::Binary(req.wire())).await {
                out.machinery = Some(format!("{server}: send failed: {e}"));
                return;
            }
            let got = loop {
                match tokio::time::timeout(WATCHDOG, ws.next()).await {
                    Err(_) => {
                        out.bad.push((Bad { key: format!("C01:server:{server}:no-response"), what: format!("{server} sent no response within {WATCHDOG:?} for {:?}", req.to_json(server)) }, req.to_json(server)));
                        return;
                    }
                    Ok(Some(Ok(Ws::Binary(p)))) => break p,
                    Ok(Some(Ok(Ws::Ping(_) | Ws::Pong(_)))) => continue,
                    Ok(other) => {
                        out.bad.push((Bad { key: format!("C01:server:{server}:connection-lost"), what: format!("{server} answered with {other:?} instead of a binary frame for {:?}", req.to_json(server)) }, req.to_json(server)));
                        return;
                    }
                }
            };
            if let Some(b) = compare(server, req, &got, &mut out.tally) {
                out.bad.push((b, req.to_json(server)));
            }
        }
        // orderly close: the server must not have queued anything else
        let _ = ws.close(None).await;
        let mut extra = 0usize;
        loop {
            match tokio::time::timeout(WATCHDOG, ws.next()).await {
                Ok(Some(Ok(Ws::Binary(p)))) => extra += p.len(),
                Ok(Some(Ok(_))) => continue,
                Ok(_) => break,
                Err(_) => {
                    out.machinery = Some(format!("{server}: close handshake did not finish"));
                    break;
                }
            }
        }
        if extra > 0 {
            out.bad.push((Bad { key: format!("C01:server:{server}:trailing-bytes"), what: format!("{server} sent {extra} payload bytes beyond the predicted responses") }, json!({"block": "server", "server": server, "kind": "drain"})));
        }
        let _ = tokio::time::timeout(WATCHDOG, task).await;
    });
    out
}

// ------------------------------------------------------------------ entry points

pub struct SrvOut {
    pub bad: Vec<(Bad, Value)>,
    pub states: u64,
    pub transitions: u64,
    pub responses_compared: u64,
    pub planned: u64,
    pub bound: Value,
    pub nonvacuity: Value,
}

const SERVERS: [&str; 4] = ["Server", "AsyncServer", "WebSocketServer[inline]", "WebSocketServer[off-reader]"];
const PACED_SERVERS: [&str; 4] = ["Server[paced]", "AsyncServer[paced]", "Server[burst]", "AsyncServer[burst]"];

fn run_one(server: &'static str, tier: Tier) -> Out {
    match server {
        "Server" => match start_sync_server() {
            Ok(addr) => run_tcp("Server", addr, &requests(tier, false)),
            Err(e) => Out { bad: Vec::new(), tally: Tally::default(), machinery: Some(e), reconnects: 0 },
        },
        "AsyncServer" => match start_async_server() {
            Ok(addr) => run_tcp("AsyncServer", addr, &requests(tier, false)),
            Err(e) => Out { bad: Vec::new(), tally: Tally::default(), machinery: Some(e), reconnects: 0 },
        },
        "Server[paced]" => match start_sync_server() {
            Ok(addr) => run_paced("Server", addr, &requests(tier, false)),
            Err(e) => Out { bad: Vec::new(), tally: Tally::default(), machinery: Some(e), reconnects: 0 },
        },
        "AsyncServer[paced]" => match start_async_server() {
            Ok(addr) => run_paced("AsyncServer", addr, &requests(tier, false)),
            Err(e) => Out { bad: Vec::new(), tally: Tally::default(), machinery: Some(e), reconnects: 0 },
        },
        "Server[burst]" => match start_sync_server() {
            Ok(addr) => run_burst("Server", addr, &requests(tier, false)),
            Err(e) => Out { bad: Vec::new(), tally: Tally::default(), machinery: Some(e), reconnects: 0 },
        },
        "AsyncServer[burst]" => match start_async_server() {
            Ok(addr) => run_burst("AsyncServer", addr, &requests(tier, false)),
            Err(e) => Out { bad: Vec::new(), tally: Tally::default(), machinery: Some(e), reconnects: 0 },
        },
        "WebSocketServer[inline]" => run_ws("WebSocketServer[inline]", &requests(tier, false)),
        _ => run_ws("WebSocketServer[off-reader]", &requests(tier, true)),
    }
}

pub fn run_all(ctx: &Ctx, tier: Tier, samples: &Samples) -> SrvOut {
    let outs: Vec<(&'static str, Out)> = std::thread::scope(|sc| {
        let hs: Vec<_> = SERVERS.iter().chain(PACED_SERVERS.iter()).map(|&s| (s, sc.spawn(move || run_one(s, tier)))).collect();
        hs.into_iter().map(|(s, h)| (s, h.join().unwrap_or_else(|_| Out { bad: Vec::new(), tally: Tally::default(), machinery: Some(format!("{s}: harness thread panicked")), reconnects: 0 }))).collect()
    });
    let mut bad = Vec::new();
    let mut any_bad = false;
    for (_, o) in &outs {
        any_bad |= !o.bad.is_empty();
    }
    let mut nv = serde_json::Map::new();
    let (mut states, mut transitions, mut compared) = (0, 0, 0);
    let mut paced_states = 0u64;
    let n_req = requests(tier, false).len();
    for (s, o) in outs {
        if let Some(m) = &o.machinery {
            if !any_bad && !ctx.has_violation() {
                ctx.machinery(format!("server block: {m}"));
            }
            ctx.note(format!("server block {s}: {m}"));
        }
        let t = &o.tally;
        if PACED_SERVERS.contains(&s) {
            if o.bad.is_empty() && o.machinery.is_none() && t.compared < 12 && !any_bad {
                ctx.machinery(format!("vacuous server block {s}: only {} paced responses compared", t.compared));
            }
        } else if o.bad.is_empty() && o.machinery.is_none() {
            for (what, n) in [("responses", t.compared), ("handler-set queries", t.handler_query_kept), ("decorated headers", t.decorated), ("error frames", t.error_frames), ("built-in routes", t.builtin)] {
                if n == 0 && !any_bad {
                    ctx.machinery(format!("vacuous server block {s}: no {what} compared"));
                }
            }
            if t.compared != n_req as u64 && !any_bad {
                ctx.machinery(format!("server block {s}: {} of {n_req} responses compared", t.compared));
            }
        }
        if PACED_SERVERS.contains(&s) {
            paced_states += t.states;
        }
        states += t.states;
        transitions += t.compared;
        compared += t.compared;
        nv.insert(
            s.to_string(),
            json!({"requests": t.states, "responses_compared": t.compared, "bytes_received": t.bytes, "largest_frame": t.max_frame,
                   "handler_set_query_preserved": t.handler_query_kept, "every_field_decorated_responses": t.decorated,
                   "error_frames": t.error_frames, "builtin_route_responses": t.builtin, "reconnects": o.reconnects}),
        );
        bad.extend(o.bad);
    }
    let sample = requests(tier, false);
    samples.offer(|| sample[sample.len() / 2].to_json("Server"));
    SrvOut {
        bad,
        states,
        transitions,
        responses_compared: compared,
        planned: (SERVERS.len() * n_req) as u64 + paced_states,
        bound: json!({"servers": SERVERS, "requests_per_server": n_req, "handler_templates": TPL_NAMES, "path_lengths": PATH_LENS,
                      "builtin_routes": ["with_json", "with_json_blocking", "with_typed_slice<f64,f64>", "method-not-found"],
                      "rule": "templates x path lengths x body lengths (x header variants cycling id/body_format/reserved/ec classes), one request at a time on one connection per server; then EOF/close with no further bytes; paced rows (Server, AsyncServer): four request shapes x split positions {1, 47, 48, 49, after the query, len-1}, each sent as two bursts 1250 ms apart on its own connection; burst rows (Server, AsyncServer): groups of three requests written in one write (sizes descending, ascending, big-small-big), each answered in order"}),
        nonvacuity: Value::Object(nv),
    }
}

/// Replay of a server case re-runs the whole (small, quick-tier) request list of
/// that server: a response depends on nothing but its request, but a fresh
/// server and connection are needed anyway.
pub fn replay(case: &Value) -> Result<Vec<Bad>, String> {
    let name = case["server"].as_str().ok_or("server")?;
    let paced = case.get("split_at").is_some() || case.get("burst_sizes").is_some();
    let s = if paced {
        let tag = if case.get("split_at").is_some() { "[paced]" } else { "[burst]" };
        PACED_SERVERS.iter().copied().find(|s| *s == format!("{name}{tag}")).ok_or("unknown server")?
    } else {
        SERVERS.iter().copied().find(|s| *s == name).ok_or("unknown server")?
    };
    let o = run_one(s, Tier::Quick);
    if let Some(m) = o.machinery {
        return Err(format!("machinery: {m}"));
    }
    Ok(o.bad.into_iter().map(|(b, _)| b).collect())
}
