//! C17 — no outbound WebSocket message exceeds the assumed peer frame limit.
//!
//! Every (limit, total size, placement of the variable part, outbound path)
//! combination inside the bound is executed against the real endpoints over an
//! in-memory transport (paused current-thread runtime, so "nothing more
//! arrives" is a deterministic observation, not a wall-clock guess):
//!
//!  * server paths — a real `SharedWebSocketServer` (`with_limits`, peer registry,
//!    `on_error` hook) with a raw tungstenite peer: inline response (`with_json`),
//!    off-reader response (`with_json_blocking`), handler-pushed notify
//!    (`PeerHandle::send_notify` from a `with_json_ctx` handler), and the four
//!    `PeerRegistry::broadcast_notify_*` encodings;
//!  * proxy path — `proxy_connection_with_limits` between a raw tungstenite peer
//!    and an `AsyncClient` whose upstream is scripted byte-for-byte;
//!  * client paths — a real `WebSocketClient` (`connect_with_limits`, through the
//!    `repe_verif` stream seam, real HTTP upgrade) with the harness as the
//!    WebSocket server: request (`call_with_formats`) and notify
//!    (`notify_with_formats`).
//!
//! Oracle (one clause per sentence of the property statement):
//!  A  `oversize-on-wire`      no binary message seen by the raw peer is larger than the limit;
//!  B  `small-refused` / `small-altered`
//!                             a message at or below the limit (or any message when no limit is
//!                             configured) arrives byte-identical to the unguarded encoding
//!                             predicted by the independent `frames` oracle;
//!  C  `replacement-*`         an oversized response is replaced by an InternalError (9) response
//!                             bearing the same request id (itself within the limit);
//!  D  `oversize-notify-not-dropped`, `drop-not-reported`, `drop-reported-twice`
//!                             an oversized notification is absent from the wire and exactly one
//!                             `OutboundTooLarge` event reaches the `on_error` hook;
//!  E  `client-no-local-error`, `client-sent-despite-refusal`
//!                             an oversized client request/notify fails locally with
//!                             `MessageTooLarge` and not one byte is written;
//!  F  `unusable-after`        in every case a following small echo on the same connection succeeds.

use crate::ctx::{Ctx, Samples, Tier};
use crate::frames::{self, Frame, Hdr};
use crate::memstream::{self, End};
use crate::par;
use crate::wsh::{self, Serve};
use futures_util::{SinkExt, StreamExt};
use repe::tokio_tungstenite as rtt;
use repe::websocket_server::proxy_connection_with_limits;
use repe::{
    AsyncClient, BodyFormat, CallContext, ConnectionError, NotifyBody, PeerRegistry, RepeError, Router,
    WebSocketClient, WebSocketLimits, WebSocketServer,
};
use serde_json::{Value, json};
use std::collections::{BTreeMap, BTreeSet};
use std::sync::atomic::{AtomicU32, Ordering};
use std::sync::{Arc, Mutex};
use std::time::Duration;
use tokio::io::{AsyncRead, AsyncWrite};
use tokio_tungstenite::WebSocketStream;
use tokio_tungstenite::tungstenite::Message as WsMessage;
use tokio_tungstenite::tungstenite::protocol::{Role, WebSocketConfig};

const KIB: usize = 1024;
const MIB: usize = 1024 * 1024;
/// virtual time: the paused clock only reaches this once nothing else can run
const WAIT: Duration = Duration::from_secs(3600);
/// Request id of the case being executed: an ordinary id, 0 (a valid REPE id), u64::MAX and 1 (the id the
/// crate's own clients start from); see `enumerate` for which case uses which.
const REQ_IDS: [u64; 4] = [0x0C17_0007, 0, u64::MAX, 1];
thread_local! {
    static CUR_REQ_ID: std::cell::Cell<u64> = const { std::cell::Cell::new(0x0C17_0007) };
}
fn rid() -> u64 {
    CUR_REQ_ID.with(|c| c.get())
}
const ECHO_ID: u64 = 0x0C17_00E0;
const INTERNAL_ERROR: u32 = 9;

// ------------------------------------------------------------------ the enumerated space

#[derive(Clone, Copy, Debug, PartialEq, Eq, PartialOrd, Ord, Hash)]
enum PathK {
    Inline,
    OffReader,
    CtxNotify,
    BcastJson,
    BcastBeve,
    BcastUtf8,
    BcastRaw,
    Proxy,
    ClientCall,
    ClientNotify,
    /// a response that is itself an error (handler-returned error with a long message)
    InlineError,
    OffReaderError,
    /// the upstream answers with an application-error response
    ProxyError,
}

const PATHS: [PathK; 13] = [
    PathK::Inline,
    PathK::OffReader,
    PathK::CtxNotify,
    PathK::BcastJson,
    PathK::BcastBeve,
    PathK::BcastUtf8,
    PathK::BcastRaw,
    PathK::Proxy,
    PathK::ClientCall,
    PathK::ClientNotify,
    PathK::InlineError,
    PathK::OffReaderError,
    PathK::ProxyError,
];

impl PathK {
    fn name(self) -> &'static str {
        match self {
            PathK::Inline => "inline-response",
            PathK::OffReader => "offreader-response",
            PathK::CtxNotify => "handler-notify",
            PathK::BcastJson => "broadcast-json",
            PathK::BcastBeve => "broadcast-beve",
            PathK::BcastUtf8 => "broadcast-utf8",
            PathK::BcastRaw => "broadcast-raw",
            PathK::Proxy => "proxy-response",
            PathK::ClientCall => "client-call",
            PathK::ClientNotify => "client-notify",
            PathK::InlineError => "inline-error-response",
            PathK::OffReaderError => "offreader-error-response",
            PathK::ProxyError => "proxy-error-response",
        }
    }
    fn from_name(s: &str) -> Option<PathK> {
        PATHS.iter().copied().find(|p| p.name() == s)
    }
    /// smallest body the path can produce (a JSON / BEVE string is at least 2 bytes)
    fn min_body(self) -> usize {
        match self {
            PathK::Inline | PathK::OffReader | PathK::BcastJson | PathK::BcastBeve => 2,
            _ => 0,
        }
    }
    fn is_notify(self) -> bool {
        matches!(
            self,
            PathK::CtxNotify | PathK::BcastJson | PathK::BcastBeve | PathK::BcastUtf8 | PathK::BcastRaw
        )
    }
}

#[derive(Clone, Copy, Debug, PartialEq, Eq, PartialOrd, Ord, Hash)]
enum Place {
    Query,
    Body,
    Split,
}
const PLACES: [Place; 3] = [Place::Query, Place::Body, Place::Split];
impl Place {
    fn name(self) -> &'static str {
        match self {
            Place::Query => "query",
            Place::Body => "body",
            Place::Split => "split",
        }
    }
    fn from_name(s: &str) -> Option<Place> {
        PLACES.iter().copied().find(|p| p.name() == s)
    }
}

#[derive(Clone, Copy, Debug)]
struct Case {
    limit: Option<usize>,
    /// requested total size 48 + query + body (raised to the path's minimum)
    size: usize,
    place: Place,
    path: PathK,
    /// notification paths: the same notification is pushed / broadcast this many times in a row
    repeat: u8,
    /// index into REQ_IDS of the request id this case uses
    idk: u8,
}

impl Case {
    fn json(&self) -> Value {
        let (q, b) = shape(self);
        json!({"limit": self.limit, "size": self.size, "place": self.place.name(), "path": self.path.name(), "repeat": self.repeat, "request_id": REQ_IDS[self.idk as usize % REQ_IDS.len()],
               "query_len": q, "body_len": b, "real_size": frames::HEADER + q + b})
    }
    fn from_json(v: &Value) -> Option<Case> {
        Some(Case {
            limit: match &v["limit"] {
                Value::Null => None,
                x => Some(x.as_u64()? as usize),
            },
            size: v["size"].as_u64()? as usize,
            place: Place::from_name(v["place"].as_str()?)?,
            path: PathK::from_name(v["path"].as_str()?)?,
            repeat: v["repeat"].as_u64().unwrap_or(1) as u8,
            idk: v["request_id"].as_u64().and_then(|id| REQ_IDS.iter().position(|x| *x == id)).unwrap_or(0) as u8,
        })
    }
}

fn limits_of(tier: Tier) -> Vec<Option<usize>> {
    let mut v = match tier {
        Tier::Quick => vec![Some(KIB), Some(64 * KIB), Some(MIB)],
        // also the limits next to the 16-bit/64-bit WebSocket payload-length switch
        Tier::Thorough => vec![
            Some(KIB),
            Some(4 * KIB),
            Some(64 * KIB - 1),
            Some(64 * KIB),
            Some(64 * KIB + 1),
            Some(256 * KIB),
            Some(MIB),
            Some(4 * MIB),
            Some(16 * MIB),
        ],
    };
    v.push(None);
    v
}

fn sizes_of(limit: Option<usize>, tier: Tier) -> Vec<usize> {
    match limit {
        Some(l) => {
            let w = tier.pick(2usize, 4usize);
            let mut v: Vec<usize> = (l - w..=l + w).collect();
            v.extend([frames::HEADER, l / 2, 2 * l]);
            v
        }
        None => {
            // no limit: sizes just above every limit used elsewhere (and above the crate's
            // 16 MiB default in the thorough tier) must all go through unchanged
            let mut v = vec![frames::HEADER, KIB + 1, 64 * KIB + 1, MIB + 1];
            if tier == Tier::Thorough {
                v.push(16 * MIB + 1);
                v.push(32 * MIB);
            }
            v
        }
    }
}

fn enumerate(tier: Tier) -> Vec<Case> {
    let mut out = Vec::new();
    for limit in limits_of(tier) {
        for size in sizes_of(limit, tier) {
            for place in PLACES {
                for path in PATHS {
                    out.push(Case { limit, size, place, path, repeat: 1, idk: 0 });
                }
            }
        }
    }
    // the same notification two and three times in a row (every one is delivered, or dropped AND reported)
    for limit in limits_of(tier) {
        let Some(l) = limit else { continue };
        for size in [l, l + 1, l + 49] {
            for path in PATHS {
                if path.is_notify() {
                    for repeat in [2u8, 3] {
                        out.push(Case { limit, size, place: Place::Body, path, repeat, idk: 0 });
                    }
                }
            }
        }
    }
    // request ids: every case gets one of the four by its position; the cases at and above the limit (where
    // the guard acts) are repeated with the other three, appended so that earlier indices stay put
    for (i, c) in out.iter_mut().enumerate() {
        c.idk = (i % REQ_IDS.len()) as u8;
    }
    let extra: Vec<Case> = out
        .iter()
        .filter(|c| !c.path.is_notify() && c.limit.is_some_and(|l| c.size >= l))
        .flat_map(|c| (0..REQ_IDS.len() as u8).filter(|k| *k != c.idk).map(|k| Case { idk: k, ..c.clone() }).collect::<Vec<_>>())
        .collect();
    out.extend(extra);
    out
}

/// BEVE string of n bytes: 1 header byte + compressed length (1/2/4/8 bytes) + n
fn beve_len(n: usize) -> usize {
    let sz = if n < 64 {
        1
    } else if n < 16384 {
        2
    } else if n < (1 << 30) {
        4
    } else {
        8
    };
    1 + sz + n
}
fn beve_payload_for(b: usize) -> Option<usize> {
    [2usize, 3, 5, 9].iter().filter_map(|o| b.checked_sub(*o)).find(|n| beve_len(*n) == b)
}

/// (query length, body length) realised for a case; 48 + q + b is the real size.
fn shape(c: &Case) -> (usize, usize) {
    let min_b = c.path.min_body();
    let total = c.size.max(frames::HEADER + min_b);
    let var = total - frames::HEADER - min_b;
    let (mut q, mut b) = match c.place {
        Place::Query => (var, min_b),
        Place::Body => (0, min_b + var),
        Place::Split => (var / 2, min_b + var - var / 2),
    };
    if c.path == PathK::BcastBeve {
        // not every length is a BEVE string encoding; move bytes to the query, total unchanged
        while beve_payload_for(b).is_none() {
            b -= 1;
            q += 1;
        }
    }
    (q, b)
}

fn mk_query(q: usize) -> String {
    if q == 0 { String::new() } else { format!("/{}", "q".repeat(q - 1)) }
}
fn raw_body(b: usize) -> Vec<u8> {
    (0..b).map(|i| (i % 251) as u8).collect()
}

// ------------------------------------------------------------------ per-case result

#[derive(Clone, Copy, Debug, PartialEq, Eq, PartialOrd, Ord)]
enum Class {
    Delivered,
    Replaced,
    Dropped,
    Refused,
}
impl Class {
    fn name(self) -> &'static str {
        match self {
            Class::Delivered => "delivered_unchanged",
            Class::Replaced => "replaced_by_error",
            Class::Dropped => "dropped_and_reported",
            Class::Refused => "refused_locally",
        }
    }
}

#[derive(Default, Debug)]
struct CaseOut {
    viol: Vec<(String, String)>,
    notes: Vec<String>,
    machinery: Option<String>,
    class: Option<Class>,
    /// sizes of every binary message seen by the raw peer (clause A runs over all of them)
    wire: Vec<usize>,
    /// implementation results checked (wire messages + local call results + hook events)
    checked: u64,
}

impl CaseOut {
    fn bad(&mut self, c: &Case, clause: &str, what: String) {
        let (q, b) = shape(c);
        self.viol.push((
            format!("C17:{}:{}", c.path.name(), clause),
            format!(
                "{} [limit={:?} size={} (48+{}+{}) placement={} path={}]",
                what,
                c.limit,
                frames::HEADER + q + b,
                q,
                b,
                c.place.name(),
                c.path.name()
            ),
        ));
    }
    fn mach(&mut self, s: impl Into<String>) {
        if self.machinery.is_none() {
            self.machinery = Some(s.into());
        }
    }
}

enum Rx {
    Bin(Vec<u8>),
    Other(String),
    End(String),
    Nothing,
}
impl Rx {
    fn describe(&self) -> String {
        match self {
            Rx::Bin(b) => match frames::parse_one(b) {
                Ok(Some((f, n))) if n == b.len() => format!(
                    "binary {} bytes (id={:#x} notify={} ec={} q={} b={})",
                    b.len(),
                    f.h.id,
                    f.h.notify,
                    f.h.ec,
                    f.query.len(),
                    f.body.len()
                ),
                _ => format!("binary {} bytes (not one REPE frame)", b.len()),
            },
            Rx::Other(s) => s.clone(),
            Rx::End(s) => format!("connection ended: {s}"),
            Rx::Nothing => "nothing".into(),
        }
    }
}

async fn rx<S: AsyncRead + AsyncWrite + Unpin>(ws: &mut WebSocketStream<S>, o: &mut CaseOut) -> Rx {
    loop {
        match tokio::time::timeout(WAIT, ws.next()).await {
            Err(_) => return Rx::Nothing,
            Ok(None) => return Rx::End("stream ended".into()),
            Ok(Some(Err(e))) => return Rx::End(e.to_string()),
            Ok(Some(Ok(WsMessage::Binary(b)))) => {
                o.wire.push(b.len());
                o.checked += 1;
                return Rx::Bin(b);
            }
            Ok(Some(Ok(WsMessage::Text(t)))) => return Rx::Other(format!("text message of {} bytes", t.len())),
            Ok(Some(Ok(WsMessage::Close(_)))) => return Rx::End("close frame".into()),
            Ok(Some(Ok(_))) => continue,
        }
    }
}

fn parse_whole(b: &[u8]) -> Option<Frame> {
    match frames::parse_one(b) {
        Ok(Some((f, n))) if n == b.len() => Some(f),
        _ => None,
    }
}

fn fits(limit: Option<usize>, size: usize) -> bool {
    limit.is_none_or(|l| size <= l)
}

fn unlimited_cfg() -> WebSocketConfig {
    WebSocketLimits::unlimited().into()
}
fn limits_for(limit: Option<usize>) -> WebSocketLimits {
    // inbound thresholds removed (requests carry queries up to 2x the limit); only the
    // outbound guard under test is configured
    WebSocketLimits::unlimited().with_assumed_peer_frame_limit(limit)
}

static SLOT: AtomicU32 = AtomicU32::new(0);
fn next_slot() -> u16 {
    (SLOT.fetch_add(1, Ordering::Relaxed) % 60000 + 1) as u16
}

/// Clauses B and C for a response that is itself an error reply: delivered means same id, error
/// code, query and message, and the size the harness planned (header fields such as the body format
/// code of an error reply are C03's business); otherwise as for any response.
fn check_error_response(o: &mut CaseOut, c: &Case, got: &Rx, expected: &Frame, id: u64) {
    let want_len = expected.to_bytes().len();
    if !fits(c.limit, want_len) {
        return check_response(o, c, got, expected, id);
    }
    match got {
        Rx::Bin(b) => match parse_whole(b) {
            Some(f) if f.h.id == id && f.h.ec == expected.h.ec && f.query == expected.query && f.body == expected.body => {
                if b.len() != want_len {
                    o.mach(format!("size model of an error reply wrong: planned {want_len}, got {}", b.len()));
                }
                o.class = Some(Class::Delivered);
            }
            Some(f) if f.h.ec == INTERNAL_ERROR => o.bad(c, "small-refused", format!("an error response within the limit was replaced by InternalError ({:?})", String::from_utf8_lossy(&f.body[..f.body.len().min(80)]))),
            _ => o.bad(c, "small-altered", format!("an error response within the limit arrived altered: {}", got.describe())),
        },
        other => o.bad(c, "small-refused", format!("an error response within the limit was not delivered: {}", other.describe())),
    }
}

/// Clauses B and C for a response-shaped message.
fn check_response(o: &mut CaseOut, c: &Case, got: &Rx, expected: &Frame, id: u64) {
    let want = expected.to_bytes();
    if fits(c.limit, want.len()) {
        match got {
            Rx::Bin(b) if *b == want => o.class = Some(Class::Delivered),
            Rx::Bin(b) => match parse_whole(b) {
                Some(f) if f.h.ec != 0 => o.bad(
                    c,
                    "small-refused",
                    format!(
                        "a response within the limit was replaced by error {} ({:?})",
                        f.h.ec,
                        String::from_utf8_lossy(&f.body[..f.body.len().min(80)])
                    ),
                ),
                _ => o.bad(c, "small-altered", format!("a response within the limit arrived altered: {}", got.describe())),
            },
            other => o.bad(c, "small-refused", format!("a response within the limit was not delivered: {}", other.describe())),
        }
        return;
    }
    let limit = c.limit.unwrap();
    match got {
        Rx::Bin(b) if b.len() > limit => {} // clause A reports it
        Rx::Bin(b) => match parse_whole(b) {
            None => o.bad(c, "replacement-malformed", format!("oversized response replaced by {}", got.describe())),
            Some(f) if f.h.ec != INTERNAL_ERROR => o.bad(
                c,
                "replacement-code",
                format!("oversized response replaced by a message with ec={} instead of InternalError(9)", f.h.ec),
            ),
            Some(f) if f.h.id != id => o.bad(
                c,
                "replacement-id",
                format!("replacement error carries id {:#x}, the request id is {:#x}", f.h.id, id),
            ),
            Some(f) if f.h.notify != 0 => o.bad(c, "replacement-notify-flag", "replacement error has the notify flag set".into()),
            Some(_) => o.class = Some(Class::Replaced),
        },
        other => o.bad(c, "replacement-missing", format!("oversized response: no error reply arrived ({})", other.describe())),
    }
}

#[derive(Debug, Clone)]
enum Ev {
    TooLarge { size: usize, limit: usize },
    Other(String),
}

/// Clauses B and D for a notification.
fn check_notify(o: &mut CaseOut, c: &Case, seen: &[Vec<u8>], expected: &Frame, events: &[Ev]) {
    let want = expected.to_bytes();
    let reports: Vec<(usize, usize)> = events
        .iter()
        .filter_map(|e| match e {
            Ev::TooLarge { size, limit } => Some((*size, *limit)),
            _ => None,
        })
        .collect();
    o.checked += events.len() as u64;
    for e in events {
        if let Ev::Other(s) = e {
            o.notes.push(format!("{}: unexpected on_error event {s}", c.path.name()));
        }
    }
    let r = c.repeat as usize;
    if fits(c.limit, want.len()) {
        match seen {
            [] => o.bad(c, "small-refused", "a notification within the limit never reached the peer".into()),
            [one, rest @ ..] => {
                if *one == want {
                    o.class = Some(Class::Delivered);
                } else {
                    o.bad(c, "small-altered", format!("a notification within the limit arrived altered: {}", Rx::Bin(one.clone()).describe()));
                }
                if seen.len() < r {
                    o.bad(c, "small-refused", format!("the notification (within the limit) was sent {r} times in a row and reached the peer {} times", seen.len()));
                } else if rest.iter().any(|m| *m != want) {
                    o.bad(c, "small-altered", "a repeated notification within the limit arrived altered".into());
                } else if seen.len() > r {
                    o.notes.push(format!("{}: notification delivered {} times, sent {r} times", c.path.name(), seen.len()));
                }
            }
        }
        if !reports.is_empty() {
            o.notes.push(format!("{}: OutboundTooLarge reported for a message within the limit", c.path.name()));
        }
        return;
    }
    let limit = c.limit.unwrap();
    let mut dropped = true;
    for m in seen {
        dropped = false;
        if m.len() <= limit {
            o.bad(c, "oversize-notify-not-dropped", format!("an oversized notification was not dropped; the peer saw {}", Rx::Bin(m.clone()).describe()));
        } // else clause A reports it
    }
    match reports.len() {
        0 => o.bad(c, "drop-not-reported", "an oversized notification produced no OutboundTooLarge event on the on_error hook".into()),
        n if n < r => o.bad(c, "drop-not-reported", format!("the oversized notification was sent {r} times in a row (each one dropped) but only {n} OutboundTooLarge events reached the on_error hook")),
        n if n == r => {
            if reports[0] != (want.len(), limit) {
                o.notes.push(format!(
                    "{}: OutboundTooLarge reports size={} limit={} for a {}-byte message and limit {}",
                    c.path.name(),
                    reports[0].0,
                    reports[0].1,
                    want.len(),
                    limit
                ));
            }
            if dropped {
                o.class = Some(Class::Dropped);
            }
        }
        n => o.bad(c, "drop-reported-twice", format!("{r} oversized notification(s) produced {n} OutboundTooLarge events")),
    }
}

/// Clause A over everything the raw peer saw.
fn check_wire(o: &mut CaseOut, c: &Case) {
    if let Some(l) = c.limit {
        if let Some(&worst) = o.wire.iter().filter(|s| **s > l).max() {
            o.bad(c, "oversize-on-wire", format!("the peer received a binary message of {worst} bytes, over the assumed limit {l}"));
        }
    }
}

// ------------------------------------------------------------------ server paths

async fn server_case(c: &Case, q: usize, b: usize) -> CaseOut {
    let mut o = CaseOut::default();
    let query = mk_query(q);
    let events: Arc<Mutex<Vec<Ev>>> = Arc::default();
    let registry = PeerRegistry::new();
    let mut router = Router::new().with_json("/echo", |v: Value| Ok(v));
    let resp_hdr = Hdr { version: 1, id: rid(), query_format: 1, ..Default::default() };
    let note_hdr = Hdr { version: 1, id: 0, notify: 1, query_format: 1, ..Default::default() };
    let text = |ch: &str, n: usize| ch.repeat(n);
    let expected: Frame;
    // what the broadcast will carry
    let mut bcast_text = String::new();
    let mut bcast_raw = Vec::new();
    match c.path {
        PathK::Inline | PathK::OffReader => {
            let s = text("j", b - 2);
            let body = format!("\"{s}\"").into_bytes();
            // oversized cases with the `split` placement: the handler's answer is small and a middleware swaps
            // the big body in through the message's public fields WITHOUT touching the header lengths (what
            // is measured against the limit is what would be sent, not what the header says)
            let swapped = c.place == Place::Split && c.limit.is_some_and(|l| frames::HEADER + q + b > l);
            if swapped {
                let (target, big) = (query.clone().into_bytes(), body.clone());
                router = router.with_middleware(move |req: &repe::Message, next: repe::server::Next<'_>| {
                    let mut r = next.run(req)?;
                    if req.query == target {
                        r.body = big.clone();
                    }
                    Ok(r)
                });
                let h = move |_v: Value| Ok(Value::String("s".into()));
                router = if c.path == PathK::Inline { router.with_json(&query, h) } else { router.with_json_blocking(&query, h) };
            } else {
                let h = move |_v: Value| Ok(Value::String(s.clone()));
                router = if c.path == PathK::Inline { router.with_json(&query, h) } else { router.with_json_blocking(&query, h) };
            }
            expected = Frame::new(Hdr { body_format: frames::FMT_JSON, ..resp_hdr }, query.as_bytes(), &body);
        }
        PathK::InlineError | PathK::OffReaderError => {
            let msg = text("e", b);
            let m2 = msg.clone();
            let h = move |_v: Value| -> Result<Value, (repe::ErrorCode, String)> { Err((repe::ErrorCode::InvalidBody, m2.clone())) };
            router = if c.path == PathK::InlineError { router.with_json(&query, h) } else { router.with_json_blocking(&query, h) };
            // only id, ec, query and body of this frame are compared (see check_error_response)
            expected = Frame::new(Hdr { body_format: frames::FMT_UTF8, ec: 4, ..resp_hdr }, query.as_bytes(), msg.as_bytes());
        }
        PathK::CtxNotify => {
            let body = raw_body(b);
            let (m, bd) = (query.clone(), body.clone());
            router = router.with_json_ctx("/push", move |ctx: &CallContext, _v: Value| {
                let sent = match ctx.peer() {
                    Some(p) => p.send_notify(&m, NotifyBody::Raw(bd.clone(), BodyFormat::RawBinary)).is_ok(),
                    None => false,
                };
                Ok(json!(sent))
            });
            expected = Frame::new(Hdr { body_format: frames::FMT_RAW, ..note_hdr }, query.as_bytes(), &body);
        }
        PathK::BcastJson => {
            bcast_text = text("j", b - 2);
            expected = Frame::new(Hdr { body_format: frames::FMT_JSON, ..note_hdr }, query.as_bytes(), format!("\"{bcast_text}\"").as_bytes());
        }
        PathK::BcastBeve => {
            let Some(n) = beve_payload_for(b) else {
                o.mach(format!("no BEVE string has {b} bytes"));
                return o;
            };
            bcast_text = text("v", n);
            let enc = match beve::to_vec(&bcast_text) {
                Ok(e) if e.len() == b => e,
                other => {
                    o.mach(format!("BEVE length model wrong for n={n}: {:?}", other.map(|e| e.len())));
                    return o;
                }
            };
            expected = Frame::new(Hdr { body_format: frames::FMT_BEVE, ..note_hdr }, query.as_bytes(), &enc);
        }
        PathK::BcastUtf8 => {
            bcast_text = text("u", b);
            expected = Frame::new(Hdr { body_format: frames::FMT_UTF8, ..note_hdr }, query.as_bytes(), bcast_text.as_bytes());
        }
        PathK::BcastRaw => {
            bcast_raw = raw_body(b);
            expected = Frame::new(Hdr { body_format: frames::FMT_RAW, ..note_hdr }, query.as_bytes(), &bcast_raw);
        }
        _ => unreachable!(),
    }
    debug_assert_eq!(expected.to_bytes().len(), frames::HEADER + q + b);
    let ev = events.clone();
    let shared = WebSocketServer::new(router)
        .with_limits(limits_for(c.limit))
        .with_peer_registry(registry.clone())
        .on_error(move |e: &ConnectionError| {
            let x = match e {
                ConnectionError::OutboundTooLarge { size, limit, .. } => Ev::TooLarge { size: *size, limit: *limit },
                other => Ev::Other(other.to_string().chars().take(120).collect()),
            };
            ev.lock().unwrap().push(x);
        })
        .into_shared();
    let mut conn = wsh::connect(&shared, Serve::Plain, Some(unlimited_cfg())).await;
    memstream::settle().await; // connect hooks ran: the peer is in the registry
    if registry.len() != 1 {
        o.mach(format!("peer registry holds {} peers after connect", registry.len()));
        return o;
    }

    let mut notifies: Vec<Vec<u8>> = Vec::new();
    let mut usable = true;
    match c.path {
        PathK::Inline | PathK::OffReader => {
            let trig = Frame::request(rid(), &query, b"null", frames::FMT_JSON, false);
            if let Err(e) = conn.send_frame(&trig).await {
                o.mach(format!("cannot send trigger: {e}"));
                return o;
            }
            let got = rx(&mut conn.client, &mut o).await;
            check_response(&mut o, c, &got, &expected, rid());
        }
        PathK::InlineError | PathK::OffReaderError => {
            let trig = Frame::request(rid(), &query, b"null", frames::FMT_JSON, false);
            if let Err(e) = conn.send_frame(&trig).await {
                o.mach(format!("cannot send trigger: {e}"));
                return o;
            }
            let got = rx(&mut conn.client, &mut o).await;
            check_error_response(&mut o, c, &got, &expected, rid());
        }
        PathK::CtxNotify => {
          for _round in 0..c.repeat {
            if !usable {
                break;
            }
            let trig = Frame::request(rid(), "/push", b"null", frames::FMT_JSON, false);
            if let Err(e) = conn.send_frame(&trig).await {
                o.mach(format!("cannot send trigger: {e}"));
                return o;
            }
            // the notify is queued before the trigger's own response (same FIFO channel),
            // so that response is the barrier that decides presence/absence
            loop {
                match rx(&mut conn.client, &mut o).await {
                    Rx::Bin(m) => match parse_whole(&m) {
                        Some(f) if f.h.notify == 0 && f.h.id == rid() => {
                            if f.h.ec != 0 || f.body != b"true" {
                                o.mach(format!("handler could not push the notify: ec={} body={:?}", f.h.ec, String::from_utf8_lossy(&f.body)));
                            }
                            break;
                        }
                        _ => notifies.push(m),
                    },
                    other => {
                        usable = false;
                        o.bad(c, "unusable-after", format!("the response of the pushing request never arrived: {}", other.describe()));
                        break;
                    }
                }
            }
          }
        }
        _ => {
          for _round in 0..c.repeat {
            let res = match c.path {
                PathK::BcastJson => match registry.broadcast_notify_json(&query, &bcast_text) {
                    Ok(r) => r,
                    Err(e) => {
                        o.mach(format!("broadcast_notify_json failed: {e}"));
                        return o;
                    }
                },
                PathK::BcastBeve => match registry.broadcast_notify_beve(&query, &bcast_text) {
                    Ok(r) => r,
                    Err(e) => {
                        o.mach(format!("broadcast_notify_beve failed: {e}"));
                        return o;
                    }
                },
                PathK::BcastUtf8 => registry.broadcast_notify_utf8(&query, &bcast_text),
                _ => registry.broadcast_notify_raw(&query, BodyFormat::RawBinary, &bcast_raw),
            };
            if res.len() != 1 || !res.values().all(|r| r.is_ok()) {
                o.mach(format!("broadcast result map unexpected: {res:?}"));
                return o;
            }
          }
        }
    }
    // clause F (and, for broadcasts, the barrier behind the queued notification)
    if usable {
        let body = br#"{"k":1}"#;
        let echo = Frame::request(ECHO_ID, "/echo", body, frames::FMT_JSON, false);
        match conn.send_frame(&echo).await {
            Err(e) => o.bad(c, "unusable-after", format!("cannot send the follow-up echo: {e}")),
            Ok(()) => loop {
                match rx(&mut conn.client, &mut o).await {
                    Rx::Bin(m) => match parse_whole(&m) {
                        Some(f) if f.h.notify == 0 && f.h.id == ECHO_ID && f.h.ec == 0 && f.body == body => break,
                        // anything that is not the echo's answer was queued before it
                        Some(f) if f.h.notify != 0 || f.h.id != ECHO_ID => notifies.push(m),
                        _ => {
                            o.bad(c, "unusable-after", format!("follow-up echo answered by {}", Rx::Bin(m).describe()));
                            break;
                        }
                    },
                    other => {
                        o.bad(c, "unusable-after", format!("follow-up echo got no answer: {}", other.describe()));
                        break;
                    }
                }
            },
        }
    }
    let evs = events.lock().unwrap().clone();
    if c.path.is_notify() {
        check_notify(&mut o, c, &notifies, &expected, &evs);
    } else {
        o.checked += evs.len() as u64;
        if !notifies.is_empty() {
            o.notes.push(format!("{}: {} unexpected notify frames", c.path.name(), notifies.len()));
        }
    }
    // nothing else is in flight
    match rx(&mut conn.client, &mut o).await {
        Rx::Nothing => {}
        other => o.notes.push(format!("{}: extra traffic after the echo: {}", c.path.name(), other.describe())),
    }
    check_wire(&mut o, c);
    drop(conn.client);
    match tokio::time::timeout(WAIT, conn.server).await {
        Ok(Ok(_)) => {}
        Ok(Err(e)) => o.bad(c, "server-task-panicked", format!("connection task ended abnormally: {e}")),
        Err(_) => o.notes.push(format!("{}: server task still running after the peer left", c.path.name())),
    }
    o
}

// ------------------------------------------------------------------ proxy path

/// Wait until the proxy's upstream client wrote one whole frame; returns its bytes.
async fn upstream_request(dir: &memstream::Dir) -> Vec<u8> {
    memstream::settle().await;
    dir.take()
}

async fn proxy_case(c: &Case, q: usize, b: usize) -> CaseOut {
    let mut o = CaseOut::default();
    let (down_srv, down_cli, _dctl) = memstream::pair();
    let (up_cli, up_srv, uctl) = memstream::pair();
    let _keep_upstream_end = up_srv; // the harness scripts this side through `uctl`
    let slot = next_slot();
    repe::verif_io::register_stream(slot, up_cli);
    let upstream = match AsyncClient::connect(("127.254.77.1", slot)).await {
        Ok(u) => u,
        Err(e) => {
            o.mach(format!("AsyncClient::connect over the seam failed: {e}"));
            return o;
        }
    };
    let ws_srv = rtt::WebSocketStream::from_raw_socket(down_srv, Role::Server, Some(unlimited_cfg())).await;
    let mut peer: WebSocketStream<End> = WebSocketStream::from_raw_socket(down_cli, Role::Client, Some(unlimited_cfg())).await;
    let task = tokio::spawn(proxy_connection_with_limits(ws_srv, upstream, limits_for(c.limit)));

    let req = Frame::request(rid(), "/up", b"[1]", frames::FMT_JSON, false);
    if let Err(e) = peer.send(WsMessage::Binary(req.to_bytes())).await {
        o.mach(format!("cannot send through the proxy: {e}"));
        return o;
    }
    let fwd = upstream_request(&uctl.a_to_b).await;
    if fwd != req.to_bytes() {
        o.mach(format!("proxy forwarded {} bytes upstream, expected the {}-byte request", fwd.len(), req.to_bytes().len()));
        return o;
    }
    let query = mk_query(q);
    let body = raw_body(b);
    let resp = Frame::new(
        Hdr {
            version: 1,
            id: rid(),
            query_format: 1,
            body_format: frames::FMT_RAW,
            ec: if c.path == PathK::ProxyError { 4096 } else { 0 },
            ..Default::default()
        },
        query.as_bytes(),
        &body,
    );
    uctl.b_to_a.push(&resp.to_bytes());
    let got = rx(&mut peer, &mut o).await;
    check_response(&mut o, c, &got, &resp, rid());

    // clause F through the same proxy connection
    let req2 = Frame::request(ECHO_ID, "/echo", b"7", frames::FMT_JSON, false);
    let mut resp2 = Frame::request(ECHO_ID, "/echo", b"7", frames::FMT_JSON, false);
    resp2.h.notify = 0;
    match peer.send(WsMessage::Binary(req2.to_bytes())).await {
        Err(e) => o.bad(c, "unusable-after", format!("cannot send the follow-up request: {e}")),
        Ok(()) => {
            let fwd2 = upstream_request(&uctl.a_to_b).await;
            if fwd2 != req2.to_bytes() {
                o.bad(c, "unusable-after", format!("follow-up request was not forwarded upstream ({} bytes seen)", fwd2.len()));
            } else {
                uctl.b_to_a.push(&resp2.to_bytes());
                match rx(&mut peer, &mut o).await {
                    Rx::Bin(m) if m == resp2.to_bytes() => {}
                    other => o.bad(c, "unusable-after", format!("follow-up response through the proxy: {}", other.describe())),
                }
            }
        }
    }
    match rx(&mut peer, &mut o).await {
        Rx::Nothing => {}
        other => o.notes.push(format!("proxy: extra traffic after the echo: {}", other.describe())),
    }
    check_wire(&mut o, c);
    drop(peer);
    match tokio::time::timeout(WAIT, task).await {
        Ok(Err(e)) if e.is_panic() => o.bad(c, "server-task-panicked", format!("proxy task panicked: {e}")),
        _ => {}
    }
    o
}


// ------------------------------------------------------------------ proxy: one upstream client shared by two downstream connections

/// Two downstream connections are proxied through clones of ONE upstream `AsyncClient` (every downstream
/// client numbers its requests from 1, so ids collide). Connection A has request `rid()` in flight upstream;
/// connection B forwards a request with the same id and a query of `q` bytes. Whatever the proxy does about
/// it (fail B's connection, answer B itself, forward later): no binary message larger than the limit may reach
/// either downstream peer, A's answer arrives unchanged, nothing panics.
async fn proxy_shared_case(limit: usize, q: usize) -> CaseOut {
    let mut o = CaseOut::default();
    let c = Case { limit: Some(limit), size: frames::HEADER + q + 3, place: Place::Query, path: PathK::Proxy, repeat: 1, idk: 0 };
    let (up_cli, up_srv, uctl) = memstream::pair();
    let _keep_upstream_end = up_srv;
    let slot = next_slot();
    repe::verif_io::register_stream(slot, up_cli);
    let upstream = match AsyncClient::connect(("127.254.77.1", slot)).await {
        Ok(u) => u,
        Err(e) => {
            o.mach(format!("AsyncClient::connect over the seam failed: {e}"));
            return o;
        }
    };
    let mut peers = Vec::new();
    let mut tasks = Vec::new();
    for _ in 0..2 {
        let (down_srv, down_cli, _dctl) = memstream::pair();
        let ws_srv = rtt::WebSocketStream::from_raw_socket(down_srv, Role::Server, Some(unlimited_cfg())).await;
        let peer: WebSocketStream<End> = WebSocketStream::from_raw_socket(down_cli, Role::Client, Some(unlimited_cfg())).await;
        tasks.push(tokio::spawn(proxy_connection_with_limits(ws_srv, upstream.clone(), limits_for(Some(limit)))));
        peers.push(peer);
    }
    let mut pb = peers.pop().unwrap();
    let mut pa = peers.pop().unwrap();
    // A: a request that stays in flight upstream
    let req_a = Frame::request(rid(), "/up", b"[1]", frames::FMT_JSON, false);
    if let Err(e) = pa.send(WsMessage::Binary(req_a.to_bytes())).await {
        o.mach(format!("cannot send through the proxy: {e}"));
        return o;
    }
    let fwd = upstream_request(&uctl.a_to_b).await;
    if fwd != req_a.to_bytes() {
        o.mach(format!("proxy forwarded {} bytes upstream for A, expected the {}-byte request", fwd.len(), req_a.to_bytes().len()));
        return o;
    }
    // B: the same id, long query
    let query = mk_query(q);
    let req_b = Frame::request(rid(), &query, b"[2]", frames::FMT_JSON, false);
    let _ = pb.send(WsMessage::Binary(req_b.to_bytes())).await;
    memstream::settle().await;
    // if the proxy forwarded B's request after all, the upstream answers it (small answer)
    let fwd_b = uctl.a_to_b.take();
    let b_forwarded = !fwd_b.is_empty();
    // everything B's peer gets now (nothing, an answer made by the proxy, or the end of the connection)
    let mut b_seen = 0;
    loop {
        match rx(&mut pb, &mut o).await {
            Rx::Bin(_) => b_seen += 1,
            _ => break,
        }
        if b_seen > 4 {
            break;
        }
    }
    // the upstream answers A (and B's request, if it was forwarded: same id, answered once more)
    let resp = Frame::new(Hdr { version: 1, id: rid(), query_format: 1, body_format: frames::FMT_JSON, ..Default::default() }, b"/up", b"\"a\"");
    uctl.b_to_a.push(&resp.to_bytes());
    match rx(&mut pa, &mut o).await {
        Rx::Bin(m) if m == resp.to_bytes() => o.class = Some(Class::Delivered),
        other => o.bad(&c, "small-altered", format!("connection A's answer (within the limit) did not arrive unchanged while connection B re-used its request id: {}", other.describe())),
    }
    if b_forwarded {
        uctl.b_to_a.push(&resp.to_bytes());
        loop {
            match rx(&mut pb, &mut o).await {
                Rx::Bin(_) => {}
                _ => break,
            }
        }
    }
    check_wire(&mut o, &c);
    drop(pa);
    drop(pb);
    for t in tasks {
        if let Ok(Err(e)) = tokio::time::timeout(WAIT, t).await {
            if e.is_panic() {
                o.bad(&c, "server-task-panicked", format!("proxy task panicked: {e}"));
            }
        }
    }
    o
}

fn proxy_shared_cases(tier: Tier) -> Vec<(usize, usize)> {
    let mut v = Vec::new();
    for limit in [1024usize, 4096, tier.pick(65_536, 1 << 20)] {
        for q in [8usize, limit - 200, limit - 122, limit - 121, limit - 100, limit - 52, limit - 51, limit - 48, limit, 2 * limit] {
            v.push((limit, q));
        }
    }
    v
}

fn run_proxy_shared(limit: usize, q: usize) -> CaseOut {
    let r = std::panic::catch_unwind(std::panic::AssertUnwindSafe(|| memstream::run_paused(proxy_shared_case(limit, q))));
    match r {
        Ok(o) => o,
        Err(_) => {
            let mut o = CaseOut::default();
            let c = Case { limit: Some(limit), size: frames::HEADER + q + 3, place: Place::Query, path: PathK::Proxy, repeat: 1, idk: 0 };
            o.bad(&c, "panic", "panic while executing the shared-upstream proxy case".into());
            o
        }
    }
}

// ------------------------------------------------------------------ client paths

async fn client_case(c: &Case, q: usize, b: usize) -> CaseOut {
    let mut o = CaseOut::default();
    let (cli_end, srv_end, ctl) = memstream::pair();
    let slot = next_slot();
    repe::verif_io::register_stream(slot, cli_end);
    let url = format!("ws://127.254.77.1:{slot}/repe");
    let (acc, con) = tokio::join!(
        tokio_tungstenite::accept_async_with_config(srv_end, Some(unlimited_cfg())),
        WebSocketClient::connect_with_limits(&url, limits_for(c.limit))
    );
    let (mut srv, client) = match (acc, con) {
        (Ok(s), Ok(cl)) => (s, cl),
        (a, b) => {
            o.mach(format!("in-memory WebSocket handshake failed: accept={:?} connect={:?}", a.err().map(|e| e.to_string()), b.err().map(|e| e.to_string())));
            return o;
        }
    };
    let is_call = c.path == PathK::ClientCall;
    let path = mk_query(q);
    let body = raw_body(b);
    let real = frames::HEADER + q + b;
    memstream::settle().await;
    let written_before = ctl.a_to_b.written_total();
    let (cl2, p2, b2) = (client.clone(), path.clone(), body.clone());
    let task = tokio::spawn(async move {
        if is_call {
            cl2.call_with_formats(&p2, 1, Some(&b2), frames::FMT_RAW).await.map(|m| m.body)
        } else {
            cl2.notify_with_formats(&p2, 1, Some(&b2), frames::FMT_RAW).await.map(|_| Vec::new())
        }
    });
    // a refused send returns at once and the paused clock then runs out: Nothing
    let got = rx(&mut srv, &mut o).await;
    let mut seen_id = None;
    if let Rx::Bin(m) = &got {
        if let Some(f) = parse_whole(m) {
            seen_id = Some(f.h.id);
            if is_call && f.h.notify == 0 {
                let reply = Frame::new(
                    Hdr { version: 1, id: f.h.id, query_format: 1, body_format: frames::FMT_UTF8, ..Default::default() },
                    f.query.as_slice(),
                    b"ok",
                );
                let _ = srv.send(WsMessage::Binary(reply.to_bytes())).await;
            }
        }
    }
    let result = match tokio::time::timeout(WAIT, task).await {
        Ok(Ok(r)) => r,
        Ok(Err(e)) => {
            o.bad(c, "client-panicked", format!("client call task ended abnormally: {e}"));
            check_wire(&mut o, c);
            return o;
        }
        Err(_) => Err(RepeError::Io(std::io::Error::other("harness: call never returned"))),
    };
    o.checked += 1;
    memstream::settle().await;
    let written = ctl.a_to_b.written_total() - written_before;
    let expected = Frame::new(
        Hdr { version: 1, id: seen_id.unwrap_or(0), notify: !is_call as u8, query_format: 1, body_format: frames::FMT_RAW, ..Default::default() },
        path.as_bytes(),
        &body,
    );
    if fits(c.limit, real) {
        match (&got, &result) {
            (Rx::Bin(m), Ok(_)) if *m == expected.to_bytes() => o.class = Some(Class::Delivered),
            (Rx::Bin(m), _) if *m != expected.to_bytes() => {
                o.bad(c, "small-altered", format!("a request within the limit arrived altered: {}", got.describe()))
            }
            (_, Err(e)) => o.bad(c, "small-refused", format!("a request within the limit failed: {e} (peer saw {})", got.describe())),
            (other, Ok(_)) => o.bad(c, "small-refused", format!("a request within the limit reported success but the peer saw {}", other.describe())),
        }
    } else {
        let limit = c.limit.unwrap();
        match &result {
            Err(RepeError::MessageTooLarge { size, limit: l }) => {
                if *size != real || *l != limit {
                    o.notes.push(format!("{}: MessageTooLarge reports size={size} limit={l} for a {real}-byte frame and limit {limit}", c.path.name()));
                }
                if written == 0 && matches!(got, Rx::Nothing) {
                    o.class = Some(Class::Refused);
                }
            }
            Err(e) => o.bad(c, "client-no-local-error", format!("an oversized request failed with {e} instead of MessageTooLarge")),
            Ok(_) => o.bad(c, "client-no-local-error", "an oversized request reported success".into()),
        }
        if written != 0 || !matches!(got, Rx::Nothing) {
            o.bad(c, "client-sent-despite-refusal", format!("an oversized request put {written} bytes on the transport (peer saw {})", got.describe()));
        }
    }
    // clause F
    let cl3 = client.clone();
    let echo = tokio::spawn(async move { cl3.call_with_formats("/echo", 1, Some(b"ping"), frames::FMT_UTF8).await.map(|m| m.body) });
    match rx(&mut srv, &mut o).await {
        Rx::Bin(m) => match parse_whole(&m) {
            Some(f) if f.query == b"/echo" && f.body == b"ping" && f.h.notify == 0 => {
                let reply = Frame::new(
                    Hdr { version: 1, id: f.h.id, query_format: 1, body_format: frames::FMT_UTF8, ..Default::default() },
                    b"/echo",
                    b"pong",
                );
                let _ = srv.send(WsMessage::Binary(reply.to_bytes())).await;
                match tokio::time::timeout(WAIT, echo).await {
                    Ok(Ok(Ok(body))) if body == b"pong" => {}
                    other => o.bad(c, "unusable-after", format!("follow-up echo call returned {other:?}")),
                }
                o.checked += 1;
            }
            _ => o.bad(c, "unusable-after", format!("instead of the follow-up echo the peer saw {}", Rx::Bin(m).describe())),
        },
        other => o.bad(c, "unusable-after", format!("follow-up echo never reached the peer: {}", other.describe())),
    }
    match rx(&mut srv, &mut o).await {
        Rx::Nothing => {}
        other => o.notes.push(format!("{}: extra traffic after the echo: {}", c.path.name(), other.describe())),
    }
    check_wire(&mut o, c);
    drop(client);
    o
}

// ------------------------------------------------------------------ driver

fn run_case(c: &Case) -> CaseOut {
    let (q, b) = shape(c);
    CUR_REQ_ID.with(|x| x.set(REQ_IDS[c.idk as usize % REQ_IDS.len()]));
    let r = std::panic::catch_unwind(std::panic::AssertUnwindSafe(|| {
        memstream::run_paused(async {
            match c.path {
                PathK::Proxy | PathK::ProxyError => proxy_case(c, q, b).await,
                PathK::ClientCall | PathK::ClientNotify => client_case(c, q, b).await,
                _ => server_case(c, q, b).await,
            }
        })
    }));
    match r {
        Ok(o) => o,
        Err(p) => {
            let msg = p.downcast_ref::<String>().cloned().or_else(|| p.downcast_ref::<&str>().map(|s| s.to_string())).unwrap_or_default();
            let mut o = CaseOut::default();
            o.bad(c, "panic", format!("panic while executing the case: {msg}"));
            o
        }
    }
}

#[derive(Default)]
struct Acc {
    viol: Vec<(u64, String, String, Value)>,
    notes: BTreeSet<String>,
    machinery: Vec<String>,
    classes: BTreeMap<(PathK, Class), u64>,
    at_limit_delivered: BTreeMap<PathK, u64>,
    plus_one_refused: BTreeMap<PathK, u64>,
    no_limit_delivered: BTreeMap<PathK, u64>,
    states: BTreeSet<(Option<usize>, PathK, usize, usize)>,
    max_wire: BTreeMap<Option<usize>, usize>,
    transitions: u64,
    traces: u64,
}

struct StderrGag(i32);
impl StderrGag {
    /// The proxy path has no error hook and prints every refusal (with the whole query) to stderr.
    fn new() -> Option<StderrGag> {
        if std::env::var_os("VERIF_C17_STDERR").is_some() {
            return None;
        }
        unsafe {
            let saved = libc::dup(2);
            let null = libc::open(c"/dev/null".as_ptr(), libc::O_WRONLY);
            if saved < 0 || null < 0 {
                return None;
            }
            libc::dup2(null, 2);
            libc::close(null);
            Some(StderrGag(saved))
        }
    }
}
impl Drop for StderrGag {
    fn drop(&mut self) {
        unsafe {
            libc::dup2(self.0, 2);
            libc::close(self.0);
        }
    }
}

pub fn run(tier: Tier) -> ! {
    let ctx = Ctx::new("C17", tier);
    let cases = enumerate(tier);
    let samples = Samples::new(6);
    let prev_hook = std::panic::take_hook();
    std::panic::set_hook(Box::new(|_| {}));
    let gag = StderrGag::new();
    let accs = par::for_each_index(
        cases.len() as u64,
        1,
        |_| Acc::default(),
        |a: &mut Acc, i| {
            let c = &cases[i as usize];
            let (q, b) = shape(c);
            let o = run_case(c);
            a.traces += 1;
            a.transitions += o.checked;
            a.states.insert((c.limit, c.path, q, b));
            if let Some(m) = o.wire.iter().max() {
                let e = a.max_wire.entry(c.limit).or_insert(0);
                *e = (*e).max(*m);
            }
            if let Some(m) = &o.machinery {
                a.machinery.push(format!("{}: {m}", c.json()));
            }
            for n in &o.notes {
                a.notes.insert(n.clone());
            }
            if let Some(cl) = o.class {
                *a.classes.entry((c.path, cl)).or_insert(0) += 1;
                let real = frames::HEADER + q + b;
                match (c.limit, cl) {
                    (Some(l), Class::Delivered) if real == l => *a.at_limit_delivered.entry(c.path).or_insert(0) += 1,
                    (Some(l), Class::Replaced | Class::Dropped | Class::Refused) if real == l + 1 => {
                        *a.plus_one_refused.entry(c.path).or_insert(0) += 1
                    }
                    (None, Class::Delivered) => *a.no_limit_delivered.entry(c.path).or_insert(0) += 1,
                    _ => {}
                }
            }
            if !o.viol.is_empty() {
                // a verdict must reproduce: re-execute and compare the failing clauses
                let again = run_case(c);
                let k1: BTreeSet<&String> = o.viol.iter().map(|v| &v.0).collect();
                let k2: BTreeSet<&String> = again.viol.iter().map(|v| &v.0).collect();
                if k1 != k2 {
                    a.machinery.push(format!("nondeterministic verdict on {}: {k1:?} then {k2:?}", c.json()));
                }
                for (k, w) in o.viol {
                    a.viol.push((i, k, w, c.json()));
                }
            }
            if i % 97 == 0 {
                samples.offer(|| json!({"case": c.json(), "outcome": o.class.map(|c| c.name()), "wire_sizes": o.wire}));
            }
        },
    );
    // one upstream client shared by two downstream connections of the proxy (ids collide)
    let mut shared_cases = 0u64;
    let mut shared_checked = 0u64;
    let mut shared_viol: Vec<(String, String, Value)> = Vec::new();
    let mut shared_mach: Vec<String> = Vec::new();
    for (limit, q) in proxy_shared_cases(tier) {
        let o = run_proxy_shared(limit, q);
        shared_cases += 1;
        shared_checked += o.checked;
        if let Some(m) = &o.machinery {
            shared_mach.push(format!("proxy-shared limit {limit} query {q}: {m}"));
        }
        if !o.viol.is_empty() {
            let again = run_proxy_shared(limit, q);
            let k1: BTreeSet<&String> = o.viol.iter().map(|v| &v.0).collect();
            let k2: BTreeSet<&String> = again.viol.iter().map(|v| &v.0).collect();
            if k1 != k2 {
                shared_mach.push(format!("nondeterministic verdict on proxy-shared limit {limit} query {q}: {k1:?} then {k2:?}"));
            }
            for (k, w) in o.viol {
                shared_viol.push((k.replace("C17:proxy-response:", "C17:proxy-shared-upstream:"), format!("{w} [two downstream connections share one upstream client; B re-uses A's in-flight request id with a {q}-byte query]"), json!({"block": "proxy-shared", "limit": limit, "query_len": q})));
            }
        }
    }
    drop(gag);
    std::panic::set_hook(prev_hook);

    let mut all = Acc::default();
    for a in accs {
        all.viol.extend(a.viol);
        all.notes.extend(a.notes);
        all.machinery.extend(a.machinery);
        for (k, v) in a.classes {
            *all.classes.entry(k).or_insert(0) += v;
        }
        for (k, v) in a.at_limit_delivered {
            *all.at_limit_delivered.entry(k).or_insert(0) += v;
        }
        for (k, v) in a.plus_one_refused {
            *all.plus_one_refused.entry(k).or_insert(0) += v;
        }
        for (k, v) in a.no_limit_delivered {
            *all.no_limit_delivered.entry(k).or_insert(0) += v;
        }
        all.states.extend(a.states);
        for (k, v) in a.max_wire {
            let e = all.max_wire.entry(k).or_insert(0);
            *e = (*e).max(v);
        }
        all.transitions += a.transitions;
        all.traces += a.traces;
    }
    all.viol.sort_by(|x, y| (x.0, &x.1).cmp(&(y.0, &y.1)));
    for (_, k, w, case) in &all.viol {
        ctx.violation(k.clone(), w.clone(), case.clone());
    }
    for n in all.notes.iter().take(20) {
        ctx.note(n.clone());
    }
    all.machinery.sort();
    if let Some(m) = all.machinery.first() {
        if !ctx.has_violation() || m.starts_with("nondeterministic") {
            ctx.machinery(format!("{} harness problems, first: {m}", all.machinery.len()));
        }
    }
    // non-vacuity: every path delivered something, refused something, and met both
    // sides of the boundary
    for m in &shared_mach {
        ctx.machinery(m.clone());
    }
    for (k, w, case) in &shared_viol {
        ctx.violation(k.clone(), w.clone(), case.clone());
    }
    if !ctx.has_violation() && shared_checked == 0 {
        ctx.machinery("vacuous exploration: the shared-upstream proxy block saw no message");
    }
    let mut per_path = serde_json::Map::new();
    for p in PATHS {
        let g = |cl: Class| all.classes.get(&(p, cl)).copied().unwrap_or(0);
        let refused = g(Class::Replaced) + g(Class::Dropped) + g(Class::Refused);
        let at = all.at_limit_delivered.get(&p).copied().unwrap_or(0);
        let plus = all.plus_one_refused.get(&p).copied().unwrap_or(0);
        let nolim = all.no_limit_delivered.get(&p).copied().unwrap_or(0);
        per_path.insert(
            p.name().into(),
            json!({
                Class::Delivered.name(): g(Class::Delivered),
                Class::Replaced.name(): g(Class::Replaced),
                Class::Dropped.name(): g(Class::Dropped),
                Class::Refused.name(): g(Class::Refused),
                "delivered_at_exactly_limit": at,
                "refused_at_limit_plus_1": plus,
                "delivered_with_no_limit": nolim,
            }),
        );
        if !ctx.has_violation() && (g(Class::Delivered) == 0 || refused == 0 || at == 0 || plus == 0 || nolim == 0) {
            ctx.machinery(format!(
                "vacuous exploration on path {}: delivered={} refused={} at_limit={} limit+1={} no_limit={}",
                p.name(),
                g(Class::Delivered),
                refused,
                at,
                plus,
                nolim
            ));
        }
    }
    let classified: u64 = all.classes.values().sum();
    if !ctx.has_violation() && classified != all.traces {
        ctx.machinery(format!("{} of {} cases ended without a classified outcome", all.traces - classified, all.traces));
    }
    let limits: Vec<Value> = limits_of(tier).iter().map(|l| json!(l)).collect();
    let coverage = json!({
        "states": all.states.len(),
        "transitions": all.transitions,
        "traces_validated_against_impl": all.traces,
        "samples": samples.take(),
        "exhaustive": true,
        "cases_enumerated": cases.len(),
        "proxy_with_one_upstream_client_shared_by_two_downstream_connections": {"cases": shared_cases, "messages_checked": shared_checked, "rule": "connection A has request id 1 in flight upstream; connection B forwards a request with the same id and a query of 8, limit-200, limit-122, limit-121, limit-100, limit-52, limit-51, limit-48, limit, 2*limit bytes (limits 1 KiB, 4 KiB, 64 KiB [1 MiB]): no message larger than the limit reaches either downstream peer, A's answer arrives unchanged, nothing panics"},
        "rule": "cross product limit x total size x placement of the variable part x outbound path; each case runs the real endpoint over an in-memory transport on a paused single-threaded runtime, followed by a small echo on the same connection; states = distinct (limit, path, query length, body length) realised (the 48-byte class collapses the three placements), transitions = binary messages seen by the raw peer + local call results + on_error events checked",
        "bound": {
            "limits": limits,
            "sizes_per_limit": [format!("limit-{w}..=limit+{w}", w = tier.pick(2, 4)), "48 (path minimum: 50 where the body is a JSON/BEVE string)".to_string(), "limit/2".to_string(), "2*limit".to_string()],
            "sizes_without_limit": sizes_of(None, tier),
            "placements": PLACES.iter().map(|p| p.name()).collect::<Vec<_>>(),
            "paths": PATHS.iter().map(|p| p.name()).collect::<Vec<_>>(),
        },
        "nonvacuity": {
            "per_path": per_path,
            "largest_binary_message_seen_per_limit": all.max_wire.iter().map(|(k, v)| json!({"limit": k, "bytes": v})).collect::<Vec<_>>(),
            "distinct_outcome_classes": all.classes.keys().map(|k| k.1).collect::<BTreeSet<_>>().len(),
        },
    });
    ctx.finish(
        "model_checking",
        coverage,
        &[
            "the peer's real threshold is whatever the application configured as assumed_peer_frame_limit; limits below the size of the replacement error reply (about 180 bytes) are outside the property",
            "inbound thresholds are removed on every endpoint so that only the outbound guard decides",
            "the shutdown-drain branch of the writer task (messages still queued when the reader exits) is not scripted: reaching it needs a send between two polls of one select",
            "TLS and real TCP are replaced by the in-memory stream; the WebSocket framing and the HTTP upgrade are tungstenite's own",
        ],
    )
}

pub fn replay(case: &Value) -> Result<(), String> {
    if case["block"].as_str() == Some("proxy-shared") {
        let _gag = StderrGag::new();
        let o = run_proxy_shared(case["limit"].as_u64().ok_or("limit")? as usize, case["query_len"].as_u64().ok_or("query_len")? as usize);
        if let Some(m) = o.machinery {
            return Err(format!("machinery: {m}"));
        }
        return if o.viol.is_empty() { Ok(()) } else { Err(o.viol.iter().map(|(k, w)| format!("{k}: {w}")).collect::<Vec<_>>().join("\n")) };
    }
    let c = Case::from_json(case).ok_or("case needs limit, size, place, path")?;
    let _gag = StderrGag::new();
    let o = run_case(&c);
    if let Some(m) = o.machinery {
        return Err(format!("machinery: {m}"));
    }
    if o.viol.is_empty() {
        Ok(())
    } else {
        Err(o.viol.iter().map(|(k, w)| format!("{k}: {w}")).collect::<Vec<_>>().join("\n"))
    }
}
