//! C15 — connections whose serving starts AFTER the embedder's token was cancelled
//! (a drain has begun, the upgrade completes a moment later). They are accepted WebSocket
//! connections: "the disconnect callbacks run exactly once", the registry holds nothing
//! of them afterwards, and the serving future returns.
//!
//! In-memory, one current-thread runtime per scenario, 1..=3 connections sharing one
//! pre-cancelled `ShutdownToken`, both token-taking entry points.

use super::{Bad, Outcome, Variant};
use crate::memstream;
use repe::websocket_server::{HandshakeContext, ShutdownToken, WebSocketServer};
use repe::{PeerRegistry, Router};
use serde_json::{Value, json};
use std::sync::Arc;
use std::sync::atomic::{AtomicU64, Ordering};
use std::time::Duration;
use tokio_tungstenite::WebSocketStream;
use tokio_tungstenite::tungstenite::protocol::Role;

#[derive(Clone, Debug)]
pub(crate) struct PreScenario {
    pub variant: Variant,
    pub n: usize,
}

impl PreScenario {
    pub fn to_json(&self) -> Value {
        json!({"kind": "pre-cancelled", "variant": super::name(self.variant), "connections": self.n})
    }
    pub fn from_json(v: &Value) -> Result<PreScenario, String> {
        Ok(PreScenario { variant: super::variant_from_json(&v["variant"])?, n: v["connections"].as_u64().ok_or("connections")? as usize })
    }
}

fn handshake() -> HandshakeContext {
    let req = tokio_tungstenite::tungstenite::http::Request::builder().uri("/repe").header("Host", "verif.mem").body(()).expect("request");
    HandshakeContext::from_http_request(&req)
}

pub(crate) fn run(sc: &PreScenario) -> Outcome {
    let mut out = Outcome::default();
    out.counters.scenarios = 1;
    out.counters.connections = sc.n as u64;
    let connects = Arc::new(AtomicU64::new(0));
    let disconnects: Arc<std::sync::Mutex<Vec<u64>>> = Arc::default();
    let registry = PeerRegistry::new();
    let (c2, d2) = (connects.clone(), disconnects.clone());
    let shared = WebSocketServer::new(Router::new().with_json("/echo", |v: Value| Ok(v)))
        .with_peer_registry(registry.clone())
        .on_peer_connect(move |_p| {
            c2.fetch_add(1, Ordering::SeqCst);
        })
        .on_peer_disconnect(move |id| d2.lock().unwrap().push(id.0))
        .into_shared();
    let token = ShutdownToken::new();
    token.cancel();
    let rt = tokio::runtime::Builder::new_current_thread().enable_time().start_paused(true).build().expect("runtime");
    let variant = sc.variant;
    let n = sc.n;
    let hung = rt.block_on(async {
        let mut hung = 0usize;
        let mut keep = Vec::new();
        for _ in 0..n {
            let (server_end, client_end, ctl) = memstream::pair();
            let client = WebSocketStream::from_raw_socket(client_end, Role::Client, None).await;
            let ws = shared.adopt_upgraded(server_end).await;
            let (sh, tk) = (shared.clone(), token.clone());
            let h = tokio::spawn(async move {
                match variant {
                    Variant::CancelHandshake => sh.serve_connection_with_cancel_and_handshake(ws, handshake(), &tk).await,
                    _ => sh.serve_connection_with_cancel(ws, &tk).await,
                }
            });
            match tokio::time::timeout(Duration::from_secs(3600), h).await {
                Ok(Ok(_)) => {}
                Ok(Err(e)) if e.is_panic() => out.bad.push(Bad { key: "C15:pre-cancelled:serving-future-panicked".into(), what: format!("{e}") }),
                Ok(Err(_)) => {}
                Err(_) => hung += 1,
            }
            keep.push((client, ctl));
        }
        hung
    });
    let what = |s: String| format!("{s} [{} connection(s) served through {} under a token that was cancelled before serving began]", sc.n, super::name(sc.variant));
    if hung > 0 {
        out.bad.push(Bad { key: "C15:pre-cancelled:serving-future-hangs".into(), what: what(format!("{hung} serving future(s) did not return within an hour of virtual time")) });
    }
    let d = disconnects.lock().unwrap().clone();
    let mut per: std::collections::BTreeMap<u64, usize> = Default::default();
    for id in &d {
        *per.entry(*id).or_default() += 1;
    }
    if per.len() != sc.n || per.values().any(|c| *c != 1) {
        out.bad.push(Bad {
            key: format!("C15:disconnect-count:{}:pre-cancelled", if d.len() < sc.n { 0 } else { 2 }),
            what: what(format!("{} accepted connection(s) produced disconnect callbacks for peers {d:?} (exactly one each expected; connect callbacks ran {} time(s))", sc.n, connects.load(Ordering::SeqCst))),
        });
    }
    if registry.len() != 0 {
        out.bad.push(Bad { key: "C15:peer-left-in-registry:pre-cancelled".into(), what: what(format!("{} peer(s) left in the registry after every serving future returned", registry.len())) });
    }
    out.shapes.push(format!("pre-cancelled n={} connect={} disconnect={}", sc.n, connects.load(Ordering::SeqCst), d.len()));
    out
}
