//! C06 (mc part) — a dead or misbehaving connection fails calls promptly, and a
//! timed-out or cancelled call leaves nothing behind; for the two tokio clients
//! over in-memory streams with a paused clock (a hang = the call is still
//! pending after a virtual hour). The blocking client is decided under loom.

use crate::clients::{self, Cli, Conn, Kind, Res};
use crate::ctx::{Ctx, Samples, Tier};
use crate::frames::{Frame, Hdr};
use crate::memstream;
use crate::par;
use serde_json::{Value, json};
use std::collections::BTreeMap;
use std::time::Duration;

#[derive(Clone, Copy, Debug, PartialEq, Eq)]
enum Fault {
    CloseBeforeCalls,
    CloseAfterRequests,
    ResetAfterRequests,
    /// first `c` bytes of the reply to call 0, then EOF (c resolved against the reply length)
    MidResponse(Cut),
    Malformed(Hostile),
    AnswerOneThenClose,
    /// WebSocketClient only: the peer sends a WebSocket Close frame and then keeps the TCP connection open
    /// (never reads, never closes): the connection has closed all the same
    CloseFrameKeepOpen,
    /// WebSocketClient only: a Text message (not a REPE frame at all), the peer staying up
    TextFrame,
    /// WebSocketClient only: a binary message of this many bytes (shorter than a header; below 12 it does not even
    /// hold the id field), the peer staying up
    ShortBinary(u8),
    /// orderly end of stream towards the client (FIN) BEFORE any call, the peer still accepting (never reading)
    /// what the client writes: the reader sees EOF while nothing is in flight; calls made afterwards fail
    HalfCloseBeforeCalls,
    /// the same after the requests were read
    HalfCloseAfterRequests,
}

#[derive(Clone, Copy, Debug, PartialEq, Eq)]
enum Cut {
    One,
    HeaderMinus1,
    Header,
    HeaderPlusQuery,
    LenMinus1,
}

#[derive(Clone, Copy, Debug, PartialEq, Eq)]
enum Hostile {
    BadSpec,
    LengthMismatch,
    OverflowingSum,
    Declared2p62,
    TrailingGarbage,
}

#[derive(Clone, Debug)]
enum Scenario {
    Failure { kind: Kind, inflight: usize, timed: bool, fault: Fault },
    /// call with timeout T; reply delivered `early_ms` before (Some) or never/after the deadline
    Timeout { kind: Kind, reply_before_ms: Option<u64>, second_in_flight: bool },
    TwoTimeouts { kind: Kind },
    /// `n` calls give up (their 2 s timeout passes, or their futures are dropped) while one long call stays in
    /// flight; the peer then answers all `n` LATE, back to back (no live reply in between), then the long call;
    /// the connection keeps serving: the long call gets its own reply and three fresh calls are answered
    LateBurst { kind: Kind, n: usize, dropped: bool },
    /// abort the call task at a chosen point of its life
    Cancel { kind: Kind, point: CancelPoint },
    /// the same AsyncClient scenario with `Cli::call` going through forward_message (all / even tags)
    WithApi(clients::Api, Box<Scenario>),
    /// the connection fails while a (large) request is stalled mid-write, i.e. while the client's writer is
    /// busy: `inflight` earlier calls await their responses; the failure leaves the client's writing side
    /// open (malformed frame from a peer that stays up, or the peer half-closes); then the peer either lets
    /// the stalled write through (`resume`) or never reads again
    FailureStalled { kind: Kind, inflight: usize, fault: SFault, resume: bool },
    /// WebSocketClient: the failure scenario with the notification subscription replaced beforehand
    /// (unsubscribe + subscribe, or receiver dropped + subscribe): the CURRENT subscriber must see end-of-stream
    FailureResub { over_stale: bool, inflight: usize, fault: Fault },
}

#[derive(Clone, Copy, Debug, PartialEq, Eq)]
enum SFault {
    Malformed(Hostile),
    /// end of stream towards the client; bytes the client writes are still accepted
    HalfClose,
    /// 47 bytes of a reply, then end of stream towards the client
    CutReplyThenHalfClose,
}

#[derive(Clone, Copy, Debug, PartialEq, Eq)]
enum CancelPoint {
    /// never polled
    BeforeStart,
    /// request written, waiting for the response
    AwaitingResponse,
    /// registered, waiting for the writer lock held by a stalled writer (AsyncClient)
    AwaitingWriterLock,
    /// the stalled writer itself is cancelled mid-frame while another call waits for the writer
    MidWriteWithQueuedSibling,
}

fn scenarios(tier: Tier) -> Vec<Scenario> {
    let mut v = Vec::new();
    let inflights: &[usize] = if tier == Tier::Thorough { &[0, 1, 2, 4, 16] } else { &[0, 1, 2, 3] };
    for kind in [Kind::Async, Kind::Ws] {
        let mut faults = vec![Fault::CloseBeforeCalls, Fault::CloseAfterRequests, Fault::ResetAfterRequests, Fault::AnswerOneThenClose, Fault::HalfCloseBeforeCalls, Fault::HalfCloseAfterRequests];
        for c in [Cut::One, Cut::HeaderMinus1, Cut::Header, Cut::HeaderPlusQuery, Cut::LenMinus1] {
            faults.push(Fault::MidResponse(c));
        }
        for h in [Hostile::BadSpec, Hostile::LengthMismatch, Hostile::OverflowingSum, Hostile::Declared2p62, Hostile::TrailingGarbage] {
            faults.push(Fault::Malformed(h));
        }
        for &inflight in inflights {
            for timed in [false, true] {
                for &fault in &faults {
                    v.push(Scenario::Failure { kind, inflight, timed, fault });
                }
            }
        }
        for reply_before_ms in [None, Some(2), Some(50), Some(4990)] {
            for second_in_flight in [false, true] {
                v.push(Scenario::Timeout { kind, reply_before_ms, second_in_flight });
            }
        }
        v.push(Scenario::TwoTimeouts { kind });
        for n in [1usize, 3, 7, 8, 9, 16, 33, 70] {
            for dropped in [false, true] {
                v.push(Scenario::LateBurst { kind, n, dropped });
            }
        }
        v.push(Scenario::Cancel { kind, point: CancelPoint::BeforeStart });
        v.push(Scenario::Cancel { kind, point: CancelPoint::AwaitingResponse });
    }
    v.push(Scenario::Cancel { kind: Kind::Async, point: CancelPoint::AwaitingWriterLock });
    v.push(Scenario::Cancel { kind: Kind::Async, point: CancelPoint::MidWriteWithQueuedSibling });
    v.push(Scenario::Cancel { kind: Kind::Ws, point: CancelPoint::MidWriteWithQueuedSibling });
    let mut stalled = Vec::new();
    for kind in [Kind::Async, Kind::Ws] {
        let mut sf = vec![SFault::HalfClose, SFault::CutReplyThenHalfClose];
        for h in [Hostile::BadSpec, Hostile::LengthMismatch, Hostile::OverflowingSum, Hostile::Declared2p62, Hostile::TrailingGarbage] {
            sf.push(SFault::Malformed(h));
        }
        for inflight in 0..=tier.pick(2, 4) {
            for &fault in &sf {
                for resume in [true, false] {
                    stalled.push(Scenario::FailureStalled { kind, inflight, fault, resume });
                }
            }
        }
    }
    // the relay API of the AsyncClient on every AsyncClient scenario (appended: earlier indices stay put)
    let base: Vec<Scenario> = v.clone();
    for sc in base {
        let is_async = matches!(
            &sc,
            Scenario::Failure { kind: Kind::Async, .. } | Scenario::Timeout { kind: Kind::Async, .. } | Scenario::TwoTimeouts { kind: Kind::Async } | Scenario::Cancel { kind: Kind::Async, .. }
        );
        if is_async {
            v.push(Scenario::WithApi(clients::Api::Forward, Box::new(sc.clone())));
            v.push(Scenario::WithApi(clients::Api::Mixed, Box::new(sc)));
        }
    }
    v.extend(stalled);
    {
        let mut faults = vec![Fault::CloseBeforeCalls, Fault::CloseAfterRequests, Fault::ResetAfterRequests, Fault::AnswerOneThenClose, Fault::MidResponse(Cut::Header)];
        for h in [Hostile::BadSpec, Hostile::LengthMismatch, Hostile::OverflowingSum, Hostile::Declared2p62, Hostile::TrailingGarbage] {
            faults.push(Fault::Malformed(h));
        }
        for over_stale in [false, true] {
            for inflight in [0usize, 2] {
                for &fault in &faults {
                    v.push(Scenario::FailureResub { over_stale, inflight, fault });
                }
            }
        }
    }
    for &inflight in inflights {
        for timed in [false, true] {
            v.push(Scenario::Failure { kind: Kind::Ws, inflight, timed, fault: Fault::CloseFrameKeepOpen });
            v.push(Scenario::Failure { kind: Kind::Ws, inflight, timed, fault: Fault::TextFrame });
            for len in [0u8, 1, 8, 11, 12, 16, 47] {
                v.push(Scenario::Failure { kind: Kind::Ws, inflight, timed, fault: Fault::ShortBinary(len) });
            }
        }
    }
    v
}

type Bad = Vec<(String, String)>;

fn hostile_bytes(h: Hostile, id: u64) -> Vec<u8> {
    let mut hd = Hdr::consistent(0, 0);
    hd.version = 1;
    hd.id = id;
    match h {
        Hostile::BadSpec => hd.spec = 0x0715,
        Hostile::LengthMismatch => hd.length = 47,
        Hostile::OverflowingSum => {
            hd.query_length = u64::MAX - 47;
            hd.length = 0;
        }
        Hostile::Declared2p62 => {
            hd.body_length = 1 << 62;
            hd.length = 48 + (1 << 62);
        }
        Hostile::TrailingGarbage => {}
    }
    let mut b = hd.encode().to_vec();
    if h == Hostile::TrailingGarbage {
        // a valid empty response for an unknown id followed by bytes that are not a header
        b[16..24].copy_from_slice(&0xFFFF_0000u64.to_le_bytes());
        b.extend_from_slice(&[0xAB; 48]);
    }
    b
}

async fn later_call_fails(cli: &Cli, ctx: &str, bad: &mut Bad) {
    let h = tokio::spawn(cli.call(9000, None, 0));
    match clients::join_call(h).await {
        Res::Err(_) | Res::Timeout => {}
        Res::Hang => bad.push(("C06:later-call-hangs".into(), format!("{ctx}: a call issued after the connection failed never returned"))),
        other => bad.push(("C06:later-call-succeeds".into(), format!("{ctx}: a call issued after the connection failed returned {other:?}"))),
    }
}

async fn run_failure(kind: Kind, inflight: usize, timed: bool, fault: Fault) -> (Bad, u64) {
    run_failure_sub(kind, inflight, timed, fault, None).await
}

async fn run_failure_sub(kind: Kind, inflight: usize, timed: bool, fault: Fault, resub_over_stale: Option<bool>) -> (Bad, u64) {
    let mut bad = Bad::new();
    let ctx = format!("{} inflight={inflight} timed={timed} fault={fault:?}{}", kind.name(), match resub_over_stale { None => "", Some(false) => " [unsubscribed, then subscribed again]", Some(true) => " [receiver dropped, then subscribed again]" });
    let Conn { cli, mut peer, mut notifies } = clients::connect(kind).await;
    if let (Some(over_stale), Cli::Ws(c)) = (resub_over_stale, &cli) {
        if !over_stale {
            c.unsubscribe_notifies();
        }
        drop(notifies.take());
        match c.subscribe_notifies() {
            Ok(rx) => notifies = Some(rx),
            Err(_) => return (vec![("C06:harness".into(), format!("{ctx}: subscribe_notifies refused"))], 0),
        }
    }
    if fault == Fault::CloseBeforeCalls {
        peer.close();
        memstream::settle().await;
    }
    if fault == Fault::HalfCloseBeforeCalls {
        peer.ctl().b_to_a.close();
        memstream::settle().await;
    }
    let t = if timed { Some(Duration::from_secs(100)) } else { None };
    let calls: Vec<_> = (0..inflight as u64).map(|i| tokio::spawn(cli.call(100 + i, t, 0))).collect();
    let reqs = peer.drain_requests().await.unwrap_or_default();
    let ids = clients::tag_ids(&reqs);
    let mut answered: Option<u64> = None;
    match fault {
        Fault::CloseBeforeCalls | Fault::HalfCloseBeforeCalls => {}
        Fault::HalfCloseAfterRequests => peer.ctl().b_to_a.close(),
        Fault::CloseAfterRequests => peer.close(),
        Fault::ResetAfterRequests => peer.reset(),
        Fault::AnswerOneThenClose => {
            if let Some(id) = ids.get(&100) {
                peer.send(&clients::reply(*id)).await;
                answered = Some(100);
            }
            peer.close();
        }
        Fault::MidResponse(c) => {
            let id = ids.get(&100).copied().unwrap_or(1);
            let whole = clients::reply(id).to_bytes();
            let n = match c {
                Cut::One => 1,
                Cut::HeaderMinus1 => 47,
                Cut::Header => 48,
                Cut::HeaderPlusQuery => 50,
                Cut::LenMinus1 => whole.len() - 1,
            };
            peer.send_bytes(&whole[..n]).await;
            peer.close();
        }
        Fault::Malformed(h) => {
            let id = ids.get(&100).copied().unwrap_or(1);
            peer.send_bytes(&hostile_bytes(h, id)).await;
        }
        Fault::CloseFrameKeepOpen => {
            if let clients::Peer::Ws { ws, .. } = &mut peer {
                use futures_util::SinkExt;
                let _ = ws.send(tokio_tungstenite::tungstenite::Message::Close(None)).await;
            }
        }
        Fault::TextFrame => {
            if let clients::Peer::Ws { ws, .. } = &mut peer {
                use futures_util::SinkExt;
                let _ = ws.send(tokio_tungstenite::tungstenite::Message::Text("not a REPE frame".into())).await;
            }
        }
        Fault::ShortBinary(len) => {
            if let clients::Peer::Ws { ws, .. } = &mut peer {
                use futures_util::SinkExt;
                let _ = ws.send(tokio_tungstenite::tungstenite::Message::Binary(vec![0x07; len as usize])).await;
            }
        }
    }
    memstream::settle().await;
    let mut flags = if inflight > 0 { 1 } else { 0 };
    if matches!(fault, Fault::CloseFrameKeepOpen | Fault::TextFrame | Fault::ShortBinary(_)) {
        flags |= 256;
    }
    for (i, h) in calls.into_iter().enumerate() {
        let r = clients::join_call(h).await;
        let tag = 100 + i as u64;
        let ok = match &r {
            Res::Err(_) => true,
            Res::Id(got) if answered == Some(tag) && ids.get(&tag) == Some(got) => true,
            _ => false,
        };
        if !ok {
            bad.push((
                format!("C06:inflight-call:{}", match r { Res::Hang => "hangs", Res::Timeout => "waits-for-its-timeout", _ => "returns-a-value" }),
                format!("{ctx}: in-flight call #{i} returned {r:?} instead of an error"),
            ));
        }
    }
    later_call_fails(&cli, &ctx, &mut bad).await;
    if cli.pending() != 0 {
        bad.push(("C06:pending-residue".into(), format!("{ctx}: {} pending entries remain", cli.pending())));
    }
    if let Some(rx) = notifies.as_mut() {
        flags |= 2;
        match tokio::time::timeout(clients::HOUR, rx.recv()).await {
            Ok(None) => {}
            Ok(Some(m)) => bad.push(("C06:subscriber-got-frame".into(), format!("{ctx}: subscriber received a frame (id {}) instead of end-of-stream", m.header.id))),
            Err(_) => bad.push(("C06:subscriber-no-eof".into(), format!("{ctx}: the notification subscriber never saw end-of-stream"))),
        }
    }
    (bad, flags)
}


async fn run_failure_stalled(kind: Kind, inflight: usize, fault: SFault, resume: bool) -> (Bad, u64) {
    let mut bad = Bad::new();
    let ctx = format!("{} inflight={inflight} fault={fault:?} while a 20 KB request is stalled mid-write; afterwards the peer {}", kind.name(), if resume { "lets the stalled write through" } else { "never reads again" });
    let Conn { cli, mut peer, mut notifies } = clients::connect(kind).await;
    // (WebSocketClient: the subscriber has already received one notification when the trouble starts)
    if notifies.is_some() {
        peer.send(&clients::notify_frame(0, 1)).await;
        memstream::settle().await;
    }
    let calls: Vec<_> = (0..inflight as u64).map(|i| tokio::spawn(cli.call(100 + i, None, 0))).collect();
    let reqs = peer.drain_requests().await.unwrap_or_default();
    let ids = clients::tag_ids(&reqs);
    if ids.len() != inflight {
        return (vec![("C06:request-missing".into(), format!("{ctx}: {} of {inflight} requests arrived", ids.len()))], 0);
    }
    let stalls0 = peer.ctl().a_to_b.stalls();
    peer.ctl().a_to_b.set_credit(Some(100));
    let big = tokio::spawn(cli.call(7, None, 20_000));
    memstream::settle().await;
    let mut flags = 0;
    if peer.ctl().a_to_b.stalls() > stalls0 && !big.is_finished() {
        flags |= 64;
    }
    let id0 = ids.get(&100).copied().unwrap_or(1);
    match fault {
        SFault::Malformed(h) => peer.send_bytes(&hostile_bytes(h, id0)).await,
        SFault::HalfClose => peer.ctl().b_to_a.close(),
        SFault::CutReplyThenHalfClose => {
            let whole = clients::reply(id0).to_bytes();
            peer.send_bytes(&whole[..47]).await;
            peer.ctl().b_to_a.close();
        }
    }
    memstream::settle().await;
    if resume {
        peer.ctl().a_to_b.set_credit(None);
        memstream::settle().await;
    }
    let class = format!("{}:{}", if resume { "stalled-writer-resumed" } else { "stalled-writer" }, kind.name());
    for (i, h) in calls.into_iter().enumerate() {
        let r = clients::join_call(h).await;
        if !matches!(r, Res::Err(_)) {
            bad.push((
                format!("C06:{class}:inflight-call:{}", match r { Res::Hang => "hangs", _ => "returns-a-value" }),
                format!("{ctx}: in-flight call #{i} returned {r:?} instead of an error"),
            ));
        }
    }
    let rb = clients::join_call(big).await;
    if !matches!(rb, Res::Err(_)) {
        bad.push((format!("C06:{class}:writing-call:{}", match rb { Res::Hang => "hangs", _ => "returns-a-value" }), format!("{ctx}: the call whose request was stalled returned {rb:?} instead of an error")));
    }
    let h = tokio::spawn(cli.call(9000, None, 0));
    match clients::join_call(h).await {
        Res::Err(_) | Res::Timeout => {}
        Res::Hang => bad.push((format!("C06:{class}:later-call-hangs"), format!("{ctx}: a call issued after the connection failed never returned"))),
        other => bad.push((format!("C06:{class}:later-call-succeeds"), format!("{ctx}: a call issued after the connection failed returned {other:?}"))),
    }
    if cli.pending() != 0 {
        bad.push((format!("C06:{class}:pending-residue"), format!("{ctx}: {} pending entries remain", cli.pending())));
    }
    if let Some(rx) = notifies.as_mut() {
        // the notification delivered before the failure, then end-of-stream
        let mut delivered = 0;
        loop {
            match tokio::time::timeout(clients::HOUR, rx.recv()).await {
                Ok(None) => break,
                Ok(Some(m)) if m.header.notify != 0 && delivered == 0 => delivered += 1,
                Ok(Some(m)) => {
                    bad.push((format!("C06:{class}:subscriber-got-frame"), format!("{ctx}: subscriber received an unexpected frame (id {})", m.header.id)));
                    break;
                }
                Err(_) => {
                    bad.push((format!("C06:{class}:subscriber-no-eof"), format!("{ctx}: the notification subscriber never saw end-of-stream ({delivered} notification(s) delivered before)")));
                    break;
                }
            }
        }
    }
    (bad, flags)
}

const T: Duration = Duration::from_secs(5);

async fn run_timeout(kind: Kind, reply_before_ms: Option<u64>, second_in_flight: bool) -> (Bad, u64) {
    let mut bad = Bad::new();
    let ctx = format!("{} reply_before_ms={reply_before_ms:?} second_in_flight={second_in_flight}", kind.name());
    let Conn { cli, mut peer, .. } = clients::connect(kind).await;
    let start = tokio::time::Instant::now();
    let a = tokio::spawn(cli.call(1, Some(T), 0));
    let reqs = peer.drain_requests().await.unwrap_or_default();
    let Some(id_a) = clients::tag_ids(&reqs).get(&1).copied() else {
        return (vec![("C06:request-missing".into(), ctx)], 0);
    };
    let mut flags = 4;
    let expect_a = match reply_before_ms {
        Some(ms) => {
            // move the clock to `ms` milliseconds (at least 2 ms: timer granularity) before the
            // call's own deadline, measured from the instant the call was started
            let target = start + T - Duration::from_millis(ms.max(2));
            tokio::time::advance(target.saturating_duration_since(tokio::time::Instant::now())).await;
            peer.send(&clients::reply(id_a)).await;
            memstream::settle().await;
            Res::Id(id_a)
        }
        None => {
            let target = start + T + Duration::from_millis(2);
            tokio::time::advance(target.saturating_duration_since(tokio::time::Instant::now())).await;
            memstream::settle().await;
            Res::Timeout
        }
    };
    let ra = clients::join_call(a).await;
    if ra != expect_a {
        bad.push((
            format!("C06:timeout-race:{}", if ra == Res::Hang { "hang" } else { "wrong-result" }),
            format!("{ctx}: call with a 5 s timeout returned {ra:?}, expected {expect_a:?}"),
        ));
    }
    if cli.pending() != 0 {
        bad.push(("C06:pending-residue".into(), format!("{ctx}: {} pending entries after the call returned", cli.pending())));
    }
    // the client keeps serving: a second call, with the late response arriving around it
    let b = if second_in_flight { Some(tokio::spawn(cli.call(2, None, 0))) } else { None };
    let mut reqs2 = peer.drain_requests().await.unwrap_or_default();
    if reply_before_ms.is_none() {
        // late response for the timed-out call
        peer.send(&clients::reply(id_a)).await;
        memstream::settle().await;
        flags |= 8;
    }
    let b = match b {
        Some(b) => b,
        None => {
            let h = tokio::spawn(cli.call(2, None, 0));
            reqs2 = peer.drain_requests().await.unwrap_or_default();
            h
        }
    };
    match clients::tag_ids(&reqs2).get(&2).copied() {
        Some(id_b) => {
            if b.is_finished() {
                bad.push(("C06:late-response-misdelivered".into(), format!("{ctx}: the second call finished before its own response was sent")));
            }
            peer.send(&clients::reply(id_b)).await;
            let rb = clients::join_call(b).await;
            if rb != Res::Id(id_b) {
                bad.push((
                    format!("C06:client-not-usable-after-timeout:{}", if rb == Res::Hang { "hang" } else { "wrong-result" }),
                    format!("{ctx}: the call after the timed-out one returned {rb:?}, expected its own response (id {id_b})"),
                ));
            }
        }
        None => bad.push(("C06:request-missing".into(), format!("{ctx}: the second call's request never reached the peer"))),
    }
    if cli.pending() != 0 {
        bad.push(("C06:pending-residue".into(), format!("{ctx}: {} pending entries at the end", cli.pending())));
    }
    (bad, flags)
}

async fn run_two_timeouts(kind: Kind) -> (Bad, u64) {
    let mut bad = Bad::new();
    let ctx = format!("{} two timeouts", kind.name());
    let Conn { cli, mut peer, .. } = clients::connect(kind).await;
    let a = tokio::spawn(cli.call(1, Some(Duration::from_secs(2)), 0));
    let b = tokio::spawn(cli.call(2, Some(Duration::from_secs(8)), 0));
    let reqs = peer.drain_requests().await.unwrap_or_default();
    let ids = clients::tag_ids(&reqs);
    tokio::time::advance(Duration::from_secs(3)).await;
    memstream::settle().await;
    if let Some(id_b) = ids.get(&2) {
        peer.send(&clients::reply(*id_b)).await;
    }
    let ra = clients::join_call(a).await;
    let rb = clients::join_call(b).await;
    if ra != Res::Timeout {
        bad.push(("C06:timeout-race:wrong-result".into(), format!("{ctx}: the 2 s call returned {ra:?} after 3 s without a response")));
    }
    if Some(&rb) != ids.get(&2).map(|i| Res::Id(*i)).as_ref() {
        bad.push(("C06:sibling-affected".into(), format!("{ctx}: the 8 s call, answered at 3 s, returned {rb:?}")));
    }
    if cli.pending() != 0 {
        bad.push(("C06:pending-residue".into(), format!("{ctx}: {} pending entries at the end", cli.pending())));
    }
    (bad, 16)
}

async fn run_late_burst(kind: Kind, n: usize, dropped: bool) -> (Bad, u64) {
    let mut bad = Bad::new();
    let ctx = format!("{} {n} calls {} then answered late back to back", kind.name(), if dropped { "dropped" } else { "timed out" });
    let Conn { cli, mut peer, .. } = clients::connect(kind).await;
    let long = tokio::spawn(cli.call(500, Some(Duration::from_secs(3600)), 0));
    let mut hs = Vec::new();
    for i in 0..n {
        hs.push(tokio::spawn(cli.call(1 + i as u64, if dropped { None } else { Some(Duration::from_secs(2)) }, 0)));
    }
    let reqs = peer.drain_requests().await.unwrap_or_default();
    let ids = clients::tag_ids(&reqs);
    if dropped {
        for h in &hs {
            h.abort();
        }
    } else {
        tokio::time::advance(Duration::from_secs(3)).await;
    }
    memstream::settle().await;
    for (i, h) in hs.into_iter().enumerate() {
        let r = clients::join_call(h).await;
        if !dropped && r != Res::Timeout {
            bad.push(("C06:timeout-race:wrong-result".into(), format!("{ctx}: call #{i} (2 s timeout) returned {r:?} after 3 s without a response")));
        }
    }
    if cli.pending() != 1 {
        bad.push(("C06:pending-residue".into(), format!("{ctx}: {} pending entries while exactly one call is in flight", cli.pending())));
    }
    // the late answers, consecutively
    for i in 0..n {
        if let Some(id) = ids.get(&(1 + i as u64)) {
            peer.send(&clients::reply(*id)).await;
        }
    }
    memstream::settle().await;
    if let Some(id) = ids.get(&500) {
        peer.send(&clients::reply(*id)).await;
    }
    let rl = clients::join_call(long).await;
    if Some(&rl) != ids.get(&500).map(|i| Res::Id(*i)).as_ref() {
        bad.push(("C06:sibling-affected".into(), format!("{ctx}: the call that was still in flight, answered after the late burst, returned {rl:?}")));
    }
    for k in 0..3u64 {
        let h = tokio::spawn(cli.call(600 + k, Some(Duration::from_secs(3600)), 0));
        let reqs = peer.drain_requests().await.unwrap_or_default();
        let id = clients::tag_ids(&reqs).get(&(600 + k)).copied();
        if let Some(id) = id {
            peer.send(&clients::reply(id)).await;
        }
        let r = clients::join_call(h).await;
        if id.is_none() || r != Res::Id(id.unwrap_or(0)) {
            bad.push(("C06:connection-stops-serving-after-timeouts".into(), format!("{ctx}: fresh call #{k} afterwards returned {r:?} (request reached the peer: {})", id.is_some())));
            break;
        }
    }
    if cli.pending() != 0 {
        bad.push(("C06:pending-residue".into(), format!("{ctx}: {} pending entries at the end", cli.pending())));
    }
    (bad, 16)
}

async fn run_cancel(kind: Kind, point: CancelPoint) -> (Bad, u64) {
    let mut bad = Bad::new();
    let ctx = format!("{} cancel at {point:?}", kind.name());
    let Conn { cli, mut peer, .. } = clients::connect(kind).await;
    let mut late: Option<u64> = None;
    match point {
        CancelPoint::BeforeStart => {
            let fut = cli.call(1, None, 0);
            drop(fut);
        }
        CancelPoint::AwaitingResponse => {
            let h = tokio::spawn(cli.call(1, None, 0));
            let reqs = peer.drain_requests().await.unwrap_or_default();
            late = clients::tag_ids(&reqs).get(&1).copied();
            if cli.pending() != 1 {
                bad.push(("C06:cancel:not-registered".into(), format!("{ctx}: pending is {} while a call awaits its response", cli.pending())));
            }
            h.abort();
            let _ = h.await;
        }
        CancelPoint::MidWriteWithQueuedSibling => {
            peer.ctl().a_to_b.set_credit(Some(10));
            let big = tokio::spawn(cli.call(7, None, 20_000));
            memstream::settle().await;
            let sibling = tokio::spawn(cli.call(1, None, 0));
            memstream::settle().await;
            big.abort();
            let _ = big.await;
            memstream::settle().await;
            peer.ctl().a_to_b.set_credit(None);
            // whatever the client decides about the connection, the sibling must not be left
            // waiting for ever: it either fails or (if its request went out whole) is answered
            let reqs = peer.drain_requests().await.unwrap_or_default();
            if let Some(id) = clients::tag_ids(&reqs).get(&1) {
                peer.send(&clients::reply(*id)).await;
            }
            let r = clients::join_call(sibling).await;
            if r == Res::Hang {
                bad.push(("C06:sibling-of-cancelled-call-hangs".into(), format!("{ctx}: a call queued behind a call that was cancelled mid-write never returned")));
            }
            if cli.pending() != 0 {
                bad.push(("C06:pending-residue".into(), format!("{ctx}: {} pending entries after the sibling returned", cli.pending())));
            }
            // the connection may legitimately be unusable now (interrupted write): stop here
            return (bad, 32);
        }
        CancelPoint::AwaitingWriterLock => {
            // a large call stalls in the writer; a second call queues on the writer lock
            peer.ctl().a_to_b.set_credit(Some(10));
            let big = tokio::spawn(cli.call(7, None, 20_000));
            memstream::settle().await;
            let small = tokio::spawn(cli.call(1, None, 0));
            memstream::settle().await;
            if cli.pending() != 2 {
                bad.push(("C06:cancel:not-registered".into(), format!("{ctx}: pending is {} with two calls started", cli.pending())));
            }
            small.abort();
            let _ = small.await;
            if cli.pending() != 1 {
                bad.push(("C06:pending-residue".into(), format!("{ctx}: pending is {} after cancelling the queued call (1 expected: the stalled one)", cli.pending())));
            }
            peer.ctl().a_to_b.set_credit(None);
            let reqs = peer.drain_requests().await.unwrap_or_default();
            let ids = clients::tag_ids(&reqs);
            if ids.contains_key(&1) {
                // the cancelled call had not written anything; it must not appear later either
                bad.push(("C06:cancelled-call-sent".into(), format!("{ctx}: the cancelled call's request reached the peer")));
            }
            match ids.get(&7) {
                Some(id) => {
                    peer.send(&clients::reply(*id)).await;
                    let r = clients::join_call(big).await;
                    if r != Res::Id(*id) {
                        bad.push(("C06:sibling-affected".into(), format!("{ctx}: the stalled call returned {r:?} after its sibling was cancelled")));
                    }
                }
                None => bad.push(("C06:sibling-affected".into(), format!("{ctx}: the stalled call's request never completed"))),
            }
        }
    }
    memstream::settle().await;
    if cli.pending() != 0 {
        bad.push(("C06:pending-residue".into(), format!("{ctx}: {} pending entries after cancellation", cli.pending())));
    }
    // late response for the cancelled call is discarded; the client keeps working
    let next = tokio::spawn(cli.call(2, None, 0));
    let reqs = peer.drain_requests().await.unwrap_or_default();
    if let Some(id) = late {
        peer.send(&clients::reply(id)).await;
        memstream::settle().await;
        if next.is_finished() {
            bad.push(("C06:late-response-misdelivered".into(), format!("{ctx}: the response of the cancelled call completed another call")));
        }
    }
    match clients::tag_ids(&reqs).get(&2).copied() {
        Some(id2) => {
            peer.send(&clients::reply(id2)).await;
            let r = clients::join_call(next).await;
            if r != Res::Id(id2) {
                bad.push(("C06:client-not-usable-after-cancel".into(), format!("{ctx}: the next call returned {r:?}, expected id {id2}")));
            }
        }
        None => bad.push(("C06:request-missing".into(), format!("{ctx}: the next call's request never reached the peer ({} bytes of a partial frame pending)", peer.partial_len()))),
    }
    if cli.pending() != 0 {
        bad.push(("C06:pending-residue".into(), format!("{ctx}: {} pending entries at the end", cli.pending())));
    }
    (bad, 32)
}

async fn run_one(sc: &Scenario) -> (Bad, u64) {
    if let Scenario::WithApi(api, inner) = sc {
        clients::set_api(*api);
        let (bad, flags) = run_plain(inner).await;
        clients::set_api(clients::Api::Call);
        return (bad.into_iter().map(|(k, w)| (k, format!("{w} [AsyncClient API: {api:?} = forward_message for all / even-tagged calls]"))).collect(), flags);
    }
    run_plain(sc).await
}

async fn run_plain(sc: &Scenario) -> (Bad, u64) {
    match sc {
        Scenario::WithApi(..) => (vec![("C06:harness".into(), "nested api wrapper".into())], 0),
        Scenario::Failure { kind, inflight, timed, fault } => run_failure(*kind, *inflight, *timed, *fault).await,
        Scenario::Timeout { kind, reply_before_ms, second_in_flight } => run_timeout(*kind, *reply_before_ms, *second_in_flight).await,
        Scenario::TwoTimeouts { kind } => run_two_timeouts(*kind).await,
        Scenario::LateBurst { kind, n, dropped } => run_late_burst(*kind, *n, *dropped).await,
        Scenario::Cancel { kind, point } => run_cancel(*kind, *point).await,
        Scenario::FailureStalled { kind, inflight, fault, resume } => run_failure_stalled(*kind, *inflight, *fault, *resume).await,
        Scenario::FailureResub { over_stale, inflight, fault } => {
            let (b, f) = run_failure_sub(Kind::Ws, *inflight, false, *fault, Some(*over_stale)).await;
            (b, f | 128)
        }
    }
}

pub fn run(tier: Tier) -> ! {
    let ctx = Ctx::new("C06", tier);
    let all = scenarios(tier);
    let samples = Samples::new(4);
    samples.offer(|| json!(format!("{:?}", all[7])));
    samples.offer(|| json!(format!("{:?}", all[all.len() - 1])));
    let parts = par::for_each_index(
        all.len() as u64,
        8,
        |_| {
            let rt = tokio::runtime::Builder::new_current_thread().enable_time().start_paused(true).build().unwrap();
            (rt, Vec::<(usize, String, String)>::new(), BTreeMap::<u64, u64>::new(), 0u64)
        },
        |(rt, bad, flagc, n), i| {
            let (b, flags) = rt.block_on(run_one(&all[i as usize]));
            *n += 1;
            for bit in 0..9 {
                if flags & (1 << bit) != 0 {
                    *flagc.entry(bit).or_insert(0) += 1;
                }
            }
            for (k, w) in b {
                bad.push((i as usize, k, w));
            }
        },
    );
    let mut executed = 0;
    let mut flagc = BTreeMap::<u64, u64>::new();
    let mut bads = Vec::new();
    for (_, bad, f, n) in parts {
        executed += n;
        for (k, v) in f {
            *flagc.entry(k).or_insert(0) += v;
        }
        bads.extend(bad);
    }
    bads.sort_by_key(|b| b.0);
    for (i, k, w) in bads {
        ctx.violation(k, w, json!({"scenario": format!("{:?}", all[i]), "index": i, "tier": tier.name()}));
    }
    let g = |b: u64| flagc.get(&b).copied().unwrap_or(0);
    if !ctx.has_violation() && (0..9).any(|b| g(b) == 0) {
        ctx.machinery("vacuous exploration: a scenario family never ran");
    }
    let coverage = json!({
        "evaluations": executed,
        "distinct_nontrivial": all.len(),
        "rule": "for both tokio clients over an in-memory stream with a paused clock: every fault (peer closes before the calls / after reading them, reset, reply cut after 1/47/48/50/len-1 bytes, five kinds of malformed frame, answer one then close) x 0..3 (thorough 0..16) calls in flight x with/without per-call timeouts; a response arriving 4990/50/2 ms before a 5 s timeout and 2 ms after it, with and without another call in flight; two staggered timeouts; cancellation before start, while awaiting the response and while queued on the writer lock; a failure that leaves the client's writing side open (five malformed frames, half-close, cut reply + half-close) injected while a 20 KB request is stalled mid-write, with 0..2 (thorough 0..4) earlier calls in flight, the peer afterwards letting the stalled write through or never reading again; WebSocketClient failures with the notification subscription replaced beforehand (the current subscriber must see end-of-stream); a WebSocket Close frame, a Text message or a 47-byte binary message from a peer that keeps the TCP connection open. A call that is still pending after a virtual hour hangs. Distinct = scenarios (each has a different script).",
        "samples": samples.take(),
        "exhaustive": executed == all.len() as u64,
        "nonvacuity": {"failures_with_calls_in_flight": g(0), "subscriber_eof_checks": g(1), "timeout_scenarios": g(2), "late_responses_after_timeout": g(3), "staggered_timeouts": g(4), "cancellations": g(5), "failures_while_a_request_was_really_stalled_mid_write": g(6), "failures_with_a_replaced_subscription": g(7), "close_frame_with_tcp_left_open": g(8)},
    });
    ctx.finish(
        "fault_enumeration",
        coverage,
        &[
            "single-threaded runtime + paused clock: the only nondeterminism is the script; wall-clock promptness is not measured, only 'returns without waiting for anything that will never come'",
            "a call answered before the peer closes may return that answer or an error",
            "cancellation while a frame is partly written is C05's subject",
        ],
    )
}

pub fn replay(case: &Value) -> Result<(), String> {
    let tier = if case["tier"].as_str() == Some("thorough") { Tier::Thorough } else { Tier::Quick };
    let all = scenarios(tier);
    let i = case["index"].as_u64().ok_or("index")? as usize;
    let sc = all.get(i).ok_or("index out of range")?;
    let (b, _) = memstream::run_paused(run_one(sc));
    if b.is_empty() { Ok(()) } else { Err(b.into_iter().map(|(k, w)| format!("{k}: {w}")).collect::<Vec<_>>().join("\n")) }
}

#[allow(dead_code)]
fn _unused(_: Frame) {}
