//! In-memory, fully scripted duplex byte stream for driving tokio endpoints
//! deterministically (E3 engine). Two unidirectional pipes; each `End`
//! implements AsyncRead + AsyncWrite; `Ctl` gives the harness synchronous
//! control of both pipes: write credit (exact stall offsets), injected errors,
//! EOF, read chunking, and observation of everything written.
//!
//! With a `current_thread` runtime and a paused clock an execution is a
//! deterministic function of the harness script: every `Pending` of the code
//! under test comes from these pipes, a harness channel, or the paused clock.
#![allow(dead_code)]

use std::collections::VecDeque;
use std::io;
use std::pin::Pin;
use std::sync::{Arc, Mutex};
use std::task::{Context, Poll, Waker};
use tokio::io::{AsyncRead, AsyncWrite, ReadBuf};

#[derive(Default)]
struct Pipe {
    buf: VecDeque<u8>,
    /// writer side closed (shutdown or dropped): reader sees EOF after draining
    closed: bool,
    /// error delivered to the reader once the buffer is drained
    read_err: Option<io::ErrorKind>,
    /// error delivered to the writer on its next write
    write_err: Option<io::ErrorKind>,
    /// bytes the writer may still hand over; None = unlimited
    credit: Option<usize>,
    /// max bytes handed to one read call; 0 = unlimited
    read_chunk: usize,
    /// max bytes accepted by one write call; 0 = unlimited
    write_chunk: usize,
    reader_waker: Option<Waker>,
    writer_waker: Option<Waker>,
    written_total: u64,
    stalls: u64,
    reader_dropped: bool,
    /// everything ever written (kept when `record` is set), for byte-exact oracles
    record: bool,
    log: Vec<u8>,
    /// a writer that keeps writing while nobody reads must not eat the machine: beyond this
    /// many buffered bytes the write fails and `overflowed` is set
    overflowed: bool,
}

/// Largest amount of unread data a pipe will hold (the biggest legitimate messages in the
/// harnesses are 32 MiB).
pub const PIPE_LIMIT: usize = 256 << 20;

impl Pipe {
    fn wake_reader(&mut self) {
        if let Some(w) = self.reader_waker.take() {
            w.wake();
        }
    }
    fn wake_writer(&mut self) {
        if let Some(w) = self.writer_waker.take() {
            w.wake();
        }
    }
}

type Shared = Arc<Mutex<Pipe>>;

pub struct End {
    rx: Shared,
    tx: Shared,
}

/// Harness-side synchronous control of one direction.
#[derive(Clone)]
pub struct Dir {
    p: Shared,
}

#[derive(Clone)]
pub struct Ctl {
    /// bytes flowing from end A to end B
    pub a_to_b: Dir,
    /// bytes flowing from end B to end A
    pub b_to_a: Dir,
}

/// `(end_a, end_b, ctl)`. Hand `end_a` to the code under test; either drive
/// `end_b` with async code (e.g. a tungstenite peer) or use the raw `Dir`
/// handles: `ctl.a_to_b.take()` = what the code under test wrote,
/// `ctl.b_to_a.push(..)` = what it will read.
pub fn pair() -> (End, End, Ctl) {
    let ab: Shared = Arc::new(Mutex::new(Pipe { record: false, ..Default::default() }));
    let ba: Shared = Arc::new(Mutex::new(Pipe::default()));
    (
        End { rx: ba.clone(), tx: ab.clone() },
        End { rx: ab.clone(), tx: ba.clone() },
        Ctl { a_to_b: Dir { p: ab }, b_to_a: Dir { p: ba } },
    )
}

impl Dir {
    /// Append bytes for the reader of this direction (harness acting as writer).
    pub fn push(&self, bytes: &[u8]) {
        let mut g = self.p.lock().unwrap();
        g.buf.extend(bytes);
        g.written_total += bytes.len() as u64;
        if g.record {
            g.log.extend_from_slice(bytes);
        }
        g.wake_reader();
    }
    /// Take everything currently buffered (harness acting as reader).
    pub fn take(&self) -> Vec<u8> {
        let mut g = self.p.lock().unwrap();
        let v: Vec<u8> = g.buf.drain(..).collect();
        g.wake_writer();
        v
    }
    /// Copy of everything currently buffered (nothing is consumed).
    pub fn peek(&self) -> Vec<u8> {
        self.p.lock().unwrap().buf.iter().copied().collect()
    }
    pub fn buffered(&self) -> usize {
        self.p.lock().unwrap().buf.len()
    }
    /// EOF for the reader once the buffer is drained.
    pub fn close(&self) {
        let mut g = self.p.lock().unwrap();
        g.closed = true;
        g.wake_reader();
        g.wake_writer();
    }
    pub fn is_closed(&self) -> bool {
        self.p.lock().unwrap().closed
    }
    /// The reader gets this error once the buffer is drained.
    pub fn fail_reader(&self, kind: io::ErrorKind) {
        let mut g = self.p.lock().unwrap();
        g.read_err = Some(kind);
        g.wake_reader();
    }
    /// The writer's next write fails with this error.
    pub fn fail_writer(&self, kind: io::ErrorKind) {
        let mut g = self.p.lock().unwrap();
        g.write_err = Some(kind);
        g.wake_writer();
    }
    /// Writer may hand over exactly `n` more bytes, then stalls (Pending).
    pub fn set_credit(&self, n: Option<usize>) {
        let mut g = self.p.lock().unwrap();
        g.credit = n;
        g.wake_writer();
    }
    pub fn grant(&self, n: usize) {
        let mut g = self.p.lock().unwrap();
        g.credit = Some(g.credit.unwrap_or(0) + n);
        g.wake_writer();
    }
    pub fn set_read_chunk(&self, n: usize) {
        self.p.lock().unwrap().read_chunk = n;
    }
    pub fn set_write_chunk(&self, n: usize) {
        self.p.lock().unwrap().write_chunk = n;
    }
    pub fn written_total(&self) -> u64 {
        self.p.lock().unwrap().written_total
    }
    /// number of times the writer found no credit and returned Pending
    pub fn stalls(&self) -> u64 {
        self.p.lock().unwrap().stalls
    }
    pub fn writer_is_stalled(&self) -> bool {
        self.p.lock().unwrap().writer_waker.is_some()
    }
    pub fn reader_dropped(&self) -> bool {
        self.p.lock().unwrap().reader_dropped
    }
    /// the writer ran away (kept writing far beyond anything the harness expects)
    pub fn overflowed(&self) -> bool {
        self.p.lock().unwrap().overflowed
    }
    pub fn record(&self, on: bool) {
        self.p.lock().unwrap().record = on;
    }
    pub fn log(&self) -> Vec<u8> {
        self.p.lock().unwrap().log.clone()
    }
}

impl AsyncRead for End {
    fn poll_read(self: Pin<&mut Self>, cx: &mut Context<'_>, out: &mut ReadBuf<'_>) -> Poll<io::Result<()>> {
        let mut g = self.rx.lock().unwrap();
        if !g.buf.is_empty() {
            let mut n = out.remaining().min(g.buf.len());
            if g.read_chunk > 0 {
                n = n.min(g.read_chunk);
            }
            for _ in 0..n {
                let b = g.buf.pop_front().unwrap();
                out.put_slice(&[b]);
            }
            g.wake_writer();
            return Poll::Ready(Ok(()));
        }
        if let Some(k) = g.read_err {
            return Poll::Ready(Err(io::Error::new(k, "injected read error")));
        }
        if g.closed {
            return Poll::Ready(Ok(()));
        }
        g.reader_waker = Some(cx.waker().clone());
        Poll::Pending
    }
}

impl AsyncWrite for End {
    fn poll_write(self: Pin<&mut Self>, cx: &mut Context<'_>, data: &[u8]) -> Poll<io::Result<usize>> {
        let mut g = self.tx.lock().unwrap();
        if let Some(k) = g.write_err {
            return Poll::Ready(Err(io::Error::new(k, "injected write error")));
        }
        if g.closed {
            return Poll::Ready(Err(io::Error::new(io::ErrorKind::BrokenPipe, "write after shutdown")));
        }
        if g.reader_dropped {
            return Poll::Ready(Err(io::Error::new(io::ErrorKind::BrokenPipe, "peer gone")));
        }
        if data.is_empty() {
            return Poll::Ready(Ok(0));
        }
        if g.buf.len() > PIPE_LIMIT {
            g.overflowed = true;
            return Poll::Ready(Err(io::Error::other("memstream: unread data exceeds the pipe limit (runaway writer)")));
        }
        let mut n = data.len();
        if g.write_chunk > 0 {
            n = n.min(g.write_chunk);
        }
        if let Some(c) = g.credit {
            if c == 0 {
                g.stalls += 1;
                g.writer_waker = Some(cx.waker().clone());
                return Poll::Pending;
            }
            n = n.min(c);
            g.credit = Some(c - n);
        }
        g.buf.extend(&data[..n]);
        g.written_total += n as u64;
        if g.record {
            let (head, _) = data.split_at(n);
            g.log.extend_from_slice(head);
        }
        g.wake_reader();
        Poll::Ready(Ok(n))
    }
    fn poll_flush(self: Pin<&mut Self>, _cx: &mut Context<'_>) -> Poll<io::Result<()>> {
        let g = self.tx.lock().unwrap();
        if let Some(k) = g.write_err {
            return Poll::Ready(Err(io::Error::new(k, "injected write error")));
        }
        Poll::Ready(Ok(()))
    }
    fn poll_shutdown(self: Pin<&mut Self>, _cx: &mut Context<'_>) -> Poll<io::Result<()>> {
        let mut g = self.tx.lock().unwrap();
        g.closed = true;
        g.wake_reader();
        Poll::Ready(Ok(()))
    }
}

impl Drop for End {
    fn drop(&mut self) {
        {
            let mut g = self.tx.lock().unwrap();
            g.closed = true;
            g.wake_reader();
        }
        let mut g = self.rx.lock().unwrap();
        g.reader_dropped = true;
        g.wake_writer();
    }
}

/// Quiescence barrier for a paused `current_thread` runtime: returns once every
/// other task is idle (the paused clock only auto-advances when nothing else
/// can run). Must not be used while a `spawn_blocking` task is parked.
pub async fn settle() {
    tokio::time::sleep(std::time::Duration::from_nanos(1)).await;
}

/// Cooperative barrier that does not touch the clock: yield `n` times.
pub async fn spin(n: usize) {
    for _ in 0..n {
        tokio::task::yield_now().await;
    }
}

/// Build a paused current-thread runtime and run `f` on it.
pub fn run_paused<F: std::future::Future>(f: F) -> F::Output {
    let rt = tokio::runtime::Builder::new_current_thread()
        .enable_time()
        .start_paused(true)
        .build()
        .expect("runtime");
    rt.block_on(f)
}
