//! C03 — not built yet (stub; see DESIGN.md §5).
use crate::ctx::Tier;
use serde_json::Value;

pub fn run(_tier: Tier) -> ! {
    eprintln!("MACHINERY-ERROR property=C03 check not built yet");
    std::process::exit(2)
}

pub fn replay(_case: &Value) -> Result<(), String> {
    Err("no replay for C03 yet".into())
}
