//! C03 — every request gets exactly one matching response; notifies get none.
//! Pipelines of request "letters" are sent to the real servers on five
//! dispatch paths (blocking TCP, async TCP, async over memstream, WebSocket
//! inline, WebSocket off-reader routes); everything that comes back, and every
//! handler invocation counter, is compared with a reference model.

#[path = "c03_sat.rs"]
mod sat;
use crate::ctx::{Ctx, Samples, Tier};
use crate::frames::{self, FMT_BEVE, FMT_JSON, FMT_RAW, FMT_UTF8, Frame, Hdr};
use crate::memstream;
use crate::wsh::{self, Got, Serve};
use repe::{CallContext, ErrorCode, Message, MessageView, RepeError, Router};
use serde::{Deserialize, Serialize};
use serde_json::{Value, json};
use std::collections::BTreeMap;
use std::io::{Read, Write};
use std::sync::Arc;
use std::sync::atomic::{AtomicU64, Ordering};
use std::time::Duration;

// ------------------------------------------------------------------ routes

#[derive(Default)]
pub struct Counters {
    pub by_route: BTreeMap<&'static str, AtomicU64>,
    pub middleware: AtomicU64,
}

const ROUTES: [&str; 13] = [
    "json", "typed", "jsonctx", "typedctx", "jth", "slice", "sliceref", "regfn", "structfn", "custom",
    "jsonb", "typedb", "jsonctxb",
];

impl Counters {
    fn new() -> Arc<Counters> {
        let mut c = Counters::default();
        for r in ROUTES {
            c.by_route.insert(r, AtomicU64::new(0));
        }
        Arc::new(c)
    }
    fn hit(&self, r: &'static str) {
        self.by_route[r].fetch_add(1, Ordering::SeqCst);
    }
    fn snapshot(&self) -> BTreeMap<&'static str, u64> {
        let mut m: BTreeMap<&'static str, u64> =
            self.by_route.iter().map(|(k, v)| (*k, v.load(Ordering::SeqCst))).collect();
        m.insert("middleware", self.middleware.load(Ordering::SeqCst));
        m
    }
}

#[derive(Deserialize)]
struct TypedIn {
    a: i64,
}
#[derive(Serialize)]
struct TypedOut {
    twice: i64,
}

struct Jth(Arc<Counters>);
impl repe::JsonTypedHandler for Jth {
    type In = TypedIn;
    type Out = TypedOut;
    fn call(&self, input: TypedIn) -> Result<TypedOut, (ErrorCode, String)> {
        self.0.hit("jth");
        Ok(TypedOut { twice: input.a * 2 })
    }
}

/// Custom erased handler that chooses its own response query.
struct Custom(Arc<Counters>);
impl repe::server::HandlerErased for Custom {
    fn handle(&self, req: &Message) -> Result<Message, RepeError> {
        self.0.hit("custom");
        Ok(Message::builder()
            .id(req.header.id)
            .query_str("/own")
            .body_bytes(b"\"custom\"".to_vec())
            .body_format(repe::BodyFormat::Json)
            .build())
    }
}

#[derive(Default, Serialize, Deserialize, repe::RepeStruct)]
#[repe(methods(bump(&mut self) -> i32))]
struct Svc {
    n: i32,
    #[serde(skip)]
    #[repe(skip)]
    counters: Option<Arc<Counters>>,
}
impl Svc {
    fn bump(&mut self) -> i32 {
        if let Some(c) = &self.counters {
            c.hit("structfn");
        }
        self.n += 1;
        7
    }
}

struct CountMw(Arc<Counters>);
impl repe::Middleware for CountMw {
    fn handle(&self, req: &Message, next: repe::Next<'_>) -> Result<Message, RepeError> {
        self.0.middleware.fetch_add(1, Ordering::SeqCst);
        next.run(req)
    }
}

fn app_err() -> (ErrorCode, String) {
    (ErrorCode::ApplicationErrorBase, "boom".to_string())
}

pub fn build_router(c: &Arc<Counters>) -> Router {
    build_router_mw(c, true)
}

/// `with_mw = false`: no middleware at all, so that the servers take the zero-copy (`handle_view`) path
/// for every route that has one (a router-wide middleware forces the copying path).
pub fn build_router_mw(c: &Arc<Counters>, with_mw: bool) -> Router {
    let registry = Arc::new(repe::Registry::new());
    registry.register_value("/val", json!(41)).unwrap();
    {
        let c = c.clone();
        registry
            .register_function("/fn", move |p: Option<Value>| -> Result<Value, (ErrorCode, String)> {
                c.hit("regfn");
                Ok(json!({"called": p}))
            })
            .unwrap();
    }
    let c1 = c.clone();
    let c2 = c.clone();
    let c3 = c.clone();
    let c4 = c.clone();
    let c5 = c.clone();
    let c6 = c.clone();
    let c7 = c.clone();
    let c8 = c.clone();
    let c9 = c.clone();
    let json_fn = move |v: Value| -> Result<Value, (ErrorCode, String)> {
        c1.hit("json");
        if v == json!("fail") { Err(app_err()) } else { Ok(json!({"echo": v})) }
    };
    let base = if with_mw { Router::new().with_middleware(CountMw(c.clone())) } else { Router::new() };
    let router = base
        .with_json("/json", json_fn)
        .with_typed::<TypedIn, TypedOut, _>("/typed", move |t: TypedIn| {
            c2.hit("typed");
            if t.a == -1 { Err(app_err()) } else { Ok(TypedOut { twice: t.a * 2 }) }
        })
        .with_json_ctx("/jsonctx", move |_ctx: &CallContext, v: Value| {
            c3.hit("jsonctx");
            Ok(json!({"ctx": v}))
        })
        .with_typed_ctx::<TypedIn, TypedOut, _>("/typedctx", move |_ctx: &CallContext, t: TypedIn| {
            c4.hit("typedctx");
            Ok(TypedOut { twice: t.a * 2 })
        })
        .with_handler("/jth", Jth(c.clone()))
        .with_typed_slice::<f64, f64, _>("/slice", move |xs: Vec<f64>| {
            c5.hit("slice");
            Ok(xs.iter().map(|x| x * 2.0).collect::<Vec<f64>>())
        })
        .with_typed_slice_ref::<f64, f64, _>("/sliceref", move |xs| {
            c6.hit("sliceref");
            Ok(xs.iter().map(|x| x + 1.0).collect::<Vec<f64>>())
        })
        .with_registry("/reg", registry)
        .with_erased_handler("/custom", Arc::new(Custom(c.clone())))
        .with_json_blocking("/jsonb", move |v: Value| {
            c7.hit("jsonb");
            if v == json!("fail") { Err(app_err()) } else { Ok(json!({"b": v})) }
        })
        .with_typed_blocking::<TypedIn, TypedOut, _>("/typedb", move |t: TypedIn| {
            c8.hit("typedb");
            Ok(TypedOut { twice: t.a * 2 })
        })
        .with_json_ctx_blocking("/jsonctxb", move |_ctx: &CallContext, v: Value| {
            c9.hit("jsonctxb");
            Ok(json!({"cb": v}))
        });
    let (router, _shared) = router.with_struct("/st", Svc { n: 0, counters: Some(c.clone()) });
    router
}

// ------------------------------------------------------------------ letters

#[derive(Clone, Debug)]
pub struct Letter {
    pub name: &'static str,
    pub path: Vec<u8>,
    pub version: u8,
    pub qf: u16,
    pub bf: u16,
    pub body: Vec<u8>,
    pub notify: bool,
    /// expected error code of the response; None = any non-zero code
    pub ec: Option<u32>,
    /// expected response body (None = not predicted, only compared across paths)
    pub resp_body: Option<Vec<u8>>,
    /// expected response query; None = the request's query
    pub resp_query: Option<Vec<u8>>,
    /// user-level handler expected to run exactly once (None = none may run)
    pub runs: Option<&'static str>,
    /// reaches a handler (so the middleware runs once)
    pub dispatched: bool,
    /// handled off the reader on the WebSocket path
    pub off_reader: bool,
}

fn l(name: &'static str, path: &str, bf: u16, body: &[u8]) -> Letter {
    Letter {
        name,
        path: path.as_bytes().to_vec(),
        version: 1,
        qf: 1,
        bf,
        body: body.to_vec(),
        notify: false,
        ec: Some(0),
        resp_body: None,
        resp_query: None,
        runs: None,
        dispatched: true,
        off_reader: false,
    }
}

impl Letter {
    fn ok(mut self, runs: &'static str, body: Value) -> Self {
        self.runs = Some(runs);
        self.resp_body = Some(serde_json::to_vec(&body).unwrap());
        self
    }
    fn ok_raw(mut self, runs: &'static str, body: Vec<u8>) -> Self {
        self.runs = Some(runs);
        self.resp_body = Some(body);
        self
    }
    fn err(mut self, code: u32) -> Self {
        self.ec = Some(code);
        self
    }
    fn any_err(mut self) -> Self {
        self.ec = None;
        self
    }
    fn ran(mut self, r: &'static str) -> Self {
        self.runs = Some(r);
        self
    }
    fn rejected(mut self) -> Self {
        self.dispatched = false;
        self
    }
    fn off(mut self) -> Self {
        self.off_reader = true;
        self
    }
    fn as_notify(mut self, name: &'static str) -> Self {
        self.name = name;
        self.notify = true;
        self
    }
    pub fn frame(&self, id: u64) -> Frame {
        let h = Hdr {
            version: self.version,
            notify: self.notify as u8,
            id,
            query_format: self.qf,
            body_format: self.bf,
            ..Default::default()
        };
        Frame::new(h, &self.path, &self.body)
    }
}

fn typed_slice_body(xs: &[f64]) -> Vec<u8> {
    Message::builder().body_typed_slice(xs).build().body
}

pub fn alphabet() -> Vec<Letter> {
    let beve_a1 = beve::to_vec(&json!({"a": 1})).unwrap();
    let mut v = vec![
        l("json/ok", "/json", FMT_JSON, br#"{"a":1}"#).ok("json", json!({"echo": {"a": 1}})),
        l("json/beve-body", "/json", FMT_BEVE, &beve_a1).ok("json", json!({"echo": {"a": 1}})),
        l("json/utf8-body", "/json", FMT_UTF8, b"[1,2]").ok("json", json!({"echo": [1, 2]})),
        l("json/raw-format", "/json", FMT_RAW, br#"{"a":1}"#).err(4),
        l("json/unknown-format", "/json", 9, br#"{"a":1}"#).err(4),
        l("json/malformed-body", "/json", FMT_JSON, br#"{"a":"#).err(5),
        l("json/empty-body", "/json", FMT_JSON, b"").err(5),
        l("json/handler-error", "/json", FMT_JSON, br#""fail""#).err(4096).ran("json"),
        l("version/0", "/json", FMT_JSON, b"1").err(1).rejected(),
        l("version/2", "/json", FMT_JSON, b"1").err(1).rejected(),
        l("query/raw-format", "/json", FMT_JSON, b"1").err(3).rejected(),
        l("query/unknown-format", "/json", FMT_JSON, b"1").err(3).rejected(),
        l("query/not-utf8", "/json", FMT_JSON, b"1").err(3).rejected(),
        l("path/unknown", "/nope", FMT_JSON, b"1").err(6).rejected(),
        l("version/0+unknown-path", "/nope", FMT_JSON, b"1").err(1).rejected(),
        l("query/raw-format+unknown-path", "/nope", FMT_JSON, b"1").err(3).rejected(),
        // two error conditions at once: the earlier stage of the pipeline (version, query, route, body) decides
        l("version/0+query/raw-format", "/json", FMT_JSON, b"1").err(1).rejected(),
        l("version/2+query/not-utf8", "/json", FMT_JSON, b"1").err(1).rejected(),
        l("version/0+body/unknown-format", "/json", 9, b"1").err(1).rejected(),
        l("query/raw-format+body/malformed", "/json", FMT_JSON, b"{").err(3).rejected(),
        l("query/not-utf8+body/unknown-format", "/json", 9, b"1").err(3).rejected(),
        l("path/unknown+body/malformed", "/nope", FMT_JSON, b"{").err(6).rejected(),
        l("path/unknown+body/unknown-format", "/nope", 9, b"1").err(6).rejected(),
        l("path/empty", "", FMT_JSON, b"1").err(6).rejected(),
        l("path/prefix-no-boundary", "/jsonx", FMT_JSON, b"1").err(6).rejected(),
        l("typed/ok", "/typed", FMT_JSON, br#"{"a":21}"#).ok("typed", json!({"twice": 42})),
        l("typed/wrong-shape", "/typed", FMT_JSON, br#"{"x":1}"#).any_err(),
        l("typed/handler-error", "/typed", FMT_JSON, br#"{"a":-1}"#).err(4096).ran("typed"),
        l("typed/raw-format", "/typed", FMT_RAW, br#"{"a":1}"#).err(4),
        l("jsonctx/ok", "/jsonctx", FMT_JSON, b"3").ok("jsonctx", json!({"ctx": 3})),
        l("typedctx/ok", "/typedctx", FMT_JSON, br#"{"a":5}"#).ok("typedctx", json!({"twice": 10})),
        l("jth/ok", "/jth", FMT_JSON, br#"{"a":4}"#).ok("jth", json!({"twice": 8})),
        l("jth/malformed", "/jth", FMT_JSON, b"{").err(5),
        l("slice/ok", "/slice", FMT_BEVE, &typed_slice_body(&[1.0, 2.5])).ok_raw("slice", typed_slice_body(&[2.0, 5.0])),
        l("slice/json-format", "/slice", FMT_JSON, b"[1.0]").any_err(),
        l("sliceref/ok", "/sliceref", FMT_BEVE, &typed_slice_body(&[1.0, 2.0, 3.0])).ok_raw("sliceref", typed_slice_body(&[2.0, 3.0, 4.0])),
        l("registry/read", "/reg/val", FMT_JSON, b"").ok_raw("", b"41".to_vec()),
        l("registry/write", "/reg/w", FMT_JSON, b"5").any_ok(),
        l("registry/call", "/reg/fn", FMT_JSON, b"[1]").ok("regfn", json!({"called": [1]})),
        l("registry/missing", "/reg/none/x", FMT_JSON, b"").err(6),
        l("registry/unknown-format", "/reg/val", 9, b"1").err(4),
        l("struct/call", "/st/bump", FMT_JSON, b"").ok("structfn", json!(7)),
        l("struct/missing", "/st/nope", FMT_JSON, b"").any_err(),
        l("custom/own-query", "/custom", FMT_JSON, b"1").ok("custom", json!("custom")),
        l("jsonb/ok", "/jsonb", FMT_JSON, b"9").ok("jsonb", json!({"b": 9})).off(),
        l("jsonb/handler-error", "/jsonb", FMT_JSON, br#""fail""#).err(4096).ran("jsonb").off(),
        l("jsonb/malformed", "/jsonb", FMT_JSON, b"[").err(5).off(),
        l("typedb/ok", "/typedb", FMT_JSON, br#"{"a":1}"#).ok("typedb", json!({"twice": 2})).off(),
        l("jsonctxb/ok", "/jsonctxb", FMT_JSON, b"2").ok("jsonctxb", json!({"cb": 2})).off(),
    ];
    // envelope tweaks that cannot be expressed through `l`
    for x in v.iter_mut() {
        match x.name {
            "version/0" | "version/0+unknown-path" => x.version = 0,
            "query/raw-format+unknown-path" => x.qf = 0,
            "version/2" => x.version = 2,
            "version/0+query/raw-format" => {
                x.version = 0;
                x.qf = 0;
            }
            "version/2+query/not-utf8" => {
                x.version = 2;
                x.path = vec![b'/', 0xff, 0xfe];
            }
            "version/0+body/unknown-format" => x.version = 0,
            "query/raw-format+body/malformed" => x.qf = 0,
            "query/not-utf8+body/unknown-format" => x.path = vec![b'/', 0xff, 0xfe],
            "query/raw-format" => x.qf = 0,
            "query/unknown-format" => x.qf = 7,
            "query/not-utf8" => x.path = vec![b'/', 0xff, 0xfe],
            "registry/read" => x.runs = None,
            "custom/own-query" => x.resp_query = Some(b"/own".to_vec()),
            _ => {}
        }
    }
    // notify twins: no response whatever the outcome; handler effects identical
    let pick = |name: &str| v.iter().find(|x| x.name == name).unwrap().clone();
    let notifies = vec![
        pick("json/ok").as_notify("notify/json/ok"),
        pick("json/malformed-body").as_notify("notify/json/malformed"),
        pick("json/handler-error").as_notify("notify/json/handler-error"),
        pick("version/0").as_notify("notify/version/0"),
        pick("query/not-utf8").as_notify("notify/query/not-utf8"),
        pick("path/unknown").as_notify("notify/path/unknown"),
        pick("custom/own-query").as_notify("notify/custom"),
        pick("registry/call").as_notify("notify/registry/call"),
        pick("jsonb/ok").as_notify("notify/jsonb/ok"),
        pick("struct/call").as_notify("notify/struct/call"),
    ];
    v.extend(notifies);
    v
}

impl Letter {
    fn any_ok(mut self) -> Self {
        self.ec = Some(0);
        self.resp_body = None;
        self
    }
}

// ------------------------------------------------------------------ dispatch paths

#[derive(Clone, Copy, Debug, PartialEq, Eq, PartialOrd, Ord)]
pub enum PathKind {
    BlockingTcp,
    AsyncTcp,
    AsyncMem,
    WebSocket,
    /// WebSocket server with an outbound queue of 1 whose peer reads nothing until every
    /// request of the pipeline was sent (responses pile up behind a full queue)
    WebSocketTight,
    /// the same servers with their non-default options set (read/write timeouts far in the future;
    /// the WebSocket connection served through the handshake + embedder-cancel entry point)
    BlockingTcpTimeouts,
    AsyncTcpTimeouts,
    AsyncMemTimeouts,
    WebSocketCancelHandshake,
}

impl PathKind {
    pub fn name(self) -> &'static str {
        match self {
            PathKind::BlockingTcp => "blocking-tcp",
            PathKind::AsyncTcp => "async-tcp",
            PathKind::AsyncMem => "async-mem",
            PathKind::WebSocket => "websocket",
            PathKind::WebSocketTight => "websocket-outbound-capacity-1",
            PathKind::BlockingTcpTimeouts => "blocking-tcp+timeouts",
            PathKind::AsyncTcpTimeouts => "async-tcp+timeouts",
            PathKind::AsyncMemTimeouts => "async-mem+timeouts",
            PathKind::WebSocketCancelHandshake => "websocket+cancel+handshake",
        }
    }
}

pub struct Endpoint {
    kind: PathKind,
    /// false: the router carries no middleware (zero-copy dispatch where the route has it)
    with_mw: bool,
    counters: Arc<Counters>,
    addr: Option<std::net::SocketAddr>,
    rt: Option<tokio::runtime::Runtime>,
    mem_tx: Option<tokio::sync::mpsc::UnboundedSender<Box<dyn repe::verif_io::Io>>>,
    shared: Option<repe::SharedWebSocketServer>,
    _server: Option<repe::Server>,
}

/// far enough that no timeout can fire (one hour; virtual on the paused in-memory row)
const FAR: Duration = Duration::from_secs(3600);

static NEXT_SLOT: AtomicU64 = AtomicU64::new(100);

impl Endpoint {
    pub fn start(kind: PathKind) -> Endpoint {
        Self::start_mw(kind, true)
    }
    pub fn label(&self) -> String {
        if self.with_mw { self.kind.name().to_string() } else { format!("{}/no-middleware", self.kind.name()) }
    }
    pub fn start_mw(kind: PathKind, with_mw: bool) -> Endpoint {
        let counters = Counters::new();
        let router = build_router_mw(&counters, with_mw);
        let mut ep = Endpoint { kind, with_mw, counters, addr: None, rt: None, mem_tx: None, shared: None, _server: None };
        match kind {
            PathKind::BlockingTcp | PathKind::BlockingTcpTimeouts => {
                let mut server = repe::Server::new(router);
                if kind == PathKind::BlockingTcpTimeouts {
                    server = server.read_timeout(Some(FAR)).write_timeout(Some(FAR));
                }
                let listener = server.listen("127.0.0.1:0").expect("listen");
                ep.addr = Some(listener.local_addr().unwrap());
                std::thread::spawn(move || {
                    let _ = server.serve(listener);
                });
            }
            PathKind::AsyncTcp | PathKind::AsyncTcpTimeouts => {
                let rt = tokio::runtime::Builder::new_multi_thread().worker_threads(2).enable_all().build().unwrap();
                let listener = rt.block_on(repe::AsyncServer::listen("127.0.0.1:0")).expect("listen");
                ep.addr = Some(listener.local_addr().unwrap());
                let mut server = repe::AsyncServer::new(router);
                if kind == PathKind::AsyncTcpTimeouts {
                    server = server.read_timeout(Some(FAR)).write_timeout(Some(FAR));
                }
                rt.spawn(async move {
                    let _ = server.serve(listener).await;
                });
                ep.rt = Some(rt);
            }
            PathKind::AsyncMem | PathKind::AsyncMemTimeouts => {
                let rt = tokio::runtime::Builder::new_current_thread().enable_time().start_paused(true).build().unwrap();
                let slot = NEXT_SLOT.fetch_add(1, Ordering::SeqCst) as u16;
                let tx = repe::verif_io::register_listener(slot);
                let listener = rt.block_on(repe::AsyncServer::listen(("127.254.77.1", slot))).expect("mem listen");
                let mut server = repe::AsyncServer::new(router);
                if kind == PathKind::AsyncMemTimeouts {
                    server = server.read_timeout(Some(FAR)).write_timeout(Some(FAR));
                }
                rt.spawn(async move {
                    let _ = server.serve(listener).await;
                });
                ep.mem_tx = Some(tx);
                ep.rt = Some(rt);
            }
            PathKind::WebSocketTight => {
                // multi-threaded on purpose: this row adds detection power for orderings that
                // only differ when runtime workers race (it is labelled non-deciding)
                let rt = tokio::runtime::Builder::new_multi_thread().worker_threads(4).enable_time().build().unwrap();
                ep.shared = Some(repe::WebSocketServer::new(router).with_offreader_limit(0).with_outbound_capacity(1).into_shared());
                ep.rt = Some(rt);
            }
            PathKind::WebSocket | PathKind::WebSocketCancelHandshake => {
                let rt = tokio::runtime::Builder::new_current_thread().enable_time().build().unwrap();
                // no off-reader cap here: saturation (ResourceExhausted at the cap) is C16's subject
                ep.shared = Some(repe::WebSocketServer::new(router).with_offreader_limit(0).into_shared());
                ep.rt = Some(rt);
            }
        }
        ep
    }

    /// Send the pipeline, collect every frame that comes back.
    /// `expect_n` = number of responses the model predicts (used on the
    /// WebSocket path to know when to close).
    pub fn exchange(&self, frames_out: &[Frame], expect_n: usize) -> Result<Vec<Frame>, String> {
        let mut wire = Vec::new();
        for f in frames_out {
            wire.extend_from_slice(&f.to_bytes());
        }
        match self.kind {
            PathKind::BlockingTcp | PathKind::AsyncTcp | PathKind::BlockingTcpTimeouts | PathKind::AsyncTcpTimeouts => {
                let mut s = std::net::TcpStream::connect(self.addr.unwrap()).map_err(|e| e.to_string())?;
                s.set_read_timeout(Some(Duration::from_secs(10))).ok();
                s.write_all(&wire).map_err(|e| e.to_string())?;
                s.shutdown(std::net::Shutdown::Write).ok();
                let mut back = Vec::new();
                s.read_to_end(&mut back).map_err(|e| format!("reading responses: {e}"))?;
                let (fr, rest) = frames::split_stream(&back)?;
                if rest != 0 {
                    return Err(format!("{rest} trailing bytes of an incomplete frame"));
                }
                Ok(fr)
            }
            PathKind::AsyncMem | PathKind::AsyncMemTimeouts => {
                let rt = self.rt.as_ref().unwrap();
                let tx = self.mem_tx.as_ref().unwrap();
                rt.block_on(async {
                    let (server_end, client_end, ctl) = memstream::pair();
                    tx.send(Box::new(server_end)).map_err(|_| "listener gone".to_string())?;
                    ctl.b_to_a.push(&wire);
                    ctl.b_to_a.close();
                    memstream::settle().await;
                    let back = ctl.a_to_b.take();
                    drop(client_end);
                    let (fr, rest) = frames::split_stream(&back)?;
                    if rest != 0 {
                        return Err(format!("{rest} trailing bytes of an incomplete frame"));
                    }
                    Ok(fr)
                })
            }
            PathKind::WebSocket | PathKind::WebSocketTight | PathKind::WebSocketCancelHandshake => {
                let rt = self.rt.as_ref().unwrap();
                let shared = self.shared.as_ref().unwrap();
                let tight = self.kind == PathKind::WebSocketTight;
                rt.block_on(async {
                    let serve = if self.kind == PathKind::WebSocketCancelHandshake {
                        Serve::WithCancelAndHandshake(repe::websocket_server::ShutdownToken::new(), {
                            let req = tokio_tungstenite::tungstenite::http::Request::builder().uri("/repe").header("Host", "verif.mem").body(()).expect("request");
                            repe::websocket_server::HandshakeContext::from_http_request(&req)
                        })
                    } else {
                        Serve::Plain
                    };
                    let mut c = wsh::connect(shared, serve, None).await;
                    if tight {
                        // the peer accepts nothing from the server while it sends the first half
                        // of its requests, then lets the responses trickle out while it sends the rest
                        c.ctl.a_to_b.set_credit(Some(0));
                        let half = frames_out.len() / 2;
                        for f in &frames_out[..half] {
                            c.send_frame(f).await?;
                        }
                        for _ in 0..50 {
                            tokio::task::yield_now().await;
                        }
                        for f in &frames_out[half..] {
                            c.ctl.a_to_b.grant(96);
                            tokio::task::yield_now().await;
                            c.send_frame(f).await?;
                        }
                        for _ in 0..50 {
                            tokio::task::yield_now().await;
                        }
                        c.ctl.a_to_b.set_credit(None);
                    } else {
                        for f in frames_out {
                            c.send_frame(f).await?;
                        }
                    }
                    let mut got = Vec::new();
                    // wait for the predicted number of responses (off-reader handlers
                    // answer asynchronously), then close and collect anything extra
                    while got.len() < expect_n {
                        match c.next(Duration::from_secs(10)).await {
                            Got::Frame(f) => got.push(f),
                            Got::Nothing => break,
                            other => return Err(format!("unexpected websocket event {other:?}")),
                        }
                    }
                    let _ = c.send_raw(tokio_tungstenite::tungstenite::Message::Close(None)).await;
                    loop {
                        match c.next(Duration::from_secs(10)).await {
                            Got::Frame(f) => got.push(f),
                            Got::Close | Got::End(_) => break,
                            Got::Nothing => return Err("server did not close after Close".into()),
                            other => return Err(format!("unexpected websocket event {other:?}")),
                        }
                    }
                    let _ = tokio::time::timeout(Duration::from_secs(10), c.server).await;
                    Ok(got)
                })
            }
        }
    }
}

// ------------------------------------------------------------------ oracle

#[derive(Default)]
pub struct Tally {
    pub pipelines: u64,
    pub requests: u64,
    pub responses: u64,
    pub by_class: BTreeMap<String, u64>,
    pub multi_inflight: u64,
}

/// Returns violations (key, what) for one pipeline on one endpoint.
pub fn check_pipeline(ep: &Endpoint, letters: &[&Letter], tally: &mut Tally, reference: &mut BTreeMap<String, (u32, Vec<u8>, u16, Vec<u8>)>) -> Vec<(String, String)> {
    let mut bad = Vec::new();
    let frames_out: Vec<Frame> = letters.iter().enumerate().map(|(i, l)| l.frame(1000 + i as u64)).collect();
    let expect_n = letters.iter().filter(|l| !l.notify).count();
    let before = ep.counters.snapshot();
    let got = match ep.exchange(&frames_out, expect_n) {
        Ok(g) => g,
        Err(e) => {
            bad.push((format!("C03:exchange-failed:{}", ep.kind.name()), format!("{e}; pipeline {:?}", letters.iter().map(|l| l.name).collect::<Vec<_>>())));
            return bad;
        }
    };
    // handler counters may lag for off-reader notifies: wait (bounded) for the model's counts
    let mut want: BTreeMap<&'static str, u64> = before.clone();
    for l in letters {
        if let Some(r) = l.runs {
            if !r.is_empty() {
                *want.get_mut(r).unwrap() += 1;
            }
        }
        if l.dispatched && ep.with_mw {
            *want.get_mut("middleware").unwrap() += 1;
        }
    }
    let deadline = std::time::Instant::now() + Duration::from_secs(2);
    let mut after = ep.counters.snapshot();
    while after != want && std::time::Instant::now() < deadline {
        std::thread::sleep(Duration::from_millis(1));
        after = ep.counters.snapshot();
    }
    let names: Vec<&str> = letters.iter().map(|l| l.name).collect();
    let ctx = format!("[{}] pipeline {:?}", ep.kind.name(), names);
    if after != want {
        let diff: Vec<String> = want.iter().filter(|(k, v)| after[*k] != **v).map(|(k, v)| format!("{k}: expected +{} got +{}", v - before[k], after[k] - before[k])).collect();
        bad.push((format!("C03:handler-invocations:{}", diff.first().map(|d| d.split(':').next().unwrap_or("")).unwrap_or("")), format!("{ctx}: handler invocation counts differ: {diff:?}")));
    }
    tally.pipelines += 1;
    tally.requests += letters.len() as u64;
    tally.responses += got.len() as u64;
    if expect_n >= 2 {
        tally.multi_inflight += 1;
    }
    // exactly one response per non-notify request, matched by id
    let mut by_id: BTreeMap<u64, Vec<&Frame>> = BTreeMap::new();
    for f in &got {
        by_id.entry(f.h.id).or_default().push(f);
    }
    for (i, l) in letters.iter().enumerate() {
        let id = 1000 + i as u64;
        let rs = by_id.remove(&id).unwrap_or_default();
        if l.notify {
            if !rs.is_empty() {
                bad.push(("C03:notify-answered".into(), format!("{ctx}: notify request #{i} ({}) produced {} response(s)", l.name, rs.len())));
            }
            continue;
        }
        if rs.len() != 1 {
            bad.push((format!("C03:response-count:{}", rs.len().min(2)), format!("{ctx}: request #{i} ({}) got {} responses", l.name, rs.len())));
            continue;
        }
        let r = rs[0];
        *tally.by_class.entry(format!("ec={}", r.h.ec)).or_insert(0) += 1;
        if r.h.notify != 0 {
            bad.push(("C03:response-flag".into(), format!("{ctx}: response to #{i} has the notify flag set")));
        }
        match l.ec {
            Some(code) if r.h.ec != code => bad.push((format!("C03:error-code:{}", l.name), format!("{ctx}: request #{i} ({}) answered with error code {}, expected {code}; body {:?}", l.name, r.h.ec, String::from_utf8_lossy(&r.body)))),
            None if r.h.ec == 0 => bad.push((format!("C03:error-code:{}", l.name), format!("{ctx}: request #{i} ({}) answered with success, expected an error", l.name))),
            _ => {}
        }
        let want_q: &[u8] = l.resp_query.as_deref().unwrap_or(&l.path);
        if r.query != want_q {
            bad.push(("C03:response-query".into(), format!("{ctx}: response to #{i} ({}) carries query {:?}, expected {:?}", l.name, String::from_utf8_lossy(&r.query), String::from_utf8_lossy(want_q))));
        }
        if let Some(b) = &l.resp_body {
            if r.h.ec == 0 && &r.body != b {
                bad.push((format!("C03:response-body:{}", l.name), format!("{ctx}: response to #{i} ({}) has body {:?}, expected {:?}", l.name, String::from_utf8_lossy(&r.body), String::from_utf8_lossy(b))));
            }
        }
        // same request -> same response fields on every transport (handlers are deterministic)
        let fields = (r.h.ec, r.query.clone(), r.h.body_format, r.body.clone());
        match reference.get(l.name) {
            Some(prev) if *prev != fields && l.name != "registry/write" => {
                bad.push((format!("C03:transport-divergence:{}", l.name), format!("{ctx}: response fields for {} differ from another transport/pipeline: (ec {}, query {:?}, format {}, body {:?}) vs (ec {}, query {:?}, format {}, body {:?})", l.name, r.h.ec, String::from_utf8_lossy(&r.query), r.h.body_format, String::from_utf8_lossy(&r.body), prev.0, String::from_utf8_lossy(&prev.1), prev.2, String::from_utf8_lossy(&prev.3))));
            }
            Some(_) => {}
            None => {
                reference.insert(l.name.to_string(), fields);
            }
        }
    }
    for (id, rs) in by_id {
        bad.push(("C03:unsolicited-response".into(), format!("{ctx}: {} frame(s) with id {id} that no request used", rs.len())));
    }
    // arrival order for requests handled inline on the connection
    let inline_expected: Vec<u64> = letters.iter().enumerate().filter(|(_, l)| !l.notify && !(matches!(ep.kind, PathKind::WebSocket | PathKind::WebSocketTight | PathKind::WebSocketCancelHandshake) && l.off_reader)).map(|(i, _)| 1000 + i as u64).collect();
    let inline_got: Vec<u64> = got.iter().map(|f| f.h.id).filter(|id| inline_expected.contains(id)).collect();
    if inline_got != inline_expected && inline_got.len() == inline_expected.len() {
        bad.push(("C03:inline-order".into(), format!("{ctx}: inline responses arrived as {inline_got:?}, requests were sent as {inline_expected:?}")));
    }
    bad
}

// ------------------------------------------------------------------ driver

pub fn run(tier: Tier) -> ! {
    let ctx = Ctx::new("C03", tier);
    let alpha = alphabet();
    let n = alpha.len();
    let kinds = [
        PathKind::BlockingTcp,
        PathKind::AsyncTcp,
        PathKind::AsyncMem,
        PathKind::WebSocket,
        PathKind::WebSocketTight,
        PathKind::BlockingTcpTimeouts,
        PathKind::AsyncTcpTimeouts,
        PathKind::AsyncMemTimeouts,
        PathKind::WebSocketCancelHandshake,
    ];
    // every base path again with a router that carries no middleware (zero-copy dispatch)
    let kinds: Vec<(PathKind, bool)> = kinds.iter().map(|k| (*k, true)).chain([PathKind::BlockingTcp, PathKind::AsyncTcp, PathKind::AsyncMem, PathKind::WebSocket].map(|k| (k, false))).collect();
    // pipelines: singles, ordered pairs, then (thorough) triples over a sub-alphabet and long pipelines
    let mut pipelines: Vec<Vec<usize>> = Vec::new();
    for i in 0..n {
        pipelines.push(vec![i]);
    }
    for i in 0..n {
        for j in 0..n {
            pipelines.push(vec![i, j]);
        }
    }
    let sub: Vec<usize> = ["json/ok", "json/malformed-body", "json/handler-error", "version/0", "path/unknown", "custom/own-query", "jsonb/ok", "notify/json/ok", "notify/path/unknown", "notify/jsonb/ok", "registry/call", "slice/ok"]
        .iter()
        .map(|name| alpha.iter().position(|l| l.name == *name).unwrap())
        .collect();
    // triples: over the sub-alphabet (quick) / over the whole alphabet (thorough); quadruples over the sub-alphabet (thorough)
    let all_letters: Vec<usize> = (0..n).collect();
    let tri: &[usize] = if tier == Tier::Thorough { &all_letters } else { &sub };
    for &a in tri {
        for &b in tri {
            for &c in tri {
                pipelines.push(vec![a, b, c]);
            }
        }
    }
    if tier == Tier::Thorough {
        for &a in &sub {
            for &b in &sub {
                for &c in &sub {
                    for &d in &sub {
                        pipelines.push(vec![a, b, c, d]);
                    }
                }
            }
        }
    }
    // long pipelines: each letter repeated to 64, and each pair at both ends of 64 echoes
    let echo = alpha.iter().position(|l| l.name == "json/ok").unwrap();
    for i in 0..n {
        pipelines.push(vec![i; 64]);
    }
    if tier == Tier::Thorough {
        for &a in &sub {
            for &b in &sub {
                let mut p = vec![a];
                p.extend(std::iter::repeat_n(echo, 62));
                p.push(b);
                pipelines.push(p);
            }
        }
    }
    let samples = Samples::new(4);
    // the servers log every connection that ends at EOF to stderr; silence that while sweeping
    let saved_stderr = unsafe { libc::dup(2) };
    unsafe {
        let devnull = libc::open(c"/dev/null".as_ptr(), libc::O_WRONLY);
        if devnull >= 0 {
            libc::dup2(devnull, 2);
            libc::close(devnull);
        }
    }
    let results: Vec<(String, Tally, Vec<(String, String, Vec<usize>)>)> = std::thread::scope(|s| {
        let hs: Vec<_> = kinds
            .iter()
            .map(|&(kind, with_mw)| {
                let alpha = &alpha;
                let pipelines = &pipelines;
                s.spawn(move || {
                    let ep = Endpoint::start_mw(kind, with_mw);
                    let kind = ep.label();
                    let mut tally = Tally::default();
                    let mut reference = BTreeMap::new();
                    let mut bad_all = Vec::new();
                    for p in pipelines {
                        if bad_all.len() >= 24 {
                            // enough counterexamples on this path; the run is a violation anyway
                            break;
                        }
                        let letters: Vec<&Letter> = p.iter().map(|i| &alpha[*i]).collect();
                        for (k, w) in check_pipeline(&ep, &letters, &mut tally, &mut reference) {
                            if bad_all.len() < 200 {
                                bad_all.push((k, w, p.clone()));
                            }
                        }
                    }
                    (kind, tally, bad_all, reference)
                })
            })
            .collect();
        let mut out = Vec::new();
        let mut refs: Vec<(String, BTreeMap<String, (u32, Vec<u8>, u16, Vec<u8>)>)> = Vec::new();
        for h in hs {
            let (kind, tally, bad, reference) = h.join().unwrap();
            refs.push((kind.clone(), reference));
            out.push((kind, tally, bad));
        }
        // cross-transport comparison of the reference responses
        let (k0, r0) = &refs[0];
        for (k, r) in &refs[1..] {
            for (name, fields) in r0 {
                if name == "registry/write" {
                    continue;
                }
                if let Some(other) = r.get(name) {
                    if other != fields {
                        out[0].2.push((
                            format!("C03:transport-divergence:{name}"),
                            format!("response fields for {name} differ between {} and {}: (ec {}, body {:?}) vs (ec {}, body {:?})", k0, k, fields.0, String::from_utf8_lossy(&fields.3), other.0, String::from_utf8_lossy(&other.3)),
                            vec![],
                        ));
                    }
                }
            }
        }
        out
    });
    unsafe {
        if saved_stderr >= 0 {
            libc::dup2(saved_stderr, 2);
            libc::close(saved_stderr);
        }
    }
    // ---- requests arriving at the off-reader cap (answered by the reader itself)
    let sat = sat::run_all(tier);
    if let Some(m) = &sat.machinery {
        ctx.machinery(format!("saturated block: {m}"));
    }
    for (k, w, case) in &sat.bad {
        ctx.violation(k.clone(), w.clone(), case.clone());
    }
    if !ctx.has_violation() && (sat.rejected_calls_seen == 0 || sat.notifies_at_cap == 0) {
        ctx.machinery("vacuous exploration: no request was ever answered at the off-reader cap");
    }
    let mut total = Tally::default();
    let mut per_path = Vec::new();
    for (kind, t, bad) in &results {
        for (k, w, p) in bad {
            ctx.violation(k.clone(), w.clone(), json!({"path_kind": kind, "pipeline": p, "letters": p.iter().map(|i| alpha[*i].name).collect::<Vec<_>>()}));
        }
        total.pipelines += t.pipelines;
        total.requests += t.requests;
        total.responses += t.responses;
        total.multi_inflight += t.multi_inflight;
        for (k, v) in &t.by_class {
            *total.by_class.entry(k.clone()).or_insert(0) += v;
        }
        per_path.push(json!({"path": kind, "pipelines": t.pipelines, "requests": t.requests, "responses": t.responses}));
    }
    if !ctx.has_violation() && (total.by_class.len() < 6 || total.multi_inflight == 0) {
        ctx.machinery("vacuous exploration: fewer than 6 response classes or no multi-request pipeline");
    }
    samples.offer(|| json!({"pipeline": ["json/ok", "notify/jsonb/ok", "version/0"], "meaning": "three frames written in one burst on one connection"}));
    samples.offer(|| json!({"letter": "query/not-utf8", "request": format!("{:?}", alpha.iter().find(|l| l.name == "query/not-utf8").unwrap().frame(1000))}));
    let coverage = json!({
        "states": pipelines.len() as u64 * kinds.len() as u64 + sat.scenarios,
        "transitions": total.requests + sat.rejected_calls_seen + sat.notifies_at_cap + sat.handler_runs,
        "traces_validated_against_impl": total.pipelines,
        "samples": samples.take(),
        "exhaustive": true,
        "alphabet": alpha.iter().map(|l| l.name).collect::<Vec<_>>(),
        "letters": n,
        "bound": {"singles": n, "ordered_pairs": n * n, "triples_over": tri.len(), "quadruples_over": if tier == Tier::Thorough { sub.len() } else { 0 }, "repeat_64": n, "pair_around_62_echoes": if tier == Tier::Thorough { sub.len() * sub.len() } else { 0 }},
        "dispatch_paths": per_path,
        "non_deciding_rows": ["websocket-outbound-capacity-1: same pipelines on a 4-worker runtime with a 1-slot outbound queue and a trickling peer; the schedules of the runtime workers are whatever occurs (not enumerated), so this row only adds detection (any reordering it sees is a real violation: the reader queues responses sequentially)"],
        "requests_at_the_offreader_cap": {"scenarios": sat.scenarios, "calls_answered_by_the_reader": sat.rejected_calls_seen, "notifies_at_the_cap": sat.notifies_at_cap, "parked_handler_runs": sat.handler_runs, "rule": "caps 1, 2, 3 (thorough 16) x four blocking route kinds x {call, notify, call+notify+call} at the cap x short / 285-byte escaped path: exactly one response per call carrying its id and its query bytes, none per notify, one per released request, handler invocations = dispatched requests"},
        "nonvacuity": {"responses_by_error_code": total.by_class, "pipelines_with_2plus_responses": total.multi_inflight, "responses": total.responses, "requests": total.requests},
        "rule": "every pipeline (all letters, all ordered pairs, triples over a 12-letter sub-alphabet (thorough: over all letters, plus quadruples over the sub-alphabet), each letter x64, pairs around 62 echoes) is written in one burst on a fresh connection of each dispatch path (blocking TCP, async TCP, async over memstream, WebSocket with inline and off-reader routes; each with a router-wide counting middleware, which forces the copying dispatch path, and again with no middleware at all, where the servers dispatch zero-copy); all frames received until the server closes are matched by id against the model; handler and middleware invocation counters are compared per pipeline",
    });
    ctx.finish(
        "model_checking",
        coverage,
        &[
            "handlers are deterministic functions of the request (needed for the cross-transport comparison)",
            "TCP paths use real loopback sockets: the pipeline is written, the write side half-closed, and everything until EOF is read (10 s watchdog)",
            "on the WebSocket path the harness waits for the predicted number of responses before sending Close, then collects anything extra",
        ],
    )
}

pub fn replay(case: &Value) -> Result<(), String> {
    if case["block"].as_str() == Some("saturated") {
        let sc = sat::case_from_json(case).ok_or("saturated case")?;
        let out = sat::run_scenarios(&[sc]);
        if let Some(m) = out.machinery {
            return Err(format!("machinery: {m}"));
        }
        return if out.bad.is_empty() { Ok(()) } else { Err(out.bad.into_iter().map(|(k, w, _)| format!("{k}: {w}")).collect::<Vec<_>>().join("\n")) };
    }
    let alpha = alphabet();
    let label = case["path_kind"].as_str().unwrap_or("");
    let with_mw = !label.ends_with("/no-middleware");
    let kind = match label.trim_end_matches("/no-middleware") {
        "blocking-tcp" => PathKind::BlockingTcp,
        "async-tcp" => PathKind::AsyncTcp,
        "async-mem" => PathKind::AsyncMem,
        "websocket-outbound-capacity-1" => PathKind::WebSocketTight,
        "blocking-tcp+timeouts" => PathKind::BlockingTcpTimeouts,
        "async-tcp+timeouts" => PathKind::AsyncTcpTimeouts,
        "async-mem+timeouts" => PathKind::AsyncMemTimeouts,
        "websocket+cancel+handshake" => PathKind::WebSocketCancelHandshake,
        _ => PathKind::WebSocket,
    };
    let p: Vec<usize> = case["pipeline"].as_array().ok_or("pipeline")?.iter().map(|v| v.as_u64().unwrap_or(0) as usize).collect();
    let ep = Endpoint::start_mw(kind, with_mw);
    let letters: Vec<&Letter> = p.iter().map(|i| &alpha[*i]).collect();
    let mut tally = Tally::default();
    let mut reference = BTreeMap::new();
    let bad = check_pipeline(&ep, &letters, &mut tally, &mut reference);
    if bad.is_empty() { Ok(()) } else { Err(bad.into_iter().map(|(k, w)| format!("{k}: {w}")).collect::<Vec<_>>().join("\n")) }
}

#[allow(dead_code)]
fn _unused(_: &MessageView) {}
