//! C10 — a failed or interrupted pull never publishes a file, and never a partial one.
//!
//! Three hook-free parts (DESIGN.md §5 C10), all on the real `repe::value_stream`
//! pullers talking over loopback TCP to a harness server that fronts the REAL
//! `/_svs/*` handlers (module `c10_srv`):
//!
//!  1. in-process fault enumeration: pullers × compression × destination state ×
//!     every producer-failure byte position, every connection-cut point, scripted
//!     errors, missing `last`, rejecting / tampered verification, trailer ≥ stream,
//!     un-renameable destination; oracle on the returned value and on a full
//!     snapshot of the destination directory;
//!  2. the same pulls in a child process killed by `strace` fault injection
//!     (SIGKILL on syscall entry) at every file-system syscall touching the temp /
//!     destination path and at every socket receive; oracle on the directory;
//!  3. the strace-recorded write/fsync/rename history of a successful pull is fed
//!     to a small crash model (module `c10_os`): every prefix × every subset of
//!     un-synced writes dropped must leave the destination old or complete.
//!  4. SLOW / GATED CONSUMERS (module `c10_gate`): the caller-supplied digest, verifier or
//!     consume closure parks on a harness gate while the pull loop fails (AsyncClient and
//!     WebSocketClient in process over `memstream`, blocking `Client` over loopback TCP);
//!     the directory is sampled at the moment the pull function returns, after the gate was
//!     opened and after every consumer thread was joined; a retry to the same destination.

#[path = "c10_gate.rs"]
mod gate;
#[path = "c10_os.rs"]
mod os;
#[path = "c10_sib.rs"]
mod sib;
#[path = "c10_srv.rs"]
mod srv;

use crate::ctx::{Ctx, Samples, Tier};
use repe::value_stream::{self as vs, Compression, RouterValueStreamExt, StreamOpts};
use repe::{AsyncClient, BodyFormat, Client, RepeError, Router};
use serde::{Deserialize, Serialize};
use serde_json::{Value, json};
use std::collections::{BTreeMap, BTreeSet};
use std::io::Write;
use std::path::{Path, PathBuf};
use std::sync::atomic::{AtomicU64, Ordering};
use std::sync::{Arc, Mutex};
use std::time::Duration;

// ------------------------------------------------------------------ case space

#[derive(Clone, Copy, Debug, PartialEq, Eq, PartialOrd, Ord, Serialize, Deserialize)]
pub enum Puller {
    File,
    BeveFile,
    BeveZstFile,
    TrailerFile,
    FileAsync,
    VerifiedAsync,
    TrailerAsync,
    Value,
    ValueAsync,
}

pub const ALL_PULLERS: [Puller; 9] = [
    Puller::File,
    Puller::BeveFile,
    Puller::BeveZstFile,
    Puller::TrailerFile,
    Puller::FileAsync,
    Puller::VerifiedAsync,
    Puller::TrailerAsync,
    Puller::Value,
    Puller::ValueAsync,
];

impl Puller {
    pub fn name(self) -> &'static str {
        match self {
            Puller::File => "pull_to_file",
            Puller::BeveFile => "pull_to_beve_file",
            Puller::BeveZstFile => "pull_to_beve_zst_file",
            Puller::TrailerFile => "pull_to_file_trailer_verified",
            Puller::FileAsync => "pull_to_file_async",
            Puller::VerifiedAsync => "pull_to_file_verified_async",
            Puller::TrailerAsync => "pull_to_file_trailer_verified_async",
            Puller::Value => "pull_value",
            Puller::ValueAsync => "pull_value_async",
        }
    }
    pub fn is_value(self) -> bool {
        matches!(self, Puller::Value | Puller::ValueAsync)
    }
    pub fn is_async(self) -> bool {
        matches!(self, Puller::FileAsync | Puller::VerifiedAsync | Puller::TrailerAsync | Puller::ValueAsync)
    }
    pub fn has_trailer(self) -> bool {
        matches!(self, Puller::TrailerFile | Puller::TrailerAsync)
    }
    pub fn verifies(self) -> bool {
        matches!(self, Puller::TrailerFile | Puller::TrailerAsync | Puller::VerifiedAsync)
    }
    /// the stream tags this puller accepts
    pub fn compatible(self, zstd: bool) -> bool {
        match self {
            Puller::BeveFile | Puller::BeveZstFile => zstd,
            _ => true,
        }
    }
    fn wants_beve_tag(self) -> bool {
        matches!(self, Puller::BeveFile | Puller::BeveZstFile | Puller::Value | Puller::ValueAsync)
    }
}

#[derive(Clone, Copy, Debug, PartialEq, Eq, PartialOrd, Ord, Serialize, Deserialize)]
pub enum Tamper {
    None,
    Payload,
    Trailer,
}

/// Everything that determines the producer's byte stream and the puller call.
#[derive(Clone, Debug, PartialEq, Eq, PartialOrd, Ord, Serialize, Deserialize)]
pub struct Cfg {
    pub puller: Puller,
    pub zstd: bool,
    /// logical stream length (file pullers) / element count of the value (value pullers)
    pub n: usize,
    pub chunk: usize,
    /// trailer length handed to the trailer-verified pullers (0 for the others)
    pub trailer: usize,
    pub tamper: Tamper,
    /// the caller's verifier refuses whatever it is shown
    pub reject: bool,
}

#[derive(Clone, Copy, Debug, PartialEq, Eq, PartialOrd, Ord, Serialize, Deserialize)]
pub enum DestKind {
    Absent,
    Existing,
    /// the destination path is a non-empty directory: the final rename must fail
    DirNonEmpty,
    /// the destination's parent directory does not exist: the temp sibling cannot be created
    NoParent,
}

#[derive(Clone, Debug, PartialEq, Eq, PartialOrd, Ord, Serialize, Deserialize)]
pub enum Fault {
    None,
    /// the producer's writer fails after emitting `p` logical bytes
    ProducerFail { p: usize },
    CutAfterResponse { k: usize },
    CutOnRequest { k: usize },
    /// scripted error frame as the answer to the k-th `next`
    NextError { k: usize },
    /// error response to `open` (unknown resource, real handler)
    OpenError,
    /// all bytes arrive, `last` is never sent, then EOF
    NoLastThenEof,
}

impl Fault {
    fn class(&self) -> &'static str {
        match self {
            Fault::None => "none",
            Fault::ProducerFail { .. } => "producer-fail",
            Fault::CutAfterResponse { .. } => "cut-after-response",
            Fault::CutOnRequest { .. } => "cut-on-request",
            Fault::NextError { .. } => "next-error",
            Fault::OpenError => "open-error",
            Fault::NoLastThenEof => "no-last-then-eof",
        }
    }
}

#[derive(Clone, Debug, PartialEq, Eq, PartialOrd, Ord, Serialize, Deserialize)]
pub struct Case {
    pub cfg: Cfg,
    pub dest: DestKind,
    pub fault: Fault,
    /// residue of an earlier pull of the same destination that was killed mid-write: a
    /// `<dest>.svspart` of this many bytes already exists when the pull starts (None: clean directory)
    #[serde(default)]
    pub stale_temp: Option<usize>,
}

pub const OLD_CONTENT: &[u8] = b"previous-destination-content/0123456789abcdef";
const KEEP_NAME: &str = "keep.me";
const KEEP_CONTENT: &[u8] = b"file inside the directory that squats the destination";
pub const DEST_NAME: &str = "out.bin";

#[derive(Serialize, Deserialize, PartialEq, Debug, Clone)]
pub struct Val {
    tag: String,
    xs: Vec<u16>,
    w: u32,
}

pub fn value_of(n: usize) -> Val {
    Val { tag: format!("c10/{n}"), xs: (0..n).map(|i| (i * 7 + 1) as u16).collect(), w: 0xC10 }
}

fn pattern(n: usize) -> Vec<u8> {
    (0..n).map(|i| ((i * 37 + 11) % 251) as u8 ^ 0x40).collect()
}

/// trailer the honest verifier expects for `payload`
pub fn checksum(payload: &[u8], t: usize) -> Vec<u8> {
    let mut acc: u32 = 0x9E37 + payload.len() as u32;
    for (i, b) in payload.iter().enumerate() {
        acc = acc.wrapping_mul(31).wrapping_add(*b as u32 + i as u32);
    }
    (0..t).map(|j| ((acc >> ((j % 4) * 8)) as u8) ^ (0xA5u8.wrapping_add(j as u8))).collect()
}

/// Logical byte stream the producer is asked to emit for `cfg`, WITHOUT tampering
/// (what the consumer's out-of-band expectation is computed from).
pub fn honest_logical(cfg: &Cfg) -> Vec<u8> {
    if cfg.puller.is_value() {
        return beve::to_vec(&value_of(cfg.n)).expect("beve encode");
    }
    if cfg.puller.has_trailer() && cfg.n >= cfg.trailer {
        let mut p = pattern(cfg.n - cfg.trailer);
        let t = checksum(&p, cfg.trailer);
        p.extend_from_slice(&t);
        return p;
    }
    pattern(cfg.n)
}

/// What the producer really emits (tampering applied).
pub fn logical(cfg: &Cfg) -> Vec<u8> {
    let mut l = honest_logical(cfg);
    match cfg.tamper {
        Tamper::None => {}
        Tamper::Payload => {
            if let Some(b) = l.first_mut() {
                *b ^= 0x01;
            }
        }
        Tamper::Trailer => {
            if let Some(b) = l.last_mut() {
                *b ^= 0x80;
            }
        }
    }
    l
}

/// true iff the tampering really changes what the verifier looks at
fn tamper_effective(cfg: &Cfg) -> bool {
    // with a zero-length trailer the stream carries no digest: the honest verifier has nothing to compare
    if cfg.puller.has_trailer() && cfg.trailer == 0 {
        return false;
    }
    cfg.tamper != Tamper::None && logical(cfg) != honest_logical(cfg)
}

// ------------------------------------------------------------------ running one pull

#[derive(Clone, Debug, PartialEq)]
pub enum Res {
    Ok,
    /// value pullers: Ok(v); the flag says v == the producer's value
    OkValue(bool),
    Err(String),
    Panic(String),
}

impl Res {
    pub fn is_ok(&self) -> bool {
        matches!(self, Res::Ok | Res::OkValue(_))
    }
    fn class(&self) -> String {
        match self {
            Res::Ok => "ok".into(),
            Res::OkValue(b) => format!("ok-value-{b}"),
            Res::Panic(_) => "panic".into(),
            // the message is NOT part of the class: after a cut, EOF / reset / broken pipe race
            Res::Err(_) => "err".into(),
        }
    }
}

/// What the caller-supplied verifier was shown, and the destination state it saw.
#[derive(Clone, Debug, Default)]
pub struct VerifySeen {
    pub calls: usize,
    pub digest: Vec<u8>,
    pub trailer: Vec<u8>,
    /// snapshot of the destination path at the moment verify ran
    pub dest_at_verify: Option<Entry>,
}

struct Sink(Arc<Mutex<Vec<u8>>>);
impl Write for Sink {
    fn write(&mut self, b: &[u8]) -> std::io::Result<usize> {
        self.0.lock().unwrap().extend_from_slice(b);
        Ok(b.len())
    }
    fn flush(&mut self) -> std::io::Result<()> {
        Ok(())
    }
}

fn verdict(cfg: &Cfg, ok: bool) -> Result<(), RepeError> {
    if cfg.reject || !ok {
        Err(RepeError::Io(std::io::Error::new(std::io::ErrorKind::InvalidData, "c10 verifier: digest mismatch")))
    } else {
        Ok(())
    }
}

/// Call the puller named by `cfg` against the producer at 127.0.0.1:`port`.
/// Runs on the calling thread (async pullers on a private current-thread runtime).
pub fn do_pull(
    cfg: &Cfg,
    port: u16,
    dest: &Path,
    resource: &str,
    seen: &Arc<Mutex<VerifySeen>>,
    observe_dest: bool,
) -> Res {
    let addr = ("127.0.0.1", port);
    let digest_buf = Arc::new(Mutex::new(Vec::new()));
    let expected_full = honest_logical(cfg);
    let record = |trailer: &[u8]| {
        let mut s = seen.lock().unwrap();
        s.calls += 1;
        s.digest = digest_buf.lock().unwrap().clone();
        s.trailer = trailer.to_vec();
        // (not in the traced child: the harness must not add file-system syscalls of its own there)
        s.dest_at_verify = if observe_dest { snapshot_path(dest) } else { None };
        if observe_dest {
            if let Some(l) = PROBE_LISTING.lock().unwrap().as_mut() {
                if let Some(dir) = dest.parent() {
                    *l = std::fs::read_dir(dir).map(|d| d.flatten().map(|e| e.file_name().to_string_lossy().to_string()).collect()).unwrap_or_default();
                }
            }
        }
    };
    let to_res = |r: Result<(), RepeError>| match r {
        Ok(()) => Res::Ok,
        Err(e) => Res::Err(e.to_string()),
    };
    let val_res = |r: Result<Val, RepeError>| match r {
        Ok(v) => Res::OkValue(v == value_of(cfg.n)),
        Err(e) => Res::Err(e.to_string()),
    };
    if !cfg.puller.is_async() {
        let client = match Client::connect(addr) {
            Ok(c) => c,
            Err(e) => return Res::Err(format!("connect: {e}")),
        };
        match cfg.puller {
            Puller::File => to_res(vs::pull_to_file(&client, resource, dest)),
            Puller::BeveFile => to_res(vs::pull_to_beve_file(&client, resource, dest)),
            Puller::BeveZstFile => to_res(vs::pull_to_beve_zst_file(&client, resource, dest)),
            Puller::TrailerFile => to_res(vs::pull_to_file_trailer_verified(
                &client,
                resource,
                dest,
                cfg.trailer,
                Sink(digest_buf.clone()),
                |_d, trailer| {
                    record(trailer);
                    let payload = digest_buf.lock().unwrap().clone();
                    verdict(cfg, checksum(&payload, cfg.trailer) == trailer)
                },
            )),
            Puller::Value => val_res(vs::pull_value::<Val>(&client, resource)),
            _ => unreachable!(),
        }
    } else {
        let rt = match tokio::runtime::Builder::new_current_thread().enable_all().build() {
            Ok(rt) => rt,
            Err(e) => return Res::Err(format!("runtime: {e}")),
        };
        rt.block_on(async {
            let client = match AsyncClient::connect(addr).await {
                Ok(c) => c,
                Err(e) => return Res::Err(format!("connect: {e}")),
            };
            match cfg.puller {
                Puller::FileAsync => to_res(vs::pull_to_file_async(&client, resource, dest).await.map(|_| ())),
                Puller::VerifiedAsync => to_res(
                    vs::pull_to_file_verified_async(&client, resource, dest, Sink(digest_buf.clone()), |_d| {
                        record(&[]);
                        let got = digest_buf.lock().unwrap().clone();
                        verdict(cfg, got == expected_full)
                    })
                    .await,
                ),
                Puller::TrailerAsync => to_res(
                    vs::pull_to_file_trailer_verified_async(
                        &client,
                        resource,
                        dest,
                        cfg.trailer,
                        Sink(digest_buf.clone()),
                        |_d, trailer| {
                            record(trailer);
                            let payload = digest_buf.lock().unwrap().clone();
                            verdict(cfg, checksum(&payload, cfg.trailer) == trailer)
                        },
                    )
                    .await,
                ),
                Puller::ValueAsync => val_res(vs::pull_value_async::<Val, _>(&client, resource).await),
                _ => unreachable!(),
            }
        })
    }
}

/// Router carrying the REAL SVS routes over a writer producer that emits
/// `content[..fail_after]` and then fails (or all of it and succeeds).
pub fn make_router(cfg: &Cfg, fail_after: Option<usize>) -> Router {
    make_router_raw(logical(cfg), cfg.puller.wants_beve_tag(), cfg.chunk, cfg.zstd, fail_after)
}

pub fn make_router_raw(content: Vec<u8>, beve_tag: bool, chunk: usize, zstd: bool, fail_after: Option<usize>) -> Router {
    let format = if beve_tag { BodyFormat::Beve } else { BodyFormat::RawBinary };
    let opts = StreamOpts {
        chunk_bytes: chunk,
        compression: if zstd { Compression::Zstd } else { Compression::None },
        zstd_level: 3,
        session_depth: 2,
    };
    Router::new().with_writer_stream(
        format,
        move |res: &str| {
            if res != "r" {
                return None;
            }
            let content = content.clone();
            Some(move |w: &mut dyn Write| -> std::io::Result<()> {
                match fail_after {
                    None => w.write_all(&content),
                    Some(p) => {
                        w.write_all(&content[..p.min(content.len())])?;
                        Err(std::io::Error::other("c10 producer failure"))
                    }
                }
            })
        },
        opts,
    )
}

// ------------------------------------------------------------------ directory snapshots

#[derive(Clone, Debug, PartialEq, Eq)]
pub enum Entry {
    File(Vec<u8>),
    Dir(BTreeMap<String, Entry>),
    Other,
}

pub fn snapshot_path(p: &Path) -> Option<Entry> {
    let md = std::fs::symlink_metadata(p).ok()?;
    if md.is_file() {
        Some(Entry::File(std::fs::read(p).unwrap_or_default()))
    } else if md.is_dir() {
        let mut m = BTreeMap::new();
        if let Ok(rd) = std::fs::read_dir(p) {
            for e in rd.flatten() {
                let name = e.file_name().to_string_lossy().to_string();
                if let Some(s) = snapshot_path(&e.path()) {
                    m.insert(name, s);
                }
            }
        }
        Some(Entry::Dir(m))
    } else {
        Some(Entry::Other)
    }
}

pub fn snapshot_dir(p: &Path) -> BTreeMap<String, Entry> {
    match snapshot_path(p) {
        Some(Entry::Dir(m)) => m,
        _ => BTreeMap::new(),
    }
}

fn show_entry(e: Option<&Entry>) -> String {
    match e {
        None => "absent".into(),
        Some(Entry::File(b)) => format!("file[{}]{}", b.len(), hex(&b[..b.len().min(24)])),
        Some(Entry::Dir(m)) => format!("dir{:?}", m.keys().collect::<Vec<_>>()),
        Some(Entry::Other) => "other".into(),
    }
}

pub fn hex(b: &[u8]) -> String {
    b.iter().map(|x| format!("{x:02x}")).collect()
}

static DIR_SEQ: AtomicU64 = AtomicU64::new(0);

/// Fresh private directory under the system temp dir; removed by `Drop`.
pub struct CaseDir {
    pub root: PathBuf,
}
impl CaseDir {
    pub fn new() -> std::io::Result<CaseDir> {
        let root = std::env::temp_dir().join(format!(
            "c10-{}-{}",
            std::process::id(),
            DIR_SEQ.fetch_add(1, Ordering::Relaxed)
        ));
        let _ = std::fs::remove_dir_all(&root);
        std::fs::create_dir_all(root.join("d"))?;
        Ok(CaseDir { root })
    }
    /// the directory the destination lives in (its whole content is snapshotted)
    pub fn work(&self) -> PathBuf {
        self.root.join("d")
    }
    pub fn setup_dest(&self, kind: DestKind) -> std::io::Result<PathBuf> {
        let dest = match kind {
            DestKind::NoParent => self.work().join("missing").join(DEST_NAME),
            _ => self.work().join(DEST_NAME),
        };
        match kind {
            DestKind::Absent | DestKind::NoParent => {}
            DestKind::Existing => {
                std::fs::write(&dest, OLD_CONTENT)?;
            }
            DestKind::DirNonEmpty => {
                std::fs::create_dir(&dest)?;
                std::fs::write(dest.join(KEEP_NAME), KEEP_CONTENT)?;
            }
        }
        Ok(dest)
    }
}
impl Drop for CaseDir {
    fn drop(&mut self) {
        let _ = std::fs::remove_dir_all(&self.root);
    }
}

/// The implementation's temp file for a pull to `dest` (always `<dir>/DEST_NAME` here). The NAME is an
/// implementation detail the property does not fix, so it is not assumed: it is observed once per run
/// (`temp_name`) and everything that needs it (planting the residue of a killed pull, telling the temp file
/// from a stray file in the listings) goes through here.
pub fn temp_sibling(dest: &Path) -> PathBuf {
    debug_assert_eq!(dest.file_name().and_then(|n| n.to_str()), Some(DEST_NAME));
    dest.with_file_name(temp_name())
}

const DEFAULT_TEMP_NAME: &str = "out.bin.svspart";
static TEMP_NAME: std::sync::OnceLock<String> = std::sync::OnceLock::new();
static DISCOVERING: std::sync::atomic::AtomicBool = std::sync::atomic::AtomicBool::new(false);
/// directory listing taken by the verifier of the discovery pull (the complete temp file exists at that moment)
static PROBE_LISTING: Mutex<Option<Vec<String>>> = Mutex::new(None);

/// File name of the temp file of a pull to `DEST_NAME`: taken from the environment in a traced child (the
/// parent passes it down), else observed: one verified pull into a fresh directory whose verifier lists the
/// directory; the one entry that is not the destination is the temp file. An implementation that keeps no
/// named sibling at that moment yields the conventional name (the rows that plant a residue then plant a
/// bystander file, which the property equally wants left alone or consumed).
pub fn temp_name() -> &'static str {
    if DISCOVERING.load(std::sync::atomic::Ordering::SeqCst) {
        return DEFAULT_TEMP_NAME;
    }
    TEMP_NAME.get_or_init(|| {
        if let Ok(n) = std::env::var("C10_TEMP_NAME") {
            return n;
        }
        DISCOVERING.store(true, std::sync::atomic::Ordering::SeqCst);
        *PROBE_LISTING.lock().unwrap() = Some(Vec::new());
        let case = Case {
            cfg: Cfg { puller: Puller::TrailerFile, zstd: false, n: 8, chunk: 4, trailer: 4, tamper: Tamper::None, reject: false },
            dest: DestKind::Absent,
            fault: Fault::None,
            stale_temp: None,
        };
        let found = std::net::TcpListener::bind("127.0.0.1:0").ok().and_then(|l| run_case(&case, &l).ok()).and_then(|_| {
            let listing = PROBE_LISTING.lock().unwrap().take().unwrap_or_default();
            let mut others: Vec<String> = listing.into_iter().filter(|n| n != DEST_NAME).collect();
            if others.len() == 1 { others.pop() } else { None }
        });
        *PROBE_LISTING.lock().unwrap() = None;
        DISCOVERING.store(false, std::sync::atomic::Ordering::SeqCst);
        found.unwrap_or_else(|| DEFAULT_TEMP_NAME.to_string())
    })
}

// ------------------------------------------------------------------ part 1: one case

pub struct Obs {
    pub res: Res,
    pub seen: VerifySeen,
    pub before: BTreeMap<String, Entry>,
    pub after: BTreeMap<String, Entry>,
    pub log: srv::Log,
    pub hang: bool,
}

fn script_of(f: &Fault) -> (srv::Script, Option<usize>, &'static str) {
    let mut s = srv::Script::default();
    let mut fail = None;
    let mut resource = "r";
    match f {
        Fault::None => {}
        Fault::ProducerFail { p } => fail = Some(*p),
        Fault::CutAfterResponse { k } => s.cut_after_response = Some(*k),
        Fault::CutOnRequest { k } => s.cut_on_request = Some(*k),
        Fault::NextError { k } => s.next_error_at = Some(*k),
        Fault::OpenError => resource = "no-such-resource",
        Fault::NoLastThenEof => s.strip_last = true,
    }
    (s, fail, resource)
}

pub fn run_case(case: &Case, listener: &std::net::TcpListener) -> Result<Obs, String> {
    let (_, fail, _) = script_of(&case.fault);
    run_case_on(case, make_router(&case.cfg, fail), listener)
}

fn run_case_on(case: &Case, router: Router, listener: &std::net::TcpListener) -> Result<Obs, String> {
    let dir = CaseDir::new().map_err(|e| format!("case dir: {e}"))?;
    let dest = dir.setup_dest(case.dest).map_err(|e| format!("dest setup: {e}"))?;
    if let Some(n) = case.stale_temp {
        let junk: Vec<u8> = (0..n).map(|i| 0xE0 | (i % 13) as u8).collect();
        std::fs::write(temp_sibling(&dest), junk).map_err(|e| format!("stale temp: {e}"))?;
    }
    let before = snapshot_dir(&dir.work());
    let (script, _fail, resource) = script_of(&case.fault);
    let server =
        srv::start(listener, router, script, Some(temp_sibling(&dest))).map_err(|e| format!("server: {e}"))?;
    let port = server.port;
    let seen = Arc::new(Mutex::new(VerifySeen::default()));
    let (tx, rx) = std::sync::mpsc::channel();
    let (cfg, dest2, seen2) = (case.cfg.clone(), dest.clone(), seen.clone());
    let th = std::thread::Builder::new()
        .name("c10-pull".into())
        .spawn(move || {
            let r = std::panic::catch_unwind(std::panic::AssertUnwindSafe(|| {
                do_pull(&cfg, port, &dest2, resource, &seen2, true)
            }));
            let r = match r {
                Ok(r) => r,
                Err(p) => Res::Panic(
                    p.downcast_ref::<String>()
                        .cloned()
                        .or_else(|| p.downcast_ref::<&str>().map(|s| s.to_string()))
                        .unwrap_or_else(|| "panic".into()),
                ),
            };
            let _ = tx.send(r);
        })
        .map_err(|e| format!("spawn: {e}"))?;
    let (res, hang) = match rx.recv_timeout(Duration::from_secs(60)) {
        Ok(r) => (r, false),
        Err(_) => (Res::Err("watchdog: pull did not return within 60 s".into()), true),
    };
    let log = server.finish();
    if !hang {
        let _ = th.join();
    }
    let after = snapshot_dir(&dir.work());
    let seen = seen.lock().unwrap().clone();
    Ok(Obs { res, seen, before, after, log, hang })
}

/// Reference run of the same configuration without any fault: the complete wire stream.
#[derive(Clone, Debug)]
pub struct Baseline {
    pub wire: Vec<u8>,
    pub responses: usize,
    pub nexts: usize,
}

pub struct Bad {
    pub key: String,
    pub what: String,
}

/// The content a successful pull must leave at the destination.
fn expected_file(cfg: &Cfg, base: &Baseline) -> Vec<u8> {
    match cfg.puller {
        Puller::BeveZstFile => base.wire.clone(),
        Puller::TrailerFile | Puller::TrailerAsync => {
            let l = logical(cfg);
            l[..l.len().saturating_sub(cfg.trailer)].to_vec()
        }
        _ => logical(cfg),
    }
}

/// Oracle of part 1. Every clause is a sentence of the property statement.
pub fn judge(case: &Case, base: &Baseline, o: &Obs) -> Vec<Bad> {
    let mut bad = Vec::new();
    let cfg = &case.cfg;
    let p = cfg.puller.name();
    let fc = case.fault.class();
    let delivered = o.log.delivered();
    let all_bytes = delivered == base.wire;
    let complete = all_bytes && o.log.last_sent();
    let content_ok = !cfg.reject
        && !(cfg.puller.verifies() && tamper_effective(cfg))
        && !(cfg.puller.has_trailer() && cfg.n < cfg.trailer);
    let dest_ok = matches!(case.dest, DestKind::Absent | DestKind::Existing);
    let compat = cfg.puller.compatible(cfg.zstd);
    let ctx = || {
        format!(
            "{p} zstd={} n={} chunk={} trailer={} tamper={:?} reject={} dest={:?} fault={:?}{}: result={:?}; producer sent {} chunk(s) / {} of {} wire bytes, last={}",
            cfg.zstd, cfg.n, cfg.chunk, cfg.trailer, cfg.tamper, cfg.reject, case.dest, case.fault,
            case.stale_temp.map(|n| format!(" stale-temp={n}B")).unwrap_or_default(), o.res,
            o.log.chunks.len(), delivered.len(), base.wire.len(), o.log.last_sent()
        )
    };
    let dest_name = DEST_NAME.to_string();
    if cfg.puller.is_value() {
        // "a value-decoding pull returns an error rather than a value built from a truncated stream"
        match &o.res {
            Res::OkValue(eq) => {
                if !all_bytes {
                    bad.push(Bad { key: format!("C10:value-from-truncated-stream:{fc}:{p}"), what: ctx() });
                } else if !*eq {
                    // every byte arrived and the value still differs: a fidelity defect (C09), not C10
                    bad.push(Bad { key: String::new(), what: format!("note: value differs although the whole stream arrived: {}", ctx()) });
                }
            }
            _ => {}
        }
        return bad;
    }
    let ok_allowed = complete && content_ok && dest_ok;
    if o.res.is_ok() && !compat {
        // the up-front tag check (zstd-only outputs) is not part of this property: remark only
        bad.push(Bad { key: String::new(), what: format!("note: Ok although the stream tags do not fit the output: {}", ctx()) });
    } else if o.res.is_ok() {
        // "publishes the destination only after the whole stream arrived, passed any
        //  caller-supplied verification ..." — Ok on a pull that must fail
        if !ok_allowed {
            let why = if !complete {
                "incomplete-stream"
            } else if !content_ok {
                "verification-must-reject"
            } else {
                "unpublishable-destination"
            };
            bad.push(Bad { key: format!("C10:ok-on-failed-pull:{why}:{fc}:{p}"), what: ctx() });
        }
        // "the destination then holds exactly the complete content (with a verified trailer stripped)"
        let want = expected_file(cfg, base);
        let mut want_dir = o.before.clone();
        want_dir.insert(dest_name.clone(), Entry::File(want.clone()));
        if case.stale_temp.is_some() {
            // the residue of the earlier pull is consumed (replaced and renamed away)
            want_dir.remove(temp_name());
        }
        if dest_ok && o.after.get(&dest_name) != Some(&Entry::File(want.clone())) {
            bad.push(Bad {
                key: format!("C10:published-content-wrong:{fc}:{p}"),
                what: format!(
                    "{} ; destination is {} but the complete content is file[{}]{}",
                    ctx(),
                    show_entry(o.after.get(&dest_name)),
                    want.len(),
                    hex(&want[..want.len().min(24)])
                ),
            });
        } else if dest_ok && o.after != want_dir {
            // not forbidden by the statement (only FAILED pulls must leave no temp file): a remark
            bad.push(Bad {
                key: String::new(),
                what: format!("note: stray file after a successful pull: {} ; directory now holds {:?}", ctx(), o.after.keys().collect::<Vec<_>>()),
            });
        }
        if cfg.puller.verifies() && dest_ok {
            // "passed any caller-supplied verification": what was verified is what was published
            let l = logical(cfg);
            let t = if cfg.puller.has_trailer() { cfg.trailer.min(l.len()) } else { 0 };
            let want_trailer = l[l.len() - t..].to_vec();
            if o.seen.calls != 1 || o.seen.digest != want || o.seen.trailer != want_trailer {
                bad.push(Bad {
                    key: format!("C10:verify-inputs-differ-from-published:{p}"),
                    what: format!(
                        "{} ; verify calls={} digest saw [{}]{} trailer {} (published payload [{}], trailer {})",
                        ctx(),
                        o.seen.calls,
                        o.seen.digest.len(),
                        hex(&o.seen.digest[..o.seen.digest.len().min(24)]),
                        hex(&o.seen.trailer),
                        want.len(),
                        hex(&want_trailer)
                    ),
                });
            }
        }
    } else {
        // "the destination path is left exactly as it was (absent, or its previous content)"
        if o.after.get(&dest_name) != o.before.get(&dest_name) {
            bad.push(Bad {
                key: format!("C10:dest-changed-on-failure:{fc}:{p}"),
                what: format!(
                    "{} ; destination was {} and is now {}",
                    ctx(),
                    show_entry(o.before.get(&dest_name)),
                    show_entry(o.after.get(&dest_name))
                ),
            });
        } else if o.after.iter().any(|(k, v)| o.before.get(k) != Some(v)) {
            // "a failed in-process pull leaves no temporary file" (removing the residue of an
            // earlier, killed pull is not leaving one)
            let extra: Vec<_> = o.after.keys().filter(|k| !o.before.contains_key(*k)).collect();
            bad.push(Bad {
                key: format!("C10:temp-left-on-failure:{fc}:{p}"),
                what: format!("{} ; left behind {:?}", ctx(), extra),
            });
        }
    }
    // "publishes the destination only after [it] passed any caller-supplied verification":
    // at the moment the verifier runs the destination must still be untouched
    if o.seen.calls > 0 && o.seen.dest_at_verify.as_ref() != o.before.get(&dest_name) {
        bad.push(Bad {
            key: format!("C10:published-before-verify:{p}"),
            what: format!(
                "{} ; when verify ran the destination already was {}",
                ctx(),
                show_entry(o.seen.dest_at_verify.as_ref())
            ),
        });
    }
    bad
}

// ------------------------------------------------------------------ part 1: enumeration

#[derive(Default)]
struct P1Stats {
    cases: u64,
    ok_rows: u64,
    err_rows: u64,
    panics: u64,
    /// fault hit after >= 1 data chunk was delivered and before the stream was complete
    midstream: u64,
    /// sync pullers: a non-empty partial temp sibling was seen by the producer before the fault
    partial_temp_seen: u64,
    temp_seen: u64,
    verify_rejects: u64,
    verify_accepts: u64,
    short_for_trailer: u64,
    empty_payload_commits: u64,
    rename_failures: u64,
    expected_ok_failed: Vec<String>,
    by_fault: BTreeMap<String, u64>,
    outcomes: BTreeSet<String>,
    nontrivial: BTreeSet<String>,
    hangs: Vec<String>,
    setup_errors: Vec<String>,
    remarks: Vec<String>,
}

fn cfgs(tier: Tier) -> Vec<Cfg> {
    let chunks: Vec<usize> = tier.pick(vec![4], vec![3, 4, 8]);
    let mut out = Vec::new();
    for &puller in &ALL_PULLERS {
        for zstd in [false, true] {
            for &chunk in &chunks {
                let ns: Vec<usize> = if puller.is_value() {
                    tier.pick(vec![0, 3], vec![0, 1, 3, 6])
                } else {
                    tier.pick(vec![0, 1, chunk, 2 * chunk + 1, 3 * chunk + 1], (0..=3 * chunk + 1).collect())
                };
                for &n in &ns {
                    let trailers: Vec<usize> = if puller.has_trailer() {
                        let mut t = tier.pick(vec![0, 1, 3], vec![0, 1, 2, 3, 5]);
                        // trailer == stream (empty payload) and trailer > stream, for every n
                        t.push(n);
                        t.push(n + 1);
                        t.sort();
                        t.dedup();
                        t
                    } else {
                        vec![0]
                    };
                    for &trailer in &trailers {
                        out.push(Cfg { puller, zstd, n, chunk, trailer, tamper: Tamper::None, reject: false });
                        if puller.verifies() {
                            out.push(Cfg { puller, zstd, n, chunk, trailer, tamper: Tamper::None, reject: true });
                            if puller.has_trailer() && trailer == 0 {
                                continue;
                            }
                            out.push(Cfg { puller, zstd, n, chunk, trailer, tamper: Tamper::Payload, reject: false });
                            if puller.has_trailer() {
                                out.push(Cfg { puller, zstd, n, chunk, trailer, tamper: Tamper::Trailer, reject: false });
                            }
                        }
                    }
                }
            }
        }
    }
    out
}

/// All fault rows of one configuration, given its measured fault-free shape.
fn faults_for(cfg: &Cfg, base: &Baseline) -> Vec<(DestKind, Fault)> {
    let mut v = Vec::new();
    let plain = cfg.tamper == Tamper::None && !cfg.reject;
    for dest in [DestKind::Absent, DestKind::Existing] {
        v.push((dest, Fault::None));
        if !plain {
            // verifier-rejection rows: the stream itself is delivered completely
            continue;
        }
        let l = logical(cfg).len();
        for p in 0..=l {
            v.push((dest, Fault::ProducerFail { p }));
        }
        for k in 1..=base.responses {
            v.push((dest, Fault::CutAfterResponse { k }));
            v.push((dest, Fault::CutOnRequest { k }));
        }
        for k in 1..=base.nexts {
            v.push((dest, Fault::NextError { k }));
        }
        v.push((dest, Fault::OpenError));
        v.push((dest, Fault::NoLastThenEof));
    }
    if plain && !cfg.puller.is_value() {
        v.push((DestKind::DirNonEmpty, Fault::None));
        v.push((DestKind::NoParent, Fault::None));
    }
    v
}

/// The complete wire stream of `cfg`'s producer and the number of responses a
/// full drain takes, MEASURED by draining the same producer with `pull_to_file`
/// (which accepts every tag combination and reads to the final chunk).
fn baseline_of(cfg: &Cfg, listener: &std::net::TcpListener) -> Result<Baseline, String> {
    let drain = Cfg { puller: Puller::File, trailer: 0, tamper: Tamper::None, reject: false, ..cfg.clone() };
    let case = Case { cfg: drain, dest: DestKind::Absent, fault: Fault::None, stale_temp: None };
    let router = make_router_raw(logical(cfg), false, cfg.chunk, cfg.zstd, None);
    let o = run_case_on(&case, router, listener)?;
    if o.hang {
        return Err(format!("baseline hang for {cfg:?}"));
    }
    if !o.log.last_sent() || !o.res.is_ok() {
        return Err(format!("baseline drain of {cfg:?} did not reach the final chunk: {:?} / {:?}", o.res, o.log));
    }
    Ok(Baseline { wire: o.log.delivered(), responses: o.log.responses, nexts: o.log.chunks.len() })
}

/// For pullers that refuse the stream tags up front nothing is pulled; the wire
/// stream of the equivalent accepted configuration is irrelevant.
fn run_part1(ctx: &Ctx, tier: Tier, samples: &Samples) -> (P1Stats, Value) {
    let cfgs = cfgs(tier);
    // phase A: baselines (parallel)
    let bases: Vec<Mutex<Option<Result<Baseline, String>>>> = cfgs.iter().map(|_| Mutex::new(None)).collect();
    let mk = |_w: usize| match srv::new_listener() {
        Ok(l) => l,
        Err(e) => ctx.machinery(format!("cannot bind a loopback listener: {e}")),
    };
    crate::par::for_each_index(cfgs.len() as u64, 1, mk, |l, i| {
        *bases[i as usize].lock().unwrap() = Some(baseline_of(&cfgs[i as usize], l));
    });
    let mut all: Vec<(usize, DestKind, Fault, Option<usize>)> = Vec::new();
    let mut base_vec: Vec<Baseline> = Vec::new();
    for (i, b) in bases.iter().enumerate() {
        match b.lock().unwrap().take().unwrap() {
            Ok(b) => {
                for (d, f) in faults_for(&cfgs[i], &b) {
                    all.push((i, d, f, None));
                }
                // a fault-free pull into a directory where an earlier, killed pull of the same
                // destination left its temporary file (part 2 shows such kills leave one): the
                // published content must still be exactly the new stream's
                let c = &cfgs[i];
                if !c.puller.is_value() && c.tamper == Tamper::None && !c.reject && c.puller.compatible(c.zstd) && !(c.puller.has_trailer() && c.n < c.trailer) {
                    let new_len = expected_file(c, &b).len();
                    let mut lens = vec![0usize, 1, new_len, new_len + 1, new_len + 7, 3 * new_len + 4096];
                    lens.sort();
                    lens.dedup();
                    for d in [DestKind::Absent, DestKind::Existing] {
                        for l in &lens {
                            all.push((i, d, Fault::None, Some(*l)));
                        }
                    }
                }
                base_vec.push(b);
            }
            Err(e) => ctx.machinery(format!("part 1 baseline failed: {e}")),
        }
    }
    let stats = Mutex::new(P1Stats::default());
    crate::par::for_each_index(all.len() as u64, 4, mk, |l, i| {
        let (ci, dest, fault, stale) = &all[i as usize];
        let case = Case { cfg: cfgs[*ci].clone(), dest: *dest, fault: fault.clone(), stale_temp: *stale };
        let base = &base_vec[*ci];
        let o = match run_case(&case, l) {
            Ok(o) => o,
            Err(e) => {
                stats.lock().unwrap().setup_errors.push(e);
                return;
            }
        };
        let bad = judge(&case, base, &o);
        let case_json = json!({"part": 1, "case": serde_json::to_value(&case).unwrap()});
        let mut remarks = Vec::new();
        for b in &bad {
            if b.key.is_empty() {
                remarks.push(b.what.clone());
            } else {
                ctx.violation(b.key.clone(), b.what.clone(), case_json.clone());
            }
        }
        let mut s = stats.lock().unwrap();
        s.remarks.extend(remarks);
        s.cases += 1;
        if o.hang {
            s.hangs.push(format!("{case:?}"));
        }
        *s.by_fault.entry(if case.stale_temp.is_some() { "none+stale-temp-of-a-killed-pull".to_string() } else { case.fault.class().to_string() }).or_default() += 1;
        match &o.res {
            r if r.is_ok() => s.ok_rows += 1,
            Res::Panic(_) => {
                s.panics += 1;
                s.err_rows += 1
            }
            _ => s.err_rows += 1,
        }
        let delivered = o.log.delivered();
        let complete = delivered == base.wire && o.log.last_sent();
        let faulty = case.fault != Fault::None;
        if faulty && !complete && o.log.data_chunks() >= 1 {
            s.midstream += 1;
        }
        if faulty && !case.cfg.puller.is_async() {
            if o.log.temp_at_request.iter().any(|t| t.is_some()) {
                s.temp_seen += 1;
            }
            if !complete && o.log.temp_at_request.iter().any(|t| matches!(t, Some(n) if *n > 0)) {
                s.partial_temp_seen += 1;
            }
        }
        if o.seen.calls > 0 {
            if o.res.is_ok() {
                s.verify_accepts += 1;
            } else {
                s.verify_rejects += 1;
            }
        }
        let c = &case.cfg;
        if c.puller.has_trailer() && c.n < c.trailer && !faulty && !o.res.is_ok() {
            s.short_for_trailer += 1;
        }
        if c.puller.has_trailer() && c.n == c.trailer && !faulty && o.res.is_ok() {
            s.empty_payload_commits += 1;
        }
        if case.dest == DestKind::DirNonEmpty && !o.res.is_ok() {
            s.rename_failures += 1;
        }
        let content_ok = !c.reject
            && !(c.puller.verifies() && tamper_effective(c))
            && !(c.puller.has_trailer() && c.n < c.trailer);
        if !faulty
            && content_ok
            && c.puller.compatible(c.zstd)
            && matches!(case.dest, DestKind::Absent | DestKind::Existing)
            && !matches!(o.res, Res::Ok | Res::OkValue(true))
        {
            s.expected_ok_failed.push(format!("{case:?} -> {:?}", o.res));
        }
        s.outcomes.insert(format!("{}|{}", case.fault.class(), o.res.class()));
        if faulty || !content_ok || !matches!(case.dest, DestKind::Absent | DestKind::Existing) {
            s.nontrivial.insert(format!(
                "{}|{}|{:?}|{}|t{}r{}{:?}",
                c.puller.name(),
                case.fault.class(),
                case.dest,
                o.res.class(),
                (c.n < c.trailer) as u8,
                c.reject as u8,
                c.tamper
            ));
        }
        drop(s);
        // deterministic choice of samples: evenly spaced case indices
        let stride = (all.len() as u64).div_ceil(6).max(1);
        if i % stride != 0 {
            return;
        }
        samples.offer(|| {
            json!({"part": 1, "case": serde_json::to_value(&case).unwrap(), "result": o.res.class(),
                   "chunks_sent": o.log.chunks.len(), "wire_bytes_sent": delivered.len(), "wire_bytes_total": base.wire.len(),
                   "dir_after": o.after.keys().collect::<Vec<_>>()})
        });
    });
    let s = stats.into_inner().unwrap();
    let cov = json!({
        "configurations": cfgs.len(),
        "cases": s.cases,
        "ok_rows": s.ok_rows,
        "err_rows": s.err_rows,
        "panics": s.panics,
        "faults_reaching_midstream": s.midstream,
        "sync_faults_with_temp_sibling_present": s.temp_seen,
        "sync_faults_with_partial_nonempty_temp": s.partial_temp_seen,
        "temp_file_name_observed": temp_name(),
        "verifier_accepts": s.verify_accepts,
        "verifier_rejects": s.verify_rejects,
        "stream_shorter_than_trailer_rejected": s.short_for_trailer,
        "trailer_equals_stream_committed_empty": s.empty_payload_commits,
        "rename_onto_directory_failed": s.rename_failures,
        "cases_by_fault": s.by_fault,
        "distinct_fault_outcome_pairs": s.outcomes.len(),
    });
    (s, cov)
}

// ------------------------------------------------------------------ entry points

pub fn run(tier: Tier) -> ! {
    let ctx = Ctx::new("C10", tier);
    let samples = Samples::new(6);
    let samples_os = Samples::new(8);
    let prev_hook = std::panic::take_hook();
    std::panic::set_hook(Box::new(|_| {}));

    // development / mutant triage only: VERIF_C10_PARTS=1,23,gate restricts the parts that run
    // (the evidence then says `exhaustive: false`)
    let parts = std::env::var("VERIF_C10_PARTS").ok();
    let on = |p: &str| parts.as_deref().map(|s| s.split(',').any(|x| x.trim() == p)).unwrap_or(true);
    let all_parts = on("1") && on("23") && on("gate") && on("sib");
    let samples_gate = Samples::new(6);
    let t0 = std::time::Instant::now();
    let (p1, p1cov) = if on("1") { run_part1(&ctx, tier, &samples) } else { (P1Stats::default(), json!({"skipped": true})) };
    let t1 = t0.elapsed().as_secs_f64();
    let p23 = if on("23") { os::run_parts_2_3(&ctx, tier, &samples_os) } else { os::P23::default() };
    let t2 = t0.elapsed().as_secs_f64() - t1;
    let (p4, p4cov) = if on("gate") { gate::run_gate(&ctx, tier, &samples_gate) } else { (gate::GStats::default(), json!({"skipped": true})) };
    let t3 = t0.elapsed().as_secs_f64() - t1 - t2;
    let samples_sib = Samples::new(4);
    let (p5, p5cov) = if on("sib") { sib::run_sib(&ctx, tier, &samples_sib) } else { (sib::SibStats::default(), json!({"skipped": true})) };
    let t4 = t0.elapsed().as_secs_f64() - t1 - t2 - t3;
    eprintln!("[C10] part 5 (two pulls into one directory): {} rows in {t4:.1}s", p5.rows);
    eprintln!(
        "[C10] part 1: {} cases in {t1:.1}s; parts 2+3: {} child runs, {} crash states in {t2:.1}s; part 4 (gated consumers): {} rows / {} pulls in {t3:.1}s ({} wave(s), up to {} concurrent)",
        p1.cases, p23.kill_runs, p23.crash_states, p4.rows, p4.pulls, p4.waves, p4.max_concurrent
    );

    std::panic::set_hook(prev_hook);

    {
        let mut r = p1.remarks.clone();
        r.sort();
        if let Some(first) = r.first() {
            ctx.note(format!("{} remark(s) outside the property, first: {first}", r.len()));
        }
    }
    {
        let mut r = p4.remarks.clone();
        r.sort();
        if let Some(first) = r.first() {
            ctx.note(format!("part 4: {} remark(s) outside the property, first: {first}", r.len()));
        }
        if p4.returned_while_parked > 0 {
            ctx.note(format!("part 4: {} pull(s) returned while their consumer was still parked on the gate", p4.returned_while_parked));
        }
    }
    if !p1.setup_errors.is_empty() {
        ctx.machinery(format!("part 1 harness setup failed: {}", p1.setup_errors[0]));
    }
    if !p4.machinery.is_empty() && !ctx.has_violation() {
        ctx.machinery(format!("part 4: {} harness problem(s), first: {}", p4.machinery.len(), p4.machinery[0]));
    }
    if !p1.hangs.is_empty() && !ctx.has_violation() {
        ctx.machinery(format!("part 1: pull hung (watchdog) in {} case(s), first {}", p1.hangs.len(), p1.hangs[0]));
    }
    if !ctx.has_violation() && on("gate") {
        if !p4.expected_ok_failed.is_empty() {
            ctx.machinery(format!(
                "vacuity: {} healthy gated pull(s) did not succeed, first: {}",
                p4.expected_ok_failed.len(),
                p4.expected_ok_failed[0]
            ));
        }
        if let Some(msg) = p4.vacuity() {
            ctx.machinery(format!("vacuity in part 4: {msg}: {p4cov}"));
        }
    }
    if !ctx.has_violation() && on("1") {
        if !p1.expected_ok_failed.is_empty() {
            ctx.machinery(format!(
                "vacuity: {} fault-free pull(s) did not succeed, first: {}",
                p1.expected_ok_failed.len(),
                p1.expected_ok_failed[0]
            ));
        }
        if p1.midstream == 0
            || p1.partial_temp_seen == 0
            || p1.ok_rows == 0
            || p1.verify_rejects == 0
            || p1.verify_accepts == 0
            || p1.short_for_trailer == 0
            || p1.empty_payload_commits == 0
            || p1.rename_failures == 0
        {
            ctx.machinery(format!("vacuity in part 1: {p1cov}"));
        }
    }
    if !ctx.has_violation() && on("sib") {
        if let Some(m) = p5.machinery.first() {
            ctx.machinery(format!("part 5: {} harness problem(s), first: {m}", p5.machinery.len()));
        }
        if let Some(m) = p5.healthy_pull_failed.first() {
            ctx.machinery(format!("vacuity: part 5: {} healthy pull(s) did not succeed, first: {m}", p5.healthy_pull_failed.len()));
        }
        if p5.rows == 0 || p5.both_ok == 0 || p5.held_failed_as_scripted == 0 {
            ctx.machinery(format!("vacuity in part 5: {p5cov}"));
        }
    }
    if !ctx.has_violation() && on("23") {
        if let Some(msg) = p23.vacuity() {
            ctx.machinery(format!("vacuity in parts 2/3: {msg}"));
        }
    }
    let mut all_samples = samples.take();
    all_samples.extend(samples_os.take());
    all_samples.extend(samples_gate.take());
    all_samples.extend(samples_sib.take());
    all_samples.sort_by_key(|v| v.to_string());
    let evaluations = p1.cases + p23.kill_runs + p23.crash_states + p4.pulls + 2 * p5.rows;
    let distinct = p1.nontrivial.len() as u64 + p23.distinct_kill_points + p23.distinct_crash_classes + p4.nontrivial.len() as u64 + p5.nontrivial.len() as u64;
    let exhaustive = p23.exhaustive && all_parts;
    let cov = json!({
        "evaluations": evaluations,
        "distinct_nontrivial": distinct,
        "exhaustive": exhaustive,
        "rule": "part1: every (puller x compression x n x trailer x verifier) configuration is first run fault-free to MEASURE its response count R and wire stream; then every producer-failure byte position 0..=n, cut after response k and cut on request k for k=1..=R, scripted error on the k-th next, error to open, last-never-sent-then-EOF, x destination {absent, pre-existing}; plus rename-onto-non-empty-directory and missing-parent rows. part2: per (file puller x compression x destination) a strace dry run measures the syscall history on the temp/destination paths (-P) and the socket receives; one child run per (syscall name, k) for every k up to the measured count with inject=<name>:signal=SIGKILL:when=k. part3: every prefix of the recorded history x every subset of writes not yet covered by fsync/fdatasync dropped, through a rename-atomic file-system model. part4 (slow / gated consumers): per (client x puller x compression x stream shape) an ungated fault-free run MEASURES the wire chunks and how often the caller-supplied digest / consume closure is called; every fault (producer failure, cut after response k, error on the k-th next; at most 4 chunks delivered before it) is first run ungated to measure the hook calls U made before the failure; then the hook parks on a harness gate at its call k in {first, middle, last of U} (thorough: every k), the harness waits until the consumer is parked AND the failure was applied, keeps the gate closed for hold_ms of real time (all in-memory scenarios run concurrently, one controller thread + one pull thread with a private runtime each), samples the directory at the moment the pull function returns, >= 300 ms after the gate opened, when every consumer has dropped its state and after the runtime (with its blocking threads) was joined; x destination {absent, pre-existing} x {no retry, retry of the now healthy resource (new content, same destination) started the moment the failed pull returned, the same with the retry's own digest parked at its last call until the earlier consumer finished}; a gated verifier (accepting / rejecting) sampled when it parked and at the end of the hold; pull_consume[_async] closures parked mid-read; healthy streams of more chunks than the pull loop buffers with the consumer parked at its first call for the whole hold; blocking Client pullers with the connection cut by the harness while the inline consumer is parked. part5 (two pulls into one directory): one pull parked mid-stream (its producer blocks on a harness gate after a chosen byte count) while a second pull to a sibling destination (names sharing a stem / a prefix / nothing) runs from start to finish; x held pull healthy / producer failing at the end x blocking / async pullers x compression x destinations absent / pre-existing; each destination judged on its own at the free pull's return and at the end.",
        "bound": {
            "chunk_bytes": tier.pick(json!([4]), json!([3,4,8])),
            "n": tier.pick("{0,1,c,2c+1,3c+1}", "0..=3c+1"),
            "value_elements": tier.pick(json!([0,3]), json!([0,1,3,6])),
            "trailer_len": tier.pick("{0,1,3,n,n+1}", "{0,1,2,3,5,n,n+1}"),
            "session_depth": 2,
            "child_process_stream_shapes_n_chunk": tier.pick(json!([[0,4],[9,4]]), json!([[0,4],[1,4],[5,4],[8,4],[9,4],[13,4],[10,3],[20000,8192]])),
            "crash_model_unsynced_write_cap": 14,
            "gated_consumer_stream_shapes_n_trailer": tier.pick(json!([[21,3]]), json!([[21,3],[21,1],[14,3]])),
            "gated_consumer_healthy_stream_shapes_n_trailer": tier.pick(json!([[33,3],[17,3]]), json!([[33,3],[61,5],[17,3],[9,3]])),
            "gated_consumer_piece_bytes": 4,
            "gated_consumer_chunk_bytes": {"none": 4, "zstd": 8},
            "gated_consumer_gate_positions": tier.pick("{first, middle, last} of the measured hook calls", "every measured hook call"),
            "gated_consumer_chunks_delivered_before_the_failure": tier.pick("min(4, chunks-1)", "1..=min(4, chunks-1)"),
            "gated_consumer_hold_ms": gate::hold().as_millis() as u64,
        },
        "alphabet": {
            "pullers": ALL_PULLERS.iter().map(|p| p.name()).collect::<Vec<_>>(),
            "compression": ["none", "zstd"],
            "destination": ["absent", "existing", "non-empty directory", "parent missing"],
            "clients_part4": ["AsyncClient (in memory)", "WebSocketClient (in memory)", "Client (loopback TCP)"],
            "pullers_part4": ["pull_to_file_verified_async", "pull_to_file_trailer_verified_async", "pull_consume_async", "pull_to_file_trailer_verified", "pull_consume"],
            "consumer_gates_part4": ["digest parks at call k", "consume closure parks after read k", "verifier parks (then accepts / rejects)", "retry's digest parks at its last call"],
            "faults": ["producer-fail@p", "cut-after-response@k", "cut-on-request@k", "next-error@k", "open-error", "no-last-then-eof", "verifier rejects", "payload tampered", "trailer tampered", "trailer>stream", "trailer==stream", "SIGKILL@fs-syscall k", "SIGKILL@recv k", "crash@prefix x dropped-unsynced-writes"],
        },
        "nonvacuity": {
            "part1": p1cov,
            "part2_3": p23.coverage(),
            "part4_gated_consumers": p4cov,
            "part5_sibling_pulls": p5cov,
        },
        "samples": all_samples,
    });
    ctx.finish(
        "fault_enumeration",
        cov,
        &[
            "the producer is the real SVS engine behind a harness TCP front; transport faults are applied at frame granularity (a cut never splits a response frame)",
            "parts 1-3 drive the async pullers over AsyncClient on a current-thread runtime; part 4 drives AsyncClient and WebSocketClient in process over the repe_verif in-memory stream seam (a cut is the peer end dropped without a closing handshake)",
            "part 4: the hold is real time (hold_ms); a pull that has not returned while its consumer is parked is not judged (the unchanged code returns once the gate opens); the retry serves new content of the same length under the same resource name; a healthy retry whose stream was delivered completely must publish",
            "kill points are syscall ENTRIES (the killed syscall is not executed); a kill inside a partially executed write is represented by part 3's dropped/kept un-synced writes at write granularity",
            "the crash model is POSIX: rename is atomic, fsync/fdatasync makes all earlier writes of that file durable, un-synced writes may be lost independently; durability of the rename itself (directory fsync) is not demanded by the property",
            "value pullers: Ok is accepted when every wire byte of the stream was delivered and the value equals the producer's (the sync decoder stops at the end of the value without waiting for `last`)",
        ],
    )
}

pub fn replay(case: &Value) -> Result<(), String> {
    match case["part"].as_u64() {
        Some(1) => {
            let c: Case = serde_json::from_value(case["case"].clone()).map_err(|e| e.to_string())?;
            let l = srv::new_listener().map_err(|e| e.to_string())?;
            let base = baseline_of(&c.cfg, &l)?;
            let o = run_case(&c, &l)?;
            let bad = judge(&c, &base, &o);
            let bad: Vec<_> = bad.into_iter().filter(|b| !b.key.is_empty()).collect();
            if bad.is_empty() {
                Ok(())
            } else {
                Err(bad.iter().map(|b| format!("{} :: {}", b.key, b.what)).collect::<Vec<_>>().join("\n"))
            }
        }
        Some(2) | Some(3) => os::replay(case),
        _ if case["part"].as_str() == Some("gate") => gate::replay(case),
        _ if case["part"].as_str() == Some("sibling") => sib::replay(case),
        _ => Err("unknown C10 case".into()),
    }
}

pub fn worker(args: &[String]) {
    os::worker(args)
}
