//! C09 — a pulled value stream reproduces the producer's bytes exactly and ends once.
//!
//! Two layers, both on the real code:
//!  (1) narrow seam: `Router::get("/_svs/open|next|cancel").handle(..)` on the real
//!      handlers (real producer thread, real bounded channel), enumerated over chunk
//!      size x payload length (every residue) x channel depth x compression x
//!      producer kind x write-size pattern x failure position x consumer script
//!      (drain / cancel after k / unknown id) x gate discipline (who arrives first
//!      at each rendezvous);
//!  (1b) several streams on ONE router (`c09_multi.rs`): 2 and 3 streams open at the
//!      same time (same resource twice, different resources, different body shapes
//!      on one registration), their next calls in every order, one extra event at
//!      every position (cancel request / notify, next past the end, unknown id, a
//!      late open), failing producers among healthy ones, sequential reuse of one
//!      router by three streams with the old ids probed at every position, and
//!      every order of the writes of two concurrently producing sessions;
//!  (2) transports: the public pullers over Client<->Server (TCP),
//!      AsyncClient<->Server and WebSocketClient<->WebSocketServer on a boundary subset;
//!  (2b) several pulls through ONE connection (`c09_netmulti.rs`): every ordered pair
//!      of puller kinds one after the other, three in a row, a first stream left
//!      open / cancelled mid-way / resumed after another pull, and two and three
//!      pull futures joined on AsyncClient and WebSocketClient.
//!
//! Oracle (see `seam::run_session`): concatenation of pulled chunks == the bytes
//! the producer emitted (zstd: decompresses to exactly the logical bytes); exactly
//! one end marker, on the final chunk; empty payload -> one empty final chunk;
//! next past the end / after cancel / after a failure -> error; a producer failure
//! at any byte position -> an error response, never an end marker. A session that
//! never answers is reported by a watchdog (and re-run once before it counts).

#[path = "c09_multi.rs"]
mod multi;
#[path = "c09_net.rs"]
mod net;
#[path = "c09_netmulti.rs"]
mod netmulti;
#[path = "c09_seam.rs"]
mod seam;

use crate::ctx::{Ctx, Samples, Tier};
use serde_json::{Value, json};
use std::collections::BTreeMap;
use std::sync::atomic::{AtomicU64, Ordering};
use std::sync::mpsc::{RecvTimeoutError, channel};
use std::sync::{Arc, Mutex};
use std::time::{Duration, Instant};

#[derive(Clone, Copy, Debug, PartialEq, Eq, PartialOrd, Ord)]
pub enum Kind {
    Value,
    Typed,
    Complex,
    Reader,
    Writer,
}
const KINDS: [Kind; 5] = [Kind::Value, Kind::Typed, Kind::Complex, Kind::Reader, Kind::Writer];
const KIND_NAMES: [&str; 5] = ["value", "typed_array", "complex_array", "reader", "writer"];

#[derive(Clone, Copy, Debug, PartialEq, Eq)]
pub enum Pat {
    /// whatever the encoder does (value / typed / complex producers)
    Natural,
    Single,
    AllOne,
    AllC,
    Alt,
    /// composition of n: bit i set = a cut after byte i+1
    Comp(u32),
}

#[derive(Clone, Copy, Debug, PartialEq, Eq)]
pub enum Script {
    Drain,
    CancelAfter(u32),
    UnknownId,
}

#[derive(Clone, Copy, Debug, PartialEq, Eq)]
pub enum Gate {
    /// producer and puller run freely
    Free,
    /// the first `next` is issued (and observed parked) before the producer may start
    Hold,
    /// the producer runs as far ahead as the channel admits before every `next`
    Ahead,
    /// one bit per gate point (each write, then the return): set = consumer first
    Sched { bits: u32, len: u8 },
}

#[derive(Clone, Copy, Debug)]
pub struct Case {
    pub c: u32,
    /// payload parameter: byte length (reader/writer) or element count
    pub m: u32,
    pub depth: u8,
    pub zstd: bool,
    pub kind: Kind,
    pub pat: Pat,
    pub fail_at: Option<u32>,
    /// the injected failure is a panic of the producer thread
    pub panic: bool,
    pub script: Script,
    pub gate: Gate,
}

fn kind_idx(k: Kind) -> usize {
    KINDS.iter().position(|x| *x == k).unwrap()
}

fn pat_json(p: Pat) -> Value {
    match p {
        Pat::Natural => json!("natural"),
        Pat::Single => json!("single"),
        Pat::AllOne => json!("all-1"),
        Pat::AllC => json!("all-c"),
        Pat::Alt => json!("alt"),
        Pat::Comp(b) => json!({ "composition": b }),
    }
}

fn pat_from(v: &Value) -> Option<Pat> {
    if let Some(s) = v.as_str() {
        return Some(match s {
            "natural" => Pat::Natural,
            "single" => Pat::Single,
            "all-1" => Pat::AllOne,
            "all-c" => Pat::AllC,
            "alt" => Pat::Alt,
            _ => return None,
        });
    }
    Some(Pat::Comp(v.get("composition")?.as_u64()? as u32))
}

fn case_json(c: &Case) -> Value {
    json!({
        "layer": "seam",
        "chunk_bytes": c.c, "m": c.m, "depth": c.depth, "zstd": c.zstd,
        "kind": KIND_NAMES[kind_idx(c.kind)],
        "pattern": pat_json(c.pat),
        "write_sizes": if c.m <= 64 && c.pat != Pat::Natural { json!(seam::pieces(c.pat, c.m as usize, c.c as usize)) } else { Value::Null },
        "fail_at": c.fail_at,
        "fail_mode": if c.panic { "panic" } else { "err" },
        "zstd_level": seam::ZSTD_LEVEL.load(Ordering::Relaxed),
        "script": match c.script { Script::Drain => json!("drain"), Script::CancelAfter(k) => json!({"cancel_after": k}), Script::UnknownId => json!("unknown-id") },
        "gate": match c.gate { Gate::Free => json!("free"), Gate::Hold => json!("hold"), Gate::Ahead => json!("ahead"), Gate::Sched{bits,len} => json!({"sched_bits": bits, "len": len}) },
    })
}

fn case_from(v: &Value) -> Option<Case> {
    let kind = KINDS[KIND_NAMES.iter().position(|n| Some(*n) == v.get("kind").and_then(|k| k.as_str()))?];
    let script = match v.get("script")? {
        Value::String(s) if s == "drain" => Script::Drain,
        Value::String(s) if s == "unknown-id" => Script::UnknownId,
        o => Script::CancelAfter(o.get("cancel_after")?.as_u64()? as u32),
    };
    let gate = match v.get("gate")? {
        Value::String(s) if s == "free" => Gate::Free,
        Value::String(s) if s == "hold" => Gate::Hold,
        Value::String(s) if s == "ahead" => Gate::Ahead,
        o => Gate::Sched { bits: o.get("sched_bits")?.as_u64()? as u32, len: o.get("len")?.as_u64()? as u8 },
    };
    Some(Case {
        c: v.get("chunk_bytes")?.as_u64()? as u32,
        m: v.get("m")?.as_u64()? as u32,
        depth: v.get("depth")?.as_u64()? as u8,
        zstd: v.get("zstd")?.as_bool()?,
        kind,
        pat: pat_from(v.get("pattern")?)?,
        fail_at: v.get("fail_at").and_then(|f| f.as_u64()).map(|f| f as u32),
        panic: v.get("fail_mode").and_then(|f| f.as_str()) == Some("panic"),
        script,
        gate,
    })
}

fn net_case_json(job: &net::NetJob, sub: &net::NetSub) -> Value {
    json!({
        "layer": "net",
        "chunk_bytes": job.c, "depth": job.depth, "zstd": job.zstd, "kind": KIND_NAMES[kind_idx(job.kind)],
        "m": sub.m, "pattern": pat_json(sub.pat), "fail_at": sub.fail_at, "zstd_level": seam::ZSTD_LEVEL.load(Ordering::Relaxed),
        "puller": sub.puller.name(), "transport": sub.transport.name(),
    })
}

fn net_case_from(v: &Value) -> Option<(net::NetJob, net::NetSub)> {
    let kind = KINDS[KIND_NAMES.iter().position(|n| Some(*n) == v.get("kind").and_then(|k| k.as_str()))?];
    Some((
        net::NetJob { kind, c: v.get("chunk_bytes")?.as_u64()? as u32, depth: v.get("depth")?.as_u64()? as u8, zstd: v.get("zstd")?.as_bool()? },
        net::NetSub {
            m: v.get("m")?.as_u64()? as u32,
            pat: pat_from(v.get("pattern")?)?,
            fail_at: v.get("fail_at").and_then(|f| f.as_u64()).map(|f| f as u32),
            puller: net::Puller::parse(v.get("puller")?.as_str()?)?,
            transport: net::Transport::parse(v.get("transport")?.as_str()?)?,
        },
    ))
}

// ---------------------------------------------------------------------------
// plan
// ---------------------------------------------------------------------------

#[derive(Clone, Copy)]
struct Item {
    case: Case,
    /// run CancelAfter(k) for every k = 0 ..= number of chunk responses
    sweep_cancel: bool,
}

const DEPTHS: [u8; 5] = [0, 1, 2, 4, 8];

fn chunk_sizes(tier: Tier) -> Vec<u32> {
    let mut v = vec![1, 2, 3, 4, 7, 8];
    if tier == Tier::Thorough {
        v.extend([16, 4096, 1 << 20]);
    }
    v
}

/// payload lengths for chunk size c: every n in 0..=3c+1 for small c, the
/// boundary residues k*c-1, k*c, k*c+1 for large c
fn lengths(c: u32) -> Vec<u32> {
    if c <= 16 {
        (0..=3 * c + 1).collect()
    } else {
        let mut v = vec![0, 1, c - 1, c, c + 1, 2 * c - 1, 2 * c, 2 * c + 1, 3 * c - 1, 3 * c, 3 * c + 1];
        v.sort();
        v.dedup();
        v
    }
}

/// element counts for the value / typed / complex producers: the same range as
/// lengths, a window across the 63/64 size-prefix boundary (so every residue of
/// the encoded length, including exact multiples of c, occurs), and counts whose
/// encoding hits k*c exactly
fn element_counts(kind: Kind, c: u32) -> Vec<u32> {
    let mut v = lengths(c);
    if c <= 16 {
        v.extend(60..=62 + 2 * c);
    }
    for k in 1..=3u32 {
        for d in [-1i64, 0, 1] {
            let t = (k * c) as i64 + d;
            if t > 0 {
                if let Some(m) = net::m_for_len(kind, t as usize) {
                    v.push(m as u32);
                }
            }
        }
    }
    v.sort();
    v.dedup();
    v
}

fn patterns(n: u32, all_compositions: bool) -> Vec<Pat> {
    if n == 0 {
        vec![Pat::Single]
    } else if n <= 10 && all_compositions {
        (0..(1u32 << (n - 1))).map(Pat::Comp).collect()
    } else {
        vec![Pat::AllOne, Pat::AllC, Pat::Alt, Pat::Single]
    }
}

fn build_plan(tier: Tier) -> Vec<Item> {
    let mut plan = Vec::new();
    let base = |c: u32, m: u32, depth: u8, zstd: bool, kind: Kind, pat: Pat| Case {
        c, m, depth, zstd, kind, pat, fail_at: None, panic: false, script: Script::Drain, gate: Gate::Free,
    };
    // Under zstd the chunker's input is the encoder's output, whose write sizes the
    // producer's write pattern does not control; the quick tier therefore thins the
    // zstd half of the pattern / failure / cancel products (stated in `bound`).
    let full = tier == Tier::Thorough;
    for &c in &chunk_sizes(tier) {
        for &depth in &DEPTHS {
            for zstd in [false, true] {
                let thin = zstd && !full;
                // A: value / typed / complex producers
                for kind in [Kind::Value, Kind::Typed, Kind::Complex] {
                    for m in element_counts(kind, c) {
                        let b = base(c, m, depth, zstd, kind, Pat::Natural);
                        plan.push(Item { case: b, sweep_cancel: false });
                        if m <= 3 * c + 1 {
                            if !thin || depth == 0 || depth == 4 {
                                plan.push(Item { case: b, sweep_cancel: true });
                            }
                            plan.push(Item { case: Case { script: Script::UnknownId, ..b }, sweep_cancel: false });
                        }
                    }
                }
                for kind in [Kind::Reader, Kind::Writer] {
                    for n in lengths(c) {
                        // B: every write-size pattern
                        for pat in patterns(n, !thin || depth == 4) {
                            plan.push(Item { case: base(c, n, depth, zstd, kind, pat), sweep_cancel: false });
                        }
                        // C: producer failure after every byte position
                        let fpats = if thin {
                            if depth != 0 && depth != 4 {
                                vec![]
                            } else if n == 0 {
                                vec![Pat::Single]
                            } else {
                                vec![Pat::AllC, Pat::Single]
                            }
                        } else {
                            patterns(n, full)
                        };
                        let positions: Vec<u32> = if c <= 16 {
                            (0..=n).collect()
                        } else {
                            let mut p: Vec<u32> = lengths(c).into_iter().filter(|p| *p <= n).collect();
                            p.push(n);
                            p.sort();
                            p.dedup();
                            p
                        };
                        for &pat in &fpats {
                            for &p in &positions {
                                plan.push(Item {
                                    case: Case { fail_at: Some(p), ..base(c, n, depth, zstd, kind, pat) },
                                    sweep_cancel: false,
                                });
                            }
                        }
                        // C': the producer thread panics (bare channel close)
                        if depth == 0 || (depth == 2 && !thin) {
                            for pat in if n == 0 { vec![Pat::Single] } else { vec![Pat::Single, Pat::AllC] } {
                                for &p in &positions {
                                    plan.push(Item {
                                        case: Case { fail_at: Some(p), panic: true, ..base(c, n, depth, zstd, kind, pat) },
                                        sweep_cancel: false,
                                    });
                                }
                            }
                        }
                        // D/E: cancel after every k-th next, unknown stream id
                        let b = base(c, n, depth, zstd, kind, Pat::Single);
                        if !thin || depth == 0 || depth == 4 {
                            plan.push(Item { case: b, sweep_cancel: true });
                        }
                        plan.push(Item { case: Case { script: Script::UnknownId, ..b }, sweep_cancel: false });
                        // F: gates
                        let g = base(c, n, depth, zstd, kind, Pat::AllC);
                        plan.push(Item { case: Case { gate: Gate::Hold, ..g }, sweep_cancel: false });
                        if !zstd && c <= 16 {
                            plan.push(Item { case: Case { gate: Gate::Ahead, ..g }, sweep_cancel: false });
                            let sched_max_c = if tier == Tier::Thorough { 16 } else { 4 };
                            if c <= sched_max_c {
                                let gates = n.div_ceil(c) + 1;
                                for bits in 0..(1u32 << gates) {
                                    plan.push(Item {
                                        case: Case { gate: Gate::Sched { bits, len: gates as u8 }, ..g },
                                        sweep_cancel: false,
                                    });
                                }
                            }
                        }
                    }
                }
            }
        }
    }
    plan
}

fn build_net_jobs(tier: Tier) -> Vec<net::NetJob> {
    let cs: Vec<u32> = tier.pick(vec![1, 3, 8], vec![1, 2, 3, 4, 7, 8, 16, 4096, 1 << 20]);
    let depths: Vec<u8> = tier.pick(vec![0, 1, 4], DEPTHS.to_vec());
    let mut jobs = Vec::new();
    for &c in &cs {
        for &depth in &depths {
            for zstd in [false, true] {
                for kind in KINDS {
                    jobs.push(net::NetJob { kind, c, depth, zstd });
                }
            }
        }
    }
    jobs
}

// ---------------------------------------------------------------------------
// worker pool with a hang watchdog (detached threads: a session stuck inside
// the code under test can never be joined)
// ---------------------------------------------------------------------------

const WATCHDOG: Duration = Duration::from_secs(10);
/// watchdog sub-index offset of the multi-pull rows of a transport job
const NETMULTI_BASE: u64 = 1_000_000;
const IDLE: u64 = u64::MAX;

struct Slot {
    idx: AtomicU64,
    sub: AtomicU64,
    since: Mutex<Instant>,
}

impl Slot {
    fn new() -> Self {
        Slot { idx: AtomicU64::new(IDLE), sub: AtomicU64::new(0), since: Mutex::new(Instant::now()) }
    }
    fn begin(&self, idx: u64, sub: u64) {
        *self.since.lock().unwrap() = Instant::now();
        self.sub.store(sub, Ordering::SeqCst);
        self.idx.store(idx, Ordering::SeqCst);
    }
    fn idle(&self) {
        self.idx.store(IDLE, Ordering::SeqCst);
    }
}

enum PoolEnd<S> {
    /// all workers finished; the count is the number of watchdog expiries that
    /// did not reproduce on re-execution (slow, not stuck: host overload)
    Done(Vec<S>, u64),
    /// a case exceeded the watchdog and exceeded it again when re-executed
    Hang { idx: u64, sub: u64, finished: Vec<S> },
    /// a worker stayed on one case for 6 watchdog periods although the case
    /// finishes when re-executed
    Stuck { idx: u64, sub: u64 },
}

/// Sessions are latency-bound (every chunk is a cross-thread hand-off between
/// the puller and the producer thread), not CPU-bound, so the pool runs
/// `oversub` workers per core.
fn run_pool<S: Send + 'static>(
    n: u64,
    block: u64,
    oversub: usize,
    init: impl Fn() -> S + Send + Sync + 'static,
    job: impl Fn(&mut S, u64, &Slot) + Send + Sync + 'static,
    // re-execute (idx, sub) under the watchdog; true = it hangs again
    confirm: impl Fn(u64, u64) -> bool,
) -> PoolEnd<S> {
    let nw = (crate::par::workers() * oversub).min(((n / block.max(1)) + 1) as usize).max(1);
    let cursor = Arc::new(AtomicU64::new(0));
    let slots: Arc<Vec<Slot>> = Arc::new((0..nw).map(|_| Slot::new()).collect());
    let job = Arc::new(job);
    let init = Arc::new(init);
    let (tx, rx) = channel::<S>();
    for w in 0..nw {
        let (cursor, slots, job, init, tx) = (cursor.clone(), slots.clone(), job.clone(), init.clone(), tx.clone());
        std::thread::spawn(move || {
            let mut st = init();
            loop {
                let start = cursor.fetch_add(block, Ordering::Relaxed);
                if start >= n {
                    break;
                }
                for i in start..(start + block).min(n) {
                    job(&mut st, i, &slots[w]);
                }
            }
            slots[w].idle();
            let _ = tx.send(st);
        });
    }
    drop(tx);
    let mut done = Vec::new();
    let mut suspects: Vec<(usize, u64, u64)> = Vec::new();
    loop {
        match rx.recv_timeout(Duration::from_millis(200)) {
            Ok(s) => {
                done.push(s);
                if done.len() == nw {
                    return PoolEnd::Done(done, suspects.len() as u64);
                }
            }
            Err(RecvTimeoutError::Disconnected) => return PoolEnd::Done(done, suspects.len() as u64),
            Err(RecvTimeoutError::Timeout) => {}
        }
        for (w, s) in slots.iter().enumerate() {
            let idx = s.idx.load(Ordering::SeqCst);
            if idx == IDLE || s.since.lock().unwrap().elapsed() <= WATCHDOG {
                continue;
            }
            let sub = s.sub.load(Ordering::SeqCst);
            // re-read: the slot may have moved on between the loads
            if s.idx.load(Ordering::SeqCst) != idx || s.since.lock().unwrap().elapsed() <= WATCHDOG {
                continue;
            }
            if suspects.contains(&(w, idx, sub)) {
                if s.since.lock().unwrap().elapsed() > WATCHDOG * 6 {
                    return PoolEnd::Stuck { idx, sub };
                }
            } else if confirm(idx, sub) {
                return PoolEnd::Hang { idx, sub, finished: done };
            } else {
                suspects.push((w, idx, sub));
            }
        }
    }
}

/// Run `f` on a detached thread; None if it does not finish within the watchdog.
fn with_watchdog<T: Send + 'static>(f: impl FnOnce() -> T + Send + 'static) -> Option<T> {
    let (tx, rx) = channel();
    std::thread::spawn(move || {
        let _ = tx.send(f());
    });
    rx.recv_timeout(WATCHDOG).ok()
}

// ---------------------------------------------------------------------------
// aggregation
// ---------------------------------------------------------------------------

#[derive(Default)]
struct Agg {
    c: BTreeMap<&'static str, u64>,
    per_kind: [u64; 5],
    multi_chunk_per_kind: [u64; 5],
    exact_multiple_per_kind: [u64; 5],
    outcomes: BTreeMap<String, u64>,
    thread_s: BTreeMap<&'static str, f64>,
    viols: Vec<(u64, String, String, Value)>,
    viol_total: u64,
    machinery: Option<String>,
    notes: Vec<String>,
    samples: Vec<(u64, Value)>,
    rechecks_left: u32,
}

impl Agg {
    fn new() -> Self {
        Agg { rechecks_left: 3, ..Default::default() }
    }
    fn add(&mut self, k: &'static str, n: u64) {
        *self.c.entry(k).or_insert(0) += n;
    }
    fn merge(&mut self, o: Agg) {
        for (k, v) in o.c {
            *self.c.entry(k).or_insert(0) += v;
        }
        for i in 0..5 {
            self.per_kind[i] += o.per_kind[i];
            self.multi_chunk_per_kind[i] += o.multi_chunk_per_kind[i];
            self.exact_multiple_per_kind[i] += o.exact_multiple_per_kind[i];
        }
        for (k, v) in o.outcomes {
            *self.outcomes.entry(k).or_insert(0) += v;
        }
        for (k, v) in o.thread_s {
            *self.thread_s.entry(k).or_insert(0.0) += v;
        }
        self.viols.extend(o.viols);
        self.viol_total += o.viol_total;
        if self.machinery.is_none() {
            self.machinery = o.machinery;
        }
        self.notes.extend(o.notes);
        self.samples.extend(o.samples);
    }
    fn get(&self, k: &str) -> u64 {
        self.c.get(k).copied().unwrap_or(0)
    }
}

fn trace_json(t: &[(usize, u8)]) -> Value {
    json!(
        t.iter()
            .map(|(len, f)| match f {
                0 => format!("chunk[{len}]"),
                1 => format!("chunk[{len}]+END"),
                2 => "error".to_string(),
                _ => "other".to_string(),
            })
            .collect::<Vec<_>>()
    )
}

/// run one seam case, fold its outcome into the aggregate
fn exec_seam(agg: &mut Agg, idx: u64, case: &Case) -> seam::Out {
    let t0 = Instant::now();
    let out = seam::run_session(case);
    let cat = match (case.gate, case.script, case.fail_at.is_some()) {
        (Gate::Hold, ..) => "gate-hold",
        (Gate::Ahead, ..) => "gate-ahead",
        (Gate::Sched { .. }, ..) => "gate-sched",
        (_, Script::CancelAfter(_), _) => "cancel-sweep",
        (_, Script::UnknownId, _) => "unknown-id",
        (_, _, true) => "failure-injection",
        _ if case.pat == Pat::Natural => "drain-value-kinds",
        _ => "drain-write-patterns",
    };
    *agg.thread_s.entry(cat).or_insert(0.0) += t0.elapsed().as_secs_f64();
    if let Some(m) = &out.machinery {
        if agg.machinery.is_none() {
            agg.machinery = Some(format!("{m} in {}", case_json(case)));
        }
        return out;
    }
    let ki = kind_idx(case.kind);
    let st = &out.st;
    agg.add("sessions", 1);
    agg.add("exchanges", st.exchanges);
    agg.per_kind[ki] += 1;
    if st.chunks >= 2 {
        agg.add("multi_chunk_sessions", 1);
        agg.multi_chunk_per_kind[ki] += 1;
    }
    if st.ended_last && st.wire_len > 0 && st.wire_len % case.c as usize == 0 {
        agg.exact_multiple_per_kind[ki] += 1;
        agg.add("wire_exact_multiple_of_chunk_sessions", 1);
    }
    if st.ended_last && st.wire_len % case.c as usize == 1 && st.wire_len > 1 {
        agg.add("wire_multiple_plus_one_sessions", 1);
    }
    if st.ended_last && (st.wire_len + 1) % case.c as usize == 0 && case.c > 1 {
        agg.add("wire_multiple_minus_one_sessions", 1);
    }
    if case.zstd {
        agg.add("zstd_sessions", 1);
    }
    if !case.zstd && st.emitted_len == 0 && case.fail_at.is_none() && st.ended_last {
        agg.add("empty_payload_sessions", 1);
    }
    if case.fail_at.is_some() {
        agg.add("failure_injection_sessions", 1);
        if case.panic {
            agg.add("producer_panic_sessions", 1);
        }
        if st.ended_error {
            agg.add("failure_surfaced_as_error", 1);
        }
        if st.chunks > 0 {
            agg.add("failure_sessions_with_chunks_before_the_error", 1);
        }
    }
    match case.script {
        Script::CancelAfter(_) => {
            agg.add("cancel_sessions", 1);
            if !st.ended_last && !st.ended_error {
                agg.add("cancel_mid_stream_sessions", 1);
            }
        }
        Script::UnknownId => agg.add("unknown_id_sessions", 1),
        Script::Drain => {}
    }
    match case.gate {
        Gate::Free => {}
        Gate::Hold => agg.add("gate_hold_sessions", 1),
        Gate::Ahead => agg.add("gate_ahead_sessions", 1),
        Gate::Sched { .. } => agg.add("gate_sched_sessions", 1),
    }
    agg.add("past_end_probes", st.past_end_probes as u64);
    if st.producer_parked > 0 {
        agg.add("sessions_producer_observed_parked_on_full_channel", 1);
        agg.add("producer_parked_observations", st.producer_parked as u64);
    }
    if st.consumer_parked_obs > 0 {
        agg.add("sessions_consumer_observed_parked_before_producer", 1);
    }
    agg.add("consumer_parked_observations", st.consumer_parked_obs as u64);
    agg.add("consumer_first_not_observed", st.consumer_parked_unobs as u64);
    if st.size_dev {
        agg.add("sessions_with_nonfinal_chunk_size_not_c", 1);
    }
    if st.prediction_failed {
        agg.add("gate_prediction_missed", 1);
    }
    if st.depth_exceeded {
        agg.add("channel_depth_exceeded", 1);
    }
    let oc = if st.ended_last { "end-marker" } else if st.ended_error { "error" } else { "released-by-cancel" };
    *agg.outcomes.entry(format!("{}:{oc}", if case.fail_at.is_some() { "failing-producer" } else { "healthy-producer" })).or_insert(0) += 1;
    if !out.viols.is_empty() {
        agg.viol_total += out.viols.len() as u64;
        let mut reproduced = Value::Null;
        if agg.rechecks_left > 0 {
            agg.rechecks_left -= 1;
            let again = seam::run_session(case);
            let a: Vec<&String> = out.viols.iter().map(|v| &v.0).collect();
            let b: Vec<&String> = again.viols.iter().map(|v| &v.0).collect();
            reproduced = json!(a == b);
            if a != b {
                agg.notes.push(format!(
                    "violation {:?} on {} re-executed as {:?}: the manifestation depends on thread timing (the oracle itself does not)",
                    a, case_json(case), b
                ));
            }
        }
        for (k, w) in &out.viols {
            if !agg.viols.iter().any(|v| v.1 == *k) {
                let mut cj = case_json(case);
                cj["observed_exchanges"] = trace_json(&out.trace);
                cj["reproduced_on_reexecution"] = reproduced.clone();
                agg.viols.push((idx, k.clone(), format!("{w} [{}]", short_case(case)), cj));
            }
        }
    }
    out
}

fn short_case(c: &Case) -> String {
    format!(
        "kind={} c={} m={} depth={} zstd={} pat={:?} fail_at={:?}{} script={:?} gate={:?}",
        KIND_NAMES[kind_idx(c.kind)], c.c, c.m, c.depth, c.zstd, c.pat, c.fail_at, if c.panic { "(panic)" } else { "" }, c.script, c.gate
    )
}

fn exec_item(agg: &mut Agg, idx: u64, item: &Item, slot: &Slot) {
    if !item.sweep_cancel {
        slot.begin(idx, 0);
        exec_seam(agg, idx, &item.case);
        return;
    }
    let mut k = 0u32;
    loop {
        slot.begin(idx, k as u64);
        let case = Case { script: Script::CancelAfter(k), ..item.case };
        let out = exec_seam(agg, idx, &case);
        // stop once the cancel came after the stream had ended by itself
        if out.machinery.is_some() || out.st.ended_last || out.st.ended_error || k > 4096 {
            break;
        }
        k += 1;
    }
}

fn oversub() -> usize {
    std::env::var("C09_OVERSUB").ok().and_then(|s| s.parse().ok()).unwrap_or(2)
}

fn raise_fd_limit() {
    unsafe {
        let mut r = libc::rlimit { rlim_cur: 0, rlim_max: 0 };
        if libc::getrlimit(libc::RLIMIT_NOFILE, &mut r) == 0 && r.rlim_cur < r.rlim_max {
            r.rlim_cur = r.rlim_max.min(65536);
            libc::setrlimit(libc::RLIMIT_NOFILE, &r);
        }
    }
}

fn hang_what(layer: &str, desc: &str) -> String {
    format!("{layer}: no answer within {} s (a `next` or a puller never returned), reproduced on re-execution: {desc}", WATCHDOG.as_secs())
}

pub fn run(tier: Tier) -> ! {
    let ctx = Ctx::new("C09", tier);
    std::panic::set_hook(Box::new(|_| {}));
    raise_fd_limit();
    let zstd_level: i32 = std::env::var("C09_ZSTD_LEVEL").ok().and_then(|s| s.parse().ok()).unwrap_or(tier.pick(1, 3));
    seam::ZSTD_LEVEL.store(zstd_level, Ordering::Relaxed);
    let samples = Samples::new(8);

    // cross-checks of the oracle's own inputs
    for m in [0usize, 1, 5, 63, 64, 70] {
        let v = seam::val_for(m);
        let l = seam::logical(Kind::Value, m);
        match beve::from_slice::<seam::Val>(&l) {
            Ok(back) if back == v => {}
            other => ctx.machinery(format!("reference bytes for value m={m} do not decode back: {other:?}")),
        }
        if beve::to_vec(&v).map(|b| b != l).unwrap_or(true) {
            ctx.note(format!("beve::to_vec and beve::to_writer_streaming differ for value m={m}; the streaming encoding is the reference"));
        }
    }

    if std::env::var("C09_PLAN_ONLY").is_ok() {
        // diagnostic: the size of the multi-stream plan (estimates), nothing is executed
        let jobs = multi::build_jobs(tier);
        let mut per: BTreeMap<&'static str, (u64, u64)> = BTreeMap::new();
        for j in &jobs {
            let e = per.entry(j.fam.name()).or_insert((0, 0));
            e.0 += 1;
            e.1 += multi::estimate(j);
        }
        let net: usize = build_net_jobs(tier).iter().filter(|j| netmulti::enabled(j, tier)).map(|j| netmulti::subcases(j, tier).len()).sum();
        ctx.machinery(format!("plan only: multi-stream jobs/estimated scenarios per family {per:?}, work units {}, transport multi-pull sub-cases {net}", multi::units(&jobs).len()));
    }

    // ---------------- layer 1: narrow seam
    let plan = Arc::new(build_plan(tier));
    let n_items = plan.len() as u64;
    let t0 = Instant::now();
    let plan2 = plan.clone();
    let plan3 = plan.clone();
    let case_of = move |idx: u64, sub: u64| -> Case {
        let item = plan3[idx as usize];
        if item.sweep_cancel { Case { script: Script::CancelAfter(sub as u32), ..item.case } } else { item.case }
    };
    let case_of2 = case_of.clone();
    let end = run_pool(
        n_items,
        16,
        oversub(),
        Agg::new,
        move |agg: &mut Agg, i, slot| {
            exec_item(agg, i, &plan2[i as usize], slot);
            slot.idle();
        },
        move |idx, sub| {
            let case = case_of2(idx, sub);
            eprintln!("[C09] watchdog: session {} did not finish within {} s, re-executing once", short_case(&case), WATCHDOG.as_secs());
            with_watchdog(move || seam::run_session(&case).viols.len()).is_none()
        },
    );
    let mut agg = Agg::new();
    let mut hang: Option<(String, String, Value)> = None;
    let mut false_expiries = 0u64;
    match end {
        PoolEnd::Done(parts, fe) => {
            false_expiries += fe;
            parts.into_iter().for_each(|p| agg.merge(p))
        }
        PoolEnd::Stuck { idx, sub } => ctx.machinery(format!(
            "a worker stayed on {} for {} s although the session finishes when re-executed",
            short_case(&case_of(idx, sub)),
            6 * WATCHDOG.as_secs()
        )),
        PoolEnd::Hang { idx, sub, finished } => {
            finished.into_iter().for_each(|p| agg.merge(p));
            let case = case_of(idx, sub);
            let mut cj = case_json(&case);
            cj["hang"] = json!(true);
            hang = Some((format!("C09:seam:hang:{}", if case.zstd { "zstd" } else { "none" }), hang_what("seam", &short_case(&case)), cj));
        }
    }
    let seam_wall = t0.elapsed().as_secs_f64();
    if let Some(m) = &agg.machinery {
        ctx.machinery(m);
    }

    // ---------------- layer 1b: several streams on one router (seam)
    let mjobs = Arc::new(multi::build_jobs(tier));
    let mut magg = multi::MAgg::default();
    let t1b = Instant::now();
    if hang.is_none() {
        let (mj2, mj3) = (mjobs.clone(), mjobs.clone());
        let munits = Arc::new(multi::units(&mjobs));
        let end = run_pool(
            munits.len() as u64,
            1,
            oversub() * 2,
            multi::MAgg::default,
            move |agg: &mut multi::MAgg, u, slot| {
                let (ji, part, parts) = munits[u as usize];
                let i = ji as u64;
                let job = &mj2[ji];
                let t0 = Instant::now();
                slot.begin(i, u64::MAX - 1);
                match multi::scenarios(job) {
                    Ok(scs) => {
                        if part == 0 {
                            agg.add("jobs", 1);
                            agg.add(&format!("jobs[{}]", job.fam.name()), 1);
                        }
                        agg.add("work_units", 1);
                        for (si, sc) in scs.iter().enumerate() {
                            if si as u64 % parts != part {
                                continue;
                            }
                            slot.begin(i, si as u64);
                            let out = multi::run_scenario(sc);
                            let idx = i * 10_000_000 + si as u64;
                            agg.fold(idx, sc, &out);
                            if sc.event == 1 && out.st.interleaved_switches >= 2 && out.machinery.is_none() && agg.sample.as_ref().map(|s| idx < s.0).unwrap_or(true) {
                                agg.sample = Some((idx, json!({"case": multi::scenario_json(sc), "observed": out.trace, "violations": out.viols.len()})));
                            }
                        }
                    }
                    Err(multi::Skip::OverLimit) => agg.add("jobs_skipped_stream_longer_than_the_family_bound", (part == 0) as u64),
                    Err(multi::Skip::SoloNotTerminal) => agg.add("jobs_skipped_solo_pull_not_terminal", (part == 0) as u64),
                    Err(multi::Skip::Machinery(m)) => {
                        if agg.machinery.is_none() {
                            agg.machinery = Some(format!("multi-stream job {job:?}: {m}"));
                        }
                    }
                }
                agg.thread_s += t0.elapsed().as_secs_f64();
                slot.idle();
            },
            move |idx, sub| {
                let job = mj3[idx as usize].clone();
                eprintln!("[C09] watchdog: multi-stream job {idx} scenario {sub} did not finish within {} s, re-executing once", WATCHDOG.as_secs());
                with_watchdog(move || match multi::scenarios(&job) {
                    Ok(scs) => scs.get(sub as usize).map(|sc| multi::run_scenario(sc).viols.len()).unwrap_or(0),
                    Err(_) => 0,
                })
                .is_none()
            },
        );
        match end {
            PoolEnd::Done(parts, fe) => {
                false_expiries += fe;
                parts.into_iter().for_each(|p| magg.merge(p))
            }
            PoolEnd::Stuck { idx, sub } => ctx.machinery(format!(
                "a worker stayed on multi-stream job {idx} scenario {sub} for {} s although it finishes when re-executed",
                6 * WATCHDOG.as_secs()
            )),
            PoolEnd::Hang { idx, sub, finished } => {
                finished.into_iter().for_each(|p| magg.merge(p));
                let job = mjobs[idx as usize].clone();
                let job2 = job.clone();
                // the scenario list needs the solo pulls, which may be what hangs
                let sc = with_watchdog(move || multi::scenarios(&job2).ok().and_then(|s| s.get(sub as usize).cloned())).flatten();
                let (mut cj, desc) = match &sc {
                    Some(sc) => (multi::scenario_json(sc), multi::short(sc)),
                    None => (
                        json!({"layer": "multi", "family": job.fam.name(), "router": multi::cfg_json(&job.cfg), "streams": job.streams.iter().map(|s| multi::resource(&job.cfg, s)).collect::<Vec<_>>(), "scenario": sub}),
                        format!("{job:?} scenario {sub}"),
                    ),
                };
                cj["hang"] = json!(true);
                hang = Some((format!("C09:multi:hang:{}", if job.cfg.zstd { "zstd" } else { "none" }), hang_what("multi-stream seam", &desc), cj));
            }
        }
        if let Some(m) = &magg.machinery {
            if agg.viols.is_empty() && magg.viols.is_empty() && hang.is_none() {
                ctx.machinery(m);
            }
        }
    }
    let multi_wall = t1b.elapsed().as_secs_f64();

    // ---------------- layer 2: transports (skipped once the seam already hangs)
    let jobs = Arc::new(build_net_jobs(tier));
    let mut net_agg = Agg::new();
    let t1 = Instant::now();
    if hang.is_none() {
        let rt = Arc::new(
            tokio::runtime::Builder::new_multi_thread().worker_threads(4).enable_all().build().unwrap_or_else(|e| ctx.machinery(format!("tokio runtime: {e}"))),
        );
        let jobs2 = jobs.clone();
        let rt2 = rt.clone();
        let jobs3 = jobs.clone();
        let rt3 = rt.clone();
        let net_confirm = move |idx: u64, sub: u64| -> bool {
            let job = jobs3[idx as usize];
            if (NETMULTI_BASE..u64::MAX - 1).contains(&sub) {
                let Some(ms) = netmulti::subcases(&job, tier).get((sub - NETMULTI_BASE) as usize).cloned() else { return false };
                eprintln!("[C09] watchdog: transport multi-pull {} did not finish within {} s, re-executing once", netmulti::case_json(&job, &ms), WATCHDOG.as_secs());
                let rt4 = rt3.clone();
                return with_watchdog(move || net::setup(&job, &rt4).map(|ep| netmulti::run_sub(&job, &ms, &ep, &rt4).viols.len())).is_none();
            }
            let Some(s) = net::subcases(&job).get(sub as usize).copied() else {
                // the setup phase itself: re-run the setup alone
                let rt4 = rt3.clone();
                return with_watchdog(move || net::setup(&job, &rt4).is_ok()).is_none();
            };
            eprintln!("[C09] watchdog: transport pull {} did not finish within {} s, re-executing once", net_case_json(&job, &s), WATCHDOG.as_secs());
            let rt4 = rt3.clone();
            with_watchdog(move || net::setup(&job, &rt4).map(|ep| net::run_sub(&job, &s, &ep, &rt4).viols.len())).is_none()
        };
        let end = run_pool(jobs.len() as u64, 1, oversub(), Agg::new, move |agg: &mut Agg, i, slot| {
            let job = jobs2[i as usize];
            slot.begin(i, u64::MAX - 1);
            let ep = match net::setup(&job, &rt2) {
                Ok(ep) => ep,
                Err(e) => {
                    agg.machinery = Some(format!("transport setup failed: {e}"));
                    slot.idle();
                    return;
                }
            };
            agg.add("net_servers", 1);
            for (si, sub) in net::subcases(&job).iter().enumerate() {
                slot.begin(i, si as u64);
                let out = net::run_sub(&job, sub, &ep, &rt2);
                agg.add("net_pulls", 1);
                agg.add("net_exchanges", out.exchanges);
                agg.add("net_ok_pulls", out.ok_pulls);
                agg.add("net_failed_producer_pulls_that_errored", out.err_pulls);
                agg.add(
                    match sub.transport {
                        net::Transport::Tcp => "net_pulls_tcp_client",
                        net::Transport::AsyncTcp => "net_pulls_async_client",
                        net::Transport::Ws => "net_pulls_websocket_client",
                    },
                    1,
                );
                agg.per_kind[kind_idx(job.kind)] += 1;
                if agg.samples.is_empty() && sub.m as usize > 2 * job.c as usize {
                    agg.samples.push((i, json!({"case": net_case_json(&job, sub), "result": if out.viols.is_empty() { "as predicted" } else { "violation" }})));
                }
                agg.viol_total += out.viols.len() as u64;
                for (k, w) in out.viols {
                    if !agg.viols.iter().any(|v| v.1 == k) {
                        agg.viols.push((i * 100_000 + si as u64, k, w, net_case_json(&job, sub)));
                    }
                }
            }
            // several pulls through the same three connections
            if netmulti::enabled(&job, tier) {
                agg.add("netmulti_servers", 1);
                for (si, ms) in netmulti::subcases(&job, tier).iter().enumerate() {
                    slot.begin(i, NETMULTI_BASE + si as u64);
                    let out = netmulti::run_sub(&job, ms, &ep, &rt2);
                    let mode = if ms.concurrent { "concurrent" } else { "sequential" };
                    agg.add("netmulti_subcases", 1);
                    agg.add(if ms.concurrent { "netmulti_subcases_concurrent" } else { "netmulti_subcases_sequential" }, 1);
                    agg.add(if ms.items.len() == 3 { "netmulti_subcases_three_pulls" } else { "netmulti_subcases_two_pulls" }, 1);
                    agg.add("netmulti_pulls", out.pulls);
                    agg.add("netmulti_exchanges", out.exchanges);
                    agg.add("netmulti_ok_pulls", out.ok_pulls);
                    agg.add("netmulti_failed_producer_pulls_that_errored", out.err_pulls);
                    agg.add("netmulti_abandoned_streams_resumed_after_another_pull", out.resumed);
                    agg.add(
                        match (ms.transport, ms.concurrent) {
                            (net::Transport::Tcp, _) => "netmulti_subcases_tcp_client_sequential",
                            (net::Transport::AsyncTcp, false) => "netmulti_subcases_async_client_sequential",
                            (net::Transport::AsyncTcp, true) => "netmulti_subcases_async_client_concurrent",
                            (net::Transport::Ws, false) => "netmulti_subcases_websocket_client_sequential",
                            (net::Transport::Ws, true) => "netmulti_subcases_websocket_client_concurrent",
                        },
                        1,
                    );
                    if ms.items.len() >= 2 && ms.items[0].m == ms.items[1].m && ms.items[0].fail_at == ms.items[1].fail_at {
                        agg.add("netmulti_subcases_same_resource_twice", 1);
                    }
                    if ms.items.iter().any(|it| matches!(it.p, netmulti::MPull::RawAbandon(_) | netmulti::MPull::RawCancel(_))) {
                        agg.add("netmulti_subcases_first_stream_left_or_cancelled_mid_way", 1);
                    }
                    if ms.items.iter().any(|it| it.fail_at.is_some()) {
                        agg.add("netmulti_subcases_with_a_failing_producer", 1);
                    }
                    let _ = mode;
                    if ms.concurrent && ms.items.len() == 3 && !agg.samples.iter().any(|s| s.0 >= NETMULTI_BASE) {
                        agg.samples.push((NETMULTI_BASE + i, json!({"case": netmulti::case_json(&job, ms), "result": if out.viols.is_empty() { "every pull returned its own content" } else { "violation" }})));
                    }
                    agg.viol_total += out.viols.len() as u64;
                    for (k, w) in out.viols {
                        if !agg.viols.iter().any(|v| v.1 == k) {
                            agg.viols.push((i * 100_000 + 50_000 + si as u64, k, w, netmulti::case_json(&job, ms)));
                        }
                    }
                }
            }
            slot.idle();
        }, net_confirm);
        match end {
            PoolEnd::Done(parts, fe) => {
                false_expiries += fe;
                parts.into_iter().for_each(|p| net_agg.merge(p))
            }
            PoolEnd::Stuck { idx, sub } => ctx.machinery(format!(
                "a transport worker stayed on job {:?} sub-case {sub} for {} s although it finishes when re-executed",
                jobs[idx as usize],
                6 * WATCHDOG.as_secs()
            )),
            PoolEnd::Hang { idx, sub, finished } => {
                finished.into_iter().for_each(|p| net_agg.merge(p));
                let job = jobs[idx as usize];
                if (NETMULTI_BASE..u64::MAX - 1).contains(&sub) {
                    let Some(ms) = netmulti::subcases(&job, tier).get((sub - NETMULTI_BASE) as usize).cloned() else {
                        ctx.machinery(format!("transport multi-pull sub-case {sub} of {job:?} does not exist"))
                    };
                    let mut cj = netmulti::case_json(&job, &ms);
                    let desc = cj.to_string();
                    cj["hang"] = json!(true);
                    hang = Some((
                        format!("C09:netmulti:hang:{}:{}", ms.transport.name(), if ms.concurrent { "concurrent" } else { "sequential" }),
                        hang_what("transport, several pulls on one connection", &desc),
                        cj,
                    ));
                } else {
                    let subs = net::subcases(&job);
                    let Some(s) = subs.get(sub as usize).copied() else {
                        ctx.machinery(format!("transport setup for {job:?} does not finish within the watchdog"))
                    };
                    let mut cj = net_case_json(&job, &s);
                    let desc = cj.to_string();
                    cj["hang"] = json!(true);
                    hang = Some((format!("C09:net:hang:{}", s.transport.name()), hang_what("transport", &desc), cj));
                }
            }
        }
        if let Some(m) = &net_agg.machinery {
            if agg.viols.is_empty() && net_agg.viols.is_empty() && hang.is_none() {
                ctx.machinery(m);
            }
        }
        std::mem::forget(rt);
    }
    let net_wall = t1.elapsed().as_secs_f64();

    // ---------------- verdicts
    let mut all: Vec<(u64, String, String, Value)> = agg.viols.drain(..).collect();
    all.sort_by(|a, b| a.0.cmp(&b.0));
    let mut netv: Vec<(u64, String, String, Value)> = net_agg.viols.drain(..).collect();
    netv.sort_by(|a, b| a.0.cmp(&b.0));
    let mut multiv: Vec<(u64, String, String, Value)> = magg.viols.drain(..).collect();
    multiv.sort_by(|a, b| a.0.cmp(&b.0));
    for (_, k, w, c) in all.into_iter().chain(multiv).chain(netv) {
        ctx.violation(k, w, c);
    }
    if let Some((k, w, c)) = hang.clone() {
        ctx.violation(k, w, c);
    }
    if false_expiries > 0 {
        ctx.note(format!("{false_expiries} watchdog expiries did not reproduce on re-execution (slow host); the sessions were left to finish"));
    }
    for n in agg.notes.iter().chain(net_agg.notes.iter()).take(5) {
        ctx.note(n.clone());
    }
    if agg.get("sessions_with_nonfinal_chunk_size_not_c") > 0 {
        ctx.note(format!(
            "{} sessions had a non-final chunk whose size is not chunk_bytes (chunk sizing is documented as local policy, so this is not a verdict)",
            agg.get("sessions_with_nonfinal_chunk_size_not_c")
        ));
    }
    if agg.get("channel_depth_exceeded") > 0 {
        ctx.note(format!("{} gated sessions saw the producer run further ahead than session_depth admits (not part of C09)", agg.get("channel_depth_exceeded")));
    }
    if magg.get("scenarios_delivery_partition_differs_from_solo_pull") > 0 {
        ctx.note(format!(
            "{} multi-stream scenarios delivered a stream in chunks of other sizes than the same resource pulled alone (chunk sizing is local policy: not a verdict)",
            magg.get("scenarios_delivery_partition_differs_from_solo_pull")
        ));
    }
    if magg.get("gated_prediction_missed") > 0 {
        ctx.note(format!("{} gated-writes scenarios missed a predicted producer write and fell back to free running", magg.get("gated_prediction_missed")));
    }
    if magg.get("jobs_skipped_stream_longer_than_the_family_bound") > 0 {
        ctx.note(format!(
            "{} multi-stream jobs were skipped because a stream needed more next calls than the family's bound when pulled alone (counted in nonvacuity.multi_stream)",
            magg.get("jobs_skipped_stream_longer_than_the_family_bound")
        ));
    }
    if agg.get("gate_prediction_missed") > 0 {
        ctx.note(format!("{} gated sessions missed a predicted producer event and fell back to free running", agg.get("gate_prediction_missed")));
    }

    // ---------------- non-vacuity
    if !ctx.has_violation() {
        let need = |name: &str, v: u64| {
            if v == 0 {
                ctx.machinery(format!("vacuous exploration: counter `{name}` is 0"));
            }
        };
        for i in 0..5 {
            need(&format!("sessions[{}]", KIND_NAMES[i]), agg.per_kind[i]);
            need(&format!("multi_chunk_sessions[{}]", KIND_NAMES[i]), agg.multi_chunk_per_kind[i]);
            need(&format!("wire_exact_multiple[{}]", KIND_NAMES[i]), agg.exact_multiple_per_kind[i]);
            need(&format!("net_pulls[{}]", KIND_NAMES[i]), net_agg.per_kind[i]);
        }
        for k in [
            "failure_injection_sessions",
            "producer_panic_sessions",
            "failure_surfaced_as_error",
            "failure_sessions_with_chunks_before_the_error",
            "cancel_mid_stream_sessions",
            "unknown_id_sessions",
            "empty_payload_sessions",
            "zstd_sessions",
            "gate_hold_sessions",
            "gate_ahead_sessions",
            "gate_sched_sessions",
            "sessions_producer_observed_parked_on_full_channel",
            "sessions_consumer_observed_parked_before_producer",
            "wire_multiple_plus_one_sessions",
            "wire_multiple_minus_one_sessions",
            "past_end_probes",
        ] {
            need(k, agg.get(k));
        }
        for k in ["net_pulls_tcp_client", "net_pulls_async_client", "net_pulls_websocket_client", "net_failed_producer_pulls_that_errored", "net_ok_pulls"] {
            need(k, net_agg.get(k));
        }
        for k in [
            "scenarios[pair]",
            "scenarios[triple]",
            "scenarios[sequential-reuse]",
            "scenarios[gated-writes]",
            "event[none]",
            "event[cancel-request]",
            "event[cancel-notify]",
            "event[next-past-the-end]",
            "event[next-unknown-id]",
            "event[cancel-unknown-id]",
            "event[open-late-same-resource]",
            "event[next-old-id]",
            "event[cancel-old-id]",
            "streams_ended_with_end_marker",
            "streams_ended_with_error",
            "streams_cancelled_mid_stream",
            "cancels_of_an_already_released_stream",
            "next_after_cancel_probes",
            "next_past_the_end_probes",
            "next_after_failure_probes",
            "next_unknown_id_probes",
            "next_switches_between_streams",
            "scenarios_same_resource_opened_twice",
            "scenarios_different_resources",
            "scenarios_failing_stream_errored_and_healthy_stream_ended",
            "scenarios_open_while_another_stream_is_live",
            "scenarios_max_2_streams_live_at_once",
            "scenarios_max_3_streams_live_at_once",
            "scenarios_zstd",
            "scenarios_two_or_more_producer_kinds_on_one_router",
            "gated_producer_writes_released_and_observed",
        ] {
            need(&format!("multi_stream.{k}"), magg.get(k));
        }
        for kn in KIND_NAMES.iter().copied().chain(["mixed"]) {
            need(&format!("multi_stream.scenarios_registration[{kn}]"), magg.get(&format!("scenarios_registration[{kn}]")));
        }
        if magg.get("jobs_skipped_solo_pull_not_terminal") > 0 {
            ctx.machinery("a multi-stream job found its solo reference pull not terminal although no violation was reported");
        }
        for k in [
            "netmulti_subcases_tcp_client_sequential",
            "netmulti_subcases_async_client_sequential",
            "netmulti_subcases_async_client_concurrent",
            "netmulti_subcases_websocket_client_sequential",
            "netmulti_subcases_websocket_client_concurrent",
            "netmulti_subcases_three_pulls",
            "netmulti_subcases_same_resource_twice",
            "netmulti_subcases_first_stream_left_or_cancelled_mid_way",
            "netmulti_abandoned_streams_resumed_after_another_pull",
            "netmulti_subcases_with_a_failing_producer",
            "netmulti_failed_producer_pulls_that_errored",
            "netmulti_ok_pulls",
        ] {
            need(k, net_agg.get(k));
        }
        if net_agg.get("netmulti_ok_pulls") + net_agg.get("netmulti_failed_producer_pulls_that_errored") != net_agg.get("netmulti_pulls") {
            ctx.machinery("multi-pull rows without violation must all have returned their own content or their own producer's error");
        }
        if agg.get("failure_surfaced_as_error") != agg.get("failure_injection_sessions") {
            ctx.machinery("failure sessions without violation must all have surfaced an error");
        }
    }

    // fixed sample sessions (re-executed here so that the evidence is identical on every run)
    let sample_cases = [
        Case { c: 4, m: 9, depth: 1, zstd: false, kind: Kind::Writer, pat: Pat::Alt, fail_at: None, panic: false, script: Script::Drain, gate: Gate::Free },
        Case { c: 3, m: 10, depth: 0, zstd: false, kind: Kind::Reader, pat: Pat::AllOne, fail_at: Some(7), panic: false, script: Script::Drain, gate: Gate::Free },
        Case { c: 8, m: 5, depth: 2, zstd: true, kind: Kind::Value, pat: Pat::Natural, fail_at: None, panic: false, script: Script::Drain, gate: Gate::Free },
        Case { c: 2, m: 5, depth: 0, zstd: false, kind: Kind::Writer, pat: Pat::AllC, fail_at: None, panic: false, script: Script::Drain, gate: Gate::Sched { bits: 0b0101, len: 4 } },
        Case { c: 4, m: 9, depth: 4, zstd: false, kind: Kind::Typed, pat: Pat::Natural, fail_at: None, panic: false, script: Script::CancelAfter(2), gate: Gate::Free },
    ];
    if hang.is_none() {
        for sc in sample_cases {
            if let Some(out) = with_watchdog(move || seam::run_session(&sc)) {
                samples.offer(|| json!({"case": case_json(&sc), "exchanges_after_open": trace_json(&out.trace), "violations": out.viols.len()}));
            }
        }
    }
    if let Some((_, s)) = magg.sample.clone() {
        samples.offer(|| s);
    }
    net_agg.samples.sort_by(|a, b| a.0.cmp(&b.0));
    if let Some((_, s)) = net_agg.samples.first().cloned() {
        samples.offer(|| s);
    }
    if let Some((_, s)) = net_agg.samples.iter().find(|s| s.0 >= NETMULTI_BASE).cloned() {
        samples.offer(|| s);
    }
    samples.offer(|| json!({"note": "sample sessions were skipped because the run ended in a hang"}));

    let states = agg.get("sessions") + net_agg.get("net_pulls") + magg.get("scenarios") + net_agg.get("netmulti_subcases");
    let transitions = agg.get("exchanges") + net_agg.get("net_exchanges") + magg.get("exchanges") + net_agg.get("netmulti_exchanges");
    let cfgs = multi::cfg_plans(tier);
    let nv_seam: BTreeMap<String, u64> = agg.c.iter().map(|(k, v)| (k.to_string(), *v)).collect();
    let nv_net: BTreeMap<String, u64> = net_agg.c.iter().map(|(k, v)| (k.to_string(), *v)).collect();
    let per_kind = |a: &[u64; 5]| -> Value { json!(KIND_NAMES.iter().zip(a.iter()).map(|(k, v)| (k.to_string(), *v)).collect::<BTreeMap<_, _>>()) };
    let coverage = json!({
        "states": states,
        "transitions": transitions,
        "traces_validated_against_impl": states,
        "samples": samples.take(),
        "exhaustive": hang.is_none(),
        "rule": "seam: every (chunk size, payload length, depth, compression, producer kind, write-size pattern, failure position, consumer script, gate discipline) combination of the bound is one session on the real open/next/cancel handlers; multi-stream seam: per router configuration and tuple of resources, 2 or 3 streams opened on ONE fresh router, their next calls in every order (each stream's number of calls = the number measured by pulling the same resource alone), and for every order one extra event at every position; sequential reuse of one router by three streams; every order of the 1-byte writes of concurrently producing sessions; transports: every (kind, chunk size, depth, compression) server x boundary payloads x public puller x transport, and on the same three connections two and three pulls one after the other (every ordered pair of puller kinds) and, for AsyncClient and WebSocketClient, joined concurrently",
        "bound": {
            "chunk_bytes": chunk_sizes(tier),
            "payload_length": "0..=3c+1 for c<=16; {0,1,kc-1,kc,kc+1 (k=1..3)} for c in {4096, 1 MiB}; element counts for value/typed/complex additionally 60..=62+2c and the counts whose encoding is exactly kc-1, kc, kc+1",
            "session_depth": DEPTHS,
            "compression": ["none", format!("zstd(level {zstd_level})")],
            "producer_kinds": KIND_NAMES,
            "write_patterns": "reader/writer: all 2^(n-1) compositions of n for n<=10; {all-1, all-c, alternating c-1/c+1, single} above",
            "quick_tier_thinning_under_zstd": tier.pick("zstd sessions: all compositions only at depth 4 (the 4 named patterns at the other depths); failure injection with patterns {all-c, single} at depths {0,4}; producer panic at depth 0; cancel sweep at depths {0,4}. Compression none is never thinned.", "none"),
            "producer_panic": "reader/writer producer thread panics at every position 0..=n, patterns {single, all-c}, depth {0,2}",
            "failure_positions": tier.pick("every byte position 0..=n x {all-1, all-c, alternating, single}", "every byte position 0..=n x every composition (n<=10) / 4 patterns above; boundary positions for c>=4096"),
            "scripts": ["drain + 2 extra next", "cancel after k nexts for every k, then 2 next", "next/cancel on an unknown stream id before the first and after the first next, then drain"],
            "gates": "free; hold (first next observed parked before the producer starts); ahead (producer provably at its channel-depth limit before every next; compression none); sched (every assignment of producer-first/consumer-first to each gate point; c<=4 quick, c<=16 thorough; compression none)",
            "transports": {"servers": jobs.len(), "chunk_bytes": tier.pick(vec![1u32, 3, 8], vec![1, 2, 3, 4, 7, 8, 16, 4096, 1 << 20]), "payloads": "m in {0,1,c-1,c,c+1,2c,3c+1} (+ counts whose encoding is exactly c, 2c, 3c)", "pullers": ["pull_to_vec", "pull_value", "pull_typed_slice", "pull_complex_slice", "pull_consume", "raw open/next exchanges", "the *_async forms over AsyncClient and over WebSocketClient"]},
        },
        "multi_stream_bound": {
            "router_configurations": cfgs.iter().map(|p| {
                let mut j = multi::cfg_json(&p.cfg);
                j["families"] = json!([if p.pairs && p.pair_events { "pair" } else if p.pairs { "pair (orders only, no extra events)" } else { "" }, if p.triples { "triple" } else { "" }, if p.seq { "sequential-reuse" } else { "" }].iter().filter(|s| !s.is_empty()).collect::<Vec<_>>());
                let mut res: Vec<String> = mjobs.iter().filter(|j| j.cfg == p.cfg && j.fam != multi::Fam::Gated).flat_map(|j| j.streams.iter().map(|s| multi::resource(&j.cfg, &multi::SSpec { salt: 0, ..*s }))).collect();
                res.sort();
                res.dedup();
                j["resources_m:write-pattern:fail-at[:body]"] = json!(res);
                j["alphabet"] = json!(if p.full { "every payload with at most 3 (triples: 2) responses" } else { "one payload per (number of responses, wire length an exact multiple of chunk_bytes or not) class" });
                j
            }).collect::<Vec<_>>(),
            "streams": "healthy payloads of 1, 2, 3 responses incl. the empty payload and exact multiples of chunk_bytes (reader/writer also one payload written in 1-byte writes); failing reader/writer payloads (Err after p bytes for p at the chunk boundaries [thorough: every p], and a producer-thread panic); the mixed registration serves serde value, typed array, complex array, reader and writer bodies from one with_writer_stream router",
            "pairs": tier.pick("two streams with <= 3 responses each: every unordered pair of healthy payloads (one payload of 3 responses, the exact-multiple and the other payload of 2 and of 1 responses) incl. the same resource twice; every failing payload with the 3-response healthy partner, with a rotating partner (failing stream second; extra events when the failing stream has <= 2 responses) and with itself (orders only)", "two streams with <= 3 responses each: every unordered pair of healthy payloads incl. the same resource twice; every failing payload whose failure position is at or next to a chunk boundary with one healthy partner per number of responses in both open orders (healthy-first with a 2-response partner: orders only), the other failing payloads with the 3-response partner and a rotating one, and every failing payload with itself (extra events when it has <= 2 responses)"),
            "triples": tier.pick("three streams with <= 2 responses each: 4 core triples per configuration (same resource three times, three different, one failing, one with the empty payload first [orders only]); orders: the covering subset (block / round-robin / nested order for each of the 6 stream permutations)", "three streams with <= 2 responses each: every multiset of healthy payloads and every failing payload between two healthy ones, ALL orders; the extra events on the 4 core triples (all orders for the same-resource-three-times and the three-different triple, the covering subset of orders for the other two)"),
            "orders": "opens first (slot order), then every distinct order of the streams' next calls",
            "extra_events_at_every_position": ["cancel of each stream (request form, notify form)", "next for a stream that has already finished (positions after its last response)", "next for an unknown id", "cancel for an unknown id", "open of one more stream on the same resource as stream 0 (drained at the end)"],
            "sequential_reuse": "stream 1 pulled to its end (end marker or failure) or cancelled after j = 0..n-1 responses (request / notify form); then stream 2 (same resource, and another one [thorough: every other]) pulled with next(old id) or cancel(old id) inserted at every position; then stream 3 (the first resource again)",
            "after_every_scenario": "streams still live are drained; one more next for every id (all released by then) must answer an error",
            "gated_writes": tier.pick("writer bodies with 1-byte writes, chunk_bytes in {2,3}, depth 8, payloads {c+1, 2c}: every order of the two producers' writes, then drained in both slot orders", "writer bodies with 1-byte writes, chunk_bytes in {1,2,3,4}, depth 8, payloads {1,c,c+1,2c,2c+1} (sum <= 12): every order of the two producers' writes (and of three producers for c <= 2), drained in both slot orders"),
            "jobs": mjobs.len(),
        },
        "transport_multi_pull_bound": {
            "servers": tier.pick("the transport servers with (chunk_bytes, depth) in {(3,0), (3,4), (1,0)} (all kinds, both compressions)", "the transport servers with chunk_bytes in {1,2,3,4,8} and depth in {0,1,4} (all kinds, both compressions)"),
            "sequential": "per transport (Client, AsyncClient, WebSocketClient): every ordered pair of the kind's pullers (typed puller / pull_to_vec / pull_consume / raw exchanges) on a pair of different boundary payloads and on the same resource twice, rotating through the boundary payloads [thorough: 4 different pairs and 2 identical resources per puller pair]; three pulls in a row; a first stream abandoned after 0 or 1 chunks or cancelled after 1 chunk, then every puller on the same and on another resource; a first stream abandoned, a second one cancelled mid-way; a first stream abandoned after 0 or 1 chunks, a complete pull by every puller, then the first stream continued to its end; different resources of one sub-case have different contents (salted); a failing producer before and between healthy pulls (reader/writer)",
            "concurrent": "AsyncClient and WebSocketClient: two pull futures joined (every unordered pair of pullers, different payloads and the same resource), three joined, a failing and a healthy pull joined",
        },
        "plan_items": n_items,
        "sessions_per_producer_kind": per_kind(&agg.per_kind),
        "distinct_outcomes": agg.outcomes,
        "nonvacuity": {
            "seam": nv_seam,
            "multi_chunk_sessions_per_kind": per_kind(&agg.multi_chunk_per_kind),
            "wire_length_exact_multiple_of_chunk_per_kind": per_kind(&agg.exact_multiple_per_kind),
            "multi_stream": magg.c,
            "transports": nv_net,
            "transport_pulls_per_kind": per_kind(&net_agg.per_kind),
        },
        "thread_seconds_by_category": agg.thread_s.iter().map(|(k, v)| (k.to_string(), (v * 10.0).round() / 10.0)).collect::<BTreeMap<_, _>>(),
        "wall_seam_s": (seam_wall * 100.0).round() / 100.0,
        "wall_multi_stream_s": (multi_wall * 100.0).round() / 100.0,
        "thread_seconds_multi_stream": (magg.thread_s * 10.0).round() / 10.0,
        "wall_transports_s": (net_wall * 100.0).round() / 100.0,
    });
    ctx.finish(
        "model_checking",
        coverage,
        &[
            "The byte/flag sequence of a single-producer single-consumer bounded FIFO does not depend on timing; relative speed is therefore varied only to exercise both arrival orders at every rendezvous (gates on the producer's writes, the puller observed parked via /proc thread state), not sampled.",
            "Consumer-first arrival is confirmed by observing the puller thread asleep before the producer is released; where that observation is missed the session still runs and is counted separately.",
            "The reference bytes are computed without the chunking engine: the raw bytes handed to the reader/writer producers, beve::to_vec_typed_slice / to_vec_complex_slice, and beve::to_writer_streaming into a plain Vec for the serde value.",
            "zstd streams are judged by decompressing the concatenation (zstd::stream::decode_all); the compressed bytes themselves are not compared with an independent compression run.",
            "Chunk sizes (exactly chunk_bytes except the last) are documented as local engine policy and are reported as a note, not a verdict.",
            "Transports use real loopback sockets; a pull that does not return within 10 s is re-executed once and reported as a hang only if it hangs again.",
            "Multi-stream seam scenarios issue their calls one after the other on one thread (each stream has its own real producer thread and channel, free-running); the responses of a stream do not depend on the producers' timing, so the interleaving of the CALLS is what is enumerated. The gated-writes rows additionally fix the interleaving of the producers' writes.",
            "The number of next calls planned per stream is the number of responses the same resource gave when pulled alone on a fresh router of the same configuration; a stream that ends earlier or later in company is still judged by the per-stream clauses (later calls become past-the-end probes; a live stream is drained at the end).",
            "Joined pulls over AsyncClient / WebSocketClient interleave on the connection as the runtime schedules them (not enumerated at this layer: the seam layer enumerates the orders); the verdict (each pull returns its own content) does not depend on that order.",
        ],
    )
}

pub fn replay(case: &Value) -> Result<(), String> {
    std::panic::set_hook(Box::new(|_| {}));
    if let Some(l) = case.get("zstd_level").and_then(|l| l.as_i64()) {
        seam::ZSTD_LEVEL.store(l as i32, Ordering::Relaxed);
    }
    match case.get("layer").and_then(|l| l.as_str()) {
        Some("seam") => {
            let c = case_from(case).ok_or("malformed seam case")?;
            match with_watchdog(move || seam::run_session(&c)) {
                None => Err(format!("hang: the session did not finish within {} s", WATCHDOG.as_secs())),
                Some(out) => {
                    if let Some(m) = out.machinery {
                        return Err(format!("machinery: {m}"));
                    }
                    println!("exchanges: {}", trace_json(&out.trace));
                    if out.viols.is_empty() {
                        Ok(())
                    } else {
                        Err(out.viols.iter().map(|(k, w)| format!("{k} :: {w}")).collect::<Vec<_>>().join("\n"))
                    }
                }
            }
        }
        Some("net") => {
            let (job, sub) = net_case_from(case).ok_or("malformed net case")?;
            let rt = Arc::new(tokio::runtime::Builder::new_multi_thread().worker_threads(2).enable_all().build().map_err(|e| e.to_string())?);
            let rt2 = rt.clone();
            let r = with_watchdog(move || net::setup(&job, &rt2).map(|ep| net::run_sub(&job, &sub, &ep, &rt2).viols));
            std::mem::forget(rt);
            match r {
                None => Err(format!("hang: the pull did not finish within {} s", WATCHDOG.as_secs())),
                Some(Err(e)) => Err(format!("machinery: {e}")),
                Some(Ok(v)) if v.is_empty() => Ok(()),
                Some(Ok(v)) => Err(v.iter().map(|(k, w)| format!("{k} :: {w}")).collect::<Vec<_>>().join("\n")),
            }
        }
        Some("multi") => {
            let sc = multi::scenario_from(case).ok_or("malformed multi-stream case")?;
            match with_watchdog(move || multi::run_scenario(&sc)) {
                None => Err(format!("hang: the scenario did not finish within {} s", WATCHDOG.as_secs())),
                Some(out) => {
                    if let Some(m) = out.machinery {
                        return Err(format!("machinery: {m}"));
                    }
                    println!("observed: {}", json!(out.trace));
                    if out.viols.is_empty() { Ok(()) } else { Err(out.viols.iter().map(|(k, w)| format!("{k} :: {w}")).collect::<Vec<_>>().join("\n")) }
                }
            }
        }
        Some("netmulti") => {
            let (job, sub) = netmulti::case_from(case).ok_or("malformed transport multi-pull case")?;
            let rt = Arc::new(tokio::runtime::Builder::new_multi_thread().worker_threads(2).enable_all().build().map_err(|e| e.to_string())?);
            let rt2 = rt.clone();
            let r = with_watchdog(move || net::setup(&job, &rt2).map(|ep| netmulti::run_sub(&job, &sub, &ep, &rt2).viols));
            std::mem::forget(rt);
            match r {
                None => Err(format!("hang: the pulls did not finish within {} s", WATCHDOG.as_secs())),
                Some(Err(e)) => Err(format!("machinery: {e}")),
                Some(Ok(v)) if v.is_empty() => Ok(()),
                Some(Ok(v)) => Err(v.iter().map(|(k, w)| format!("{k} :: {w}")).collect::<Vec<_>>().join("\n")),
            }
        }
        _ => Err("case has no layer".into()),
    }
}
