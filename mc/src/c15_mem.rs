//! C15, in-memory part: `serve_connection*` over `memstream`, one runtime thread
//! per connection, the harness as raw tungstenite client. The stream is adopted
//! through `adopt_upgraded`, or (rows with a `prefix`) through
//! `adopt_upgraded_partially_read` with the first k bytes the client pipelined
//! handed over as the `buffered` argument and the rest left on the stream.

use super::{
    Cause, Cell, ConnFacts, Ev, Outcome, Phase, Plan, SHORT_WATCHDOG, Variant, WATCHDOG, World, build_server, bump, cell_from_json, cell_json,
    evaluate, variant_from_json,
};
use crate::frames::Frame;
use crate::memstream::{self, Ctl, End};
use crate::wsh::Got;
use futures_util::{SinkExt, StreamExt};
use repe::tokio_tungstenite::tungstenite::http;
use repe::websocket_server::{HandshakeContext, SharedWebSocketServer, ShutdownToken};
use serde_json::{Value, json};
use std::sync::atomic::Ordering;
use std::sync::{Arc, Mutex};
use std::time::Duration;
use tokio::io::{AsyncRead, AsyncWrite};
use tokio::task::AbortHandle;
use tokio_tungstenite::WebSocketStream;
use tokio_tungstenite::tungstenite::Message as WsMessage;
use tokio_tungstenite::tungstenite::protocol::Role;

/// How many of the bytes the client pipelined with the upgrade were "already read"
/// by the embedder's HTTP stack and are handed to `adopt_upgraded_partially_read`
/// as `buffered` (the rest arrives on the stream).
#[derive(Clone, Copy, Debug, PartialEq, Eq, PartialOrd, Ord)]
pub(crate) enum Prefix {
    /// nothing (empty `buffered`)
    K0,
    /// the first byte of the first WebSocket frame
    K1,
    /// the two-byte WebSocket header of the first frame (without mask and payload)
    K2,
    /// exactly the first WebSocket frame
    Frame1,
    /// the first frame and the first half of the second one
    Frame1Half2,
}
pub(crate) const PREFIXES: [Prefix; 5] = [Prefix::K0, Prefix::K1, Prefix::K2, Prefix::Frame1, Prefix::Frame1Half2];

#[derive(Clone, Debug)]
pub(crate) struct MemScenario {
    /// `Some`: adopted through `adopt_upgraded_partially_read`
    pub prefix: Option<Prefix>,
    pub variant: Variant,
    pub conns: Vec<Cell>,
    /// all connections are children of ONE ShutdownToken (as an embedder's
    /// accept loop would do); otherwise each connection has its own
    pub shared_token: bool,
    /// end the connections in reverse order of acceptance
    pub reverse_end: bool,
    /// the parked handlers sit behind a query-rewriting middleware (`World::rewrite`)
    pub rewrite: bool,
    /// outbound queue of one message (`World::outbound1`)
    pub outbound1: bool,
}

impl MemScenario {
    pub(crate) fn to_json(&self) -> Value {
        json!({
            "kind": "mem",
            "adopt": if self.prefix.is_some() { "adopt_upgraded_partially_read" } else { "adopt_upgraded" },
            "prefix": self.prefix.map(|p| format!("{p:?}")),
            "variant": format!("{:?}", self.variant),
            "conns": self.conns.iter().map(cell_json).collect::<Vec<_>>(),
            "shared_token": self.shared_token,
            "reverse_end": self.reverse_end,
            "rewriting_middleware": self.rewrite,
            "outbound_capacity_1": self.outbound1,
        })
    }
    pub(crate) fn from_json(v: &Value) -> Result<MemScenario, String> {
        let prefix = match v.get("prefix").and_then(|p| p.as_str()) {
            None => None,
            Some(p) => Some(PREFIXES.iter().copied().find(|x| format!("{x:?}") == p).ok_or("prefix")?),
        };
        Ok(MemScenario {
            prefix,
            variant: variant_from_json(&v["variant"])?,
            conns: v["conns"].as_array().ok_or("conns")?.iter().map(cell_from_json).collect::<Result<Vec<_>, _>>()?,
            shared_token: v["shared_token"].as_bool().unwrap_or(false),
            reverse_end: v["reverse_end"].as_bool().unwrap_or(false),
            rewrite: v["rewriting_middleware"].as_bool().unwrap_or(false),
            outbound1: v["outbound_capacity_1"].as_bool().unwrap_or(false),
        })
    }
}

/// Next message of a raw client, waiting at most `wait` (real time).
pub(crate) async fn next_msg<S: AsyncRead + AsyncWrite + Unpin>(ws: &mut WebSocketStream<S>, wait: Duration) -> Got {
    loop {
        match tokio::time::timeout(wait, ws.next()).await {
            Err(_) => return Got::Nothing,
            Ok(None) => return Got::End("stream ended".into()),
            Ok(Some(Err(e))) => return Got::End(e.to_string()),
            Ok(Some(Ok(WsMessage::Binary(b)))) => {
                return match crate::frames::parse_one(&b) {
                    Ok(Some((f, n))) if n == b.len() => Got::Frame(f),
                    _ => Got::BadBinary(b),
                };
            }
            Ok(Some(Ok(WsMessage::Text(t)))) => return Got::Text(t),
            Ok(Some(Ok(WsMessage::Close(_)))) => return Got::Close,
            Ok(Some(Ok(_))) => continue,
        }
    }
}

pub(crate) fn request(id: u64, path: &str, n: u64) -> WsMessage {
    WsMessage::Binary(Frame::request(id, path, format!("{{\"n\":{n}}}").as_bytes(), 2, false).to_bytes())
}

/// A request whose body carries `pad` filler bytes (a frame of a few hundred bytes).
pub(crate) fn padded_request(id: u64, path: &str, n: u64, pad: usize) -> WsMessage {
    WsMessage::Binary(Frame::request(id, path, format!("{{\"n\":{n},\"pad\":\"{}\"}}", "x".repeat(pad)).as_bytes(), 2, false).to_bytes())
}

/// The frame the client sends for a client-side exit cause (None: not a frame).
pub(crate) fn cause_frame(cause: Cause) -> Option<WsMessage> {
    match cause {
        Cause::Close => Some(WsMessage::Close(None)),
        Cause::Text => Some(WsMessage::Text("this transport is binary".into())),
        Cause::BadHdr => {
            let mut f = Frame::request(90, "/probe", b"{}", 2, false).to_bytes();
            f[8] ^= 0xFF; // wrong magic
            Some(WsMessage::Binary(f))
        }
        Cause::Trailing => {
            let mut f = Frame::request(91, "/probe", b"{\"n\":91}", 2, false).to_bytes();
            f.push(0);
            Some(WsMessage::Binary(f))
        }
        Cause::InlinePanic => Some(request(60, "/panic_inline", 60)),
        Cause::OffPanic => Some(request(70, "/panic_off", 70)),
        _ => None,
    }
}

pub(crate) struct MemConn {
    pub(crate) idx: usize,
    pub(crate) client: Option<WebSocketStream<End>>,
    pub(crate) ctl: Ctl,
    pub(crate) token: Option<ShutdownToken>,
    pub(crate) abort: Arc<Mutex<Option<AbortHandle>>>,
    pub(crate) thread: Option<std::thread::JoinHandle<()>>,
    pub(crate) wire: Vec<Got>,
    pub(crate) read_done: bool,
    /// rows of c15_ext.rs: the connection was taken beyond its phase by the caller (gates may have been
    /// opened already), so `finish` does not measure the phase facts, and does not fire the cause at a
    /// connection that is already over
    pub(crate) ext: bool,
    /// rows of c15_ext.rs: the exit cause is a request sent to a connection whose writer is dead
    pub(crate) end_by_request: bool,
}

fn handshake_for(alias: &str) -> HandshakeContext {
    let req = http::Request::builder()
        .uri(format!("/repe?alias={alias}"))
        .header("Host", "verif.mem")
        .header("X-Alias", alias)
        .body(())
        .expect("request");
    HandshakeContext::from_http_request(&req)
}

pub(crate) struct Run<'a> {
    pub(crate) w: &'a Arc<World>,
    pub(crate) shared: &'a SharedWebSocketServer,
    pub(crate) sc: &'a MemScenario,
    pub(crate) out: &'a mut Outcome,
    pub(crate) shared_token: Option<ShutdownToken>,
    /// one cancel ends every connection: all `Ending` markers are logged up front
    pub(crate) shared_end: bool,
}

impl Run<'_> {
    pub(crate) fn stuck(&mut self, idx: usize, what: &str) {
        let p = &self.w.plans[idx];
        self.out.stuck.push(format!("{what} [conn {idx} {:?}/{:?} {:?}]", p.cause, p.phase, self.sc.variant));
    }

    async fn start(&mut self, idx: usize) -> MemConn {
        let plan = &self.w.plans[idx];
        let (server_end, client_end, ctl) = memstream::pair();
        if plan.phase == Phase::Outbound {
            ctl.a_to_b.set_credit(Some(0)); // the peer does not read
        }
        let variant = self.sc.variant;
        let token = if variant.has_token() {
            Some(match &self.shared_token {
                Some(t) => t.clone(),
                None => ShutdownToken::new(),
            })
        } else {
            None
        };
        // The raw client exists before the server side is polled for the first
        // time, and pipelines its first request(s) with the upgrade (legal, and the
        // case in which a response could overtake the connect hooks' notifies).
        let mut client = WebSocketStream::from_raw_socket(client_end, Role::Client, None).await;
        // (partially-read rows: at least two frames, so that the prefix can end inside the
        // second one; while the connect hook is parked they are Pings, which no handler sees)
        let partial = self.sc.prefix;
        let pipelined: Vec<WsMessage> = match (plan.phase, partial.is_some()) {
            // (preceded by a request the reader rejects by itself — unknown path, no handler runs: its error
            // response is a response like any other and must not overtake the connect hooks' notifies either)
            (Phase::Idle | Phase::Inline | Phase::Off, false) => vec![request(6, "/no/such/method", 6), request(1, "/probe", 1)],
            (Phase::Idle | Phase::Inline | Phase::Off, true) => vec![request(1, "/probe", 1), padded_request(5, "/probe", 5, 200)],
            (Phase::Outbound, _) => vec![request(6, "/no/such/method", 6), request(10, "/probe", 10), request(11, "/probe", 11), request(12, "/probe", 12)],
            (Phase::Connect, false) => vec![],
            (Phase::Connect, true) => vec![WsMessage::Ping(b"c15-first".to_vec()), WsMessage::Ping(b"c15-second".to_vec())],
        };
        // byte offset on the client->server pipe after each pipelined frame
        let mut marks: Vec<usize> = Vec::new();
        for m in pipelined {
            if let Err(e) = client.send(m).await {
                self.stuck(idx, &format!("pipelined request could not be written: {e}"));
            }
            marks.push(ctl.b_to_a.written_total() as usize);
        }
        // what the embedder's HTTP stack "already read" past the upgrade request
        let buffered: Option<Vec<u8>> = match partial {
            None => None,
            Some(p) => {
                let all = ctl.b_to_a.take();
                let f1 = marks.first().copied().unwrap_or(0);
                let f2 = marks.get(1).copied().unwrap_or(f1);
                let k = match p {
                    Prefix::K0 => 0,
                    Prefix::K1 => 1,
                    Prefix::K2 => 2,
                    Prefix::Frame1 => f1,
                    Prefix::Frame1Half2 => f1 + ((f2 - f1) / 2).max(1),
                };
                if marks.len() < 2 || marks.last().copied() != Some(all.len()) || k > all.len() || (p == Prefix::Frame1Half2 && k >= f2) {
                    self.stuck(idx, &format!("pipelined bytes do not have the expected layout: marks {marks:?}, {} bytes on the pipe, k={k}", all.len()));
                }
                let k = k.min(all.len());
                ctl.b_to_a.push(&all[k..]);
                self.out.counters.partial_adoptions += 1;
                self.out.counters.partial_bytes_handed_over += k as u64;
                self.out.counters.partial_bytes_left_on_stream += (all.len() - k) as u64;
                bump(&mut self.out.counters.partial_prefix, format!("{p:?}"));
                if k > 0 && k != f1 {
                    self.out.counters.partial_prefix_ends_inside_a_frame += 1;
                }
                Some(all[..k].to_vec())
            }
        };
        if plan.cause == Cause::ConnPanic1 {
            self.w.push(Ev::Ending { conn: idx });
        }
        self.w.set_starting(Some(idx));
        let abort: Arc<Mutex<Option<AbortHandle>>> = Arc::new(Mutex::new(None));
        let thread = {
            let w = self.w.clone();
            let shared = self.shared.clone();
            let abort = abort.clone();
            let token = token.clone();
            let hs = handshake_for(&plan.alias);
            std::thread::Builder::new()
                .name(format!("c15-conn-{idx}"))
                .spawn(move || {
                    let rt = tokio::runtime::Builder::new_current_thread().enable_time().build().expect("runtime");
                    let res = rt.block_on(async {
                        let ws = match buffered {
                            None => shared.adopt_upgraded(server_end).await,
                            Some(b) => shared.adopt_upgraded_partially_read(server_end, b).await,
                        };
                        let h = tokio::spawn(async move {
                            match variant {
                                Variant::Plain => shared.serve_connection(ws).await,
                                Variant::Handshake => shared.serve_connection_with_handshake(ws, hs).await,
                                Variant::Cancel => shared.serve_connection_with_cancel(ws, token.as_ref().expect("token")).await,
                                Variant::CancelHandshake => shared.serve_connection_with_cancel_and_handshake(ws, hs, token.as_ref().expect("token")).await,
                            }
                        });
                        *abort.lock().unwrap() = Some(h.abort_handle());
                        h.await
                    });
                    let outcome = match res {
                        Ok(Ok(())) => "ok",
                        Ok(Err(_)) => "err",
                        Err(e) if e.is_panic() => "panicked",
                        Err(_) => "aborted",
                    };
                    w.push(Ev::Served { conn: idx, outcome });
                    // "absent afterwards": sampled as soon as the serving future is over
                    w.sample_after(idx);
                    drop(rt); // waits for this connection's parked off-reader handlers
                    w.push(Ev::Gone { conn: idx });
                })
                .expect("thread")
        };
        MemConn { idx, client: Some(client), ctl, token, abort, thread: Some(thread), wire: Vec::new(), read_done: false, ext: false, end_by_request: false }
    }

    pub(crate) async fn send(&mut self, c: &mut MemConn, m: WsMessage) {
        let r = match c.client.as_mut() {
            Some(cl) => cl.send(m).await.map_err(|e| e.to_string()),
            None => Err("client already dropped".into()),
        };
        if let Err(e) = r {
            self.stuck(c.idx, &format!("client send failed: {e}"));
        }
    }

    /// Read until the response with `id` arrived (everything read is kept in wire order).
    async fn read_until_response(&mut self, c: &mut MemConn, id: u64) -> bool {
        if c.wire.iter().any(|g| matches!(g, Got::Frame(f) if f.h.notify == 0 && f.h.id == id)) {
            return true;
        }
        loop {
            let Some(cl) = c.client.as_mut() else { return false };
            let g = next_msg(cl, WATCHDOG).await;
            let done = matches!(&g, Got::Frame(f) if f.h.notify == 0 && f.h.id == id);
            let over = matches!(&g, Got::Nothing | Got::End(_));
            if !matches!(g, Got::Nothing) {
                c.wire.push(g);
            }
            if done {
                return true;
            }
            if over {
                c.read_done = true;
                return false;
            }
        }
    }

    /// Accept connection `idx` and bring it to its phase.
    pub(crate) async fn bring(&mut self, idx: usize) -> MemConn {
        let mut c = self.start(idx).await;
        let w = self.w.clone();
        let plan = &w.plans[idx];
        let last_connect_hook = self.sc.variant.has_handshake();
        // connections are accepted one at a time: wait for the first connect hook
        if !w.wait(WATCHDOG, |l| l.iter().any(|e| matches!(e, Ev::C1 { conn, .. } if *conn == idx))) {
            self.stuck(idx, "first connect hook never ran");
            return c;
        }
        if plan.phase == Phase::Connect {
            if plan.cause != Cause::ConnPanic1 && !w.wait(WATCHDOG, |l| l.iter().any(|e| matches!(e, Ev::C2Parked { conn } if *conn == idx))) {
                self.stuck(idx, "second connect hook never parked");
            }
            return c;
        }
        let connected = w.wait(WATCHDOG, |l| {
            l.iter().any(|e| match e {
                Ev::H { conn, .. } => *conn == idx && last_connect_hook,
                Ev::C2 { conn, .. } => *conn == idx && !last_connect_hook,
                _ => false,
            })
        });
        if !connected {
            self.stuck(idx, "connect hooks did not complete");
            return c;
        }
        match plan.phase {
            Phase::Idle | Phase::Inline | Phase::Off => {
                // (request 1 was pipelined before the server started)
                if !self.read_until_response(&mut c, 1).await {
                    self.stuck(idx, "no response to the first request");
                    return c;
                }
                // (partially-read rows pipelined a second request; it is answered before
                // the connection is taken further, so nothing of it races the exit cause)
                if self.sc.prefix.is_some() && !self.read_until_response(&mut c, 5).await {
                    self.stuck(idx, "no response to the second pipelined request");
                    return c;
                }
                if plan.phase == Phase::Inline {
                    self.send(&mut c, request(2, &w.park_path("/park_inline"), 2)).await;
                    if !w.wait(WATCHDOG, |l| l.iter().any(|e| matches!(e, Ev::ParkedInline { conn } if *conn == idx))) {
                        self.stuck(idx, "inline handler never parked");
                    }
                }
                if plan.phase == Phase::Off {
                    self.send(&mut c, request(3, &w.park_path("/park_off"), 3)).await;
                    if !w.wait(WATCHDOG, |l| l.iter().any(|e| matches!(e, Ev::ParkedOff { conn } if *conn == idx))) {
                        self.stuck(idx, "off-reader handler never parked");
                    }
                }
            }
            Phase::Outbound => {
                // (requests 10..12 were pipelined before the server started)
                if w.outbound1 {
                    // the queue holds one message: the serving task parks on it long before the third request
                    if !w.wait(WATCHDOG, |l| l.iter().any(|e| matches!(e, Ev::Probe { conn, .. } if *conn == idx))) {
                        self.stuck(idx, "no queued request was handled");
                    }
                    for _ in 0..20 {
                        tokio::task::yield_now().await;
                        std::thread::yield_now();
                    }
                } else if !w.wait(WATCHDOG, |l| l.iter().filter(|e| matches!(e, Ev::Probe { conn, .. } if *conn == idx)).count() >= 3) {
                    self.stuck(idx, "the three queued requests were not handled");
                }
                // the writer task must have hit the zero write credit
                let t0 = std::time::Instant::now();
                while c.ctl.a_to_b.stalls() == 0 && t0.elapsed() < WATCHDOG {
                    tokio::task::yield_now().await;
                    std::thread::yield_now();
                }
                if c.ctl.a_to_b.stalls() == 0 {
                    self.stuck(idx, "writer never stalled on the zero write credit");
                }
            }
            Phase::Connect => unreachable!(),
        }
        c
    }

    /// Fire the exit cause of connection `c` and see it through to the end.
    pub(crate) async fn finish(&mut self, c: &mut MemConn) {
        let idx = c.idx;
        let w = self.w.clone();
        let plan = &w.plans[idx];
        let cause = plan.cause;
        // ---- measured phase facts at the moment the cause fires
        let already_over = w.has(|e| matches!(e, Ev::Served { conn, .. } if *conn == idx));
        if !already_over && !c.ext {
            match plan.phase {
                Phase::Inline => {
                    if w.has(|e| matches!(e, Ev::ParkedInline { conn } if *conn == idx)) && plan.inline_gate.await_waiting(1) {
                        self.out.counters.inline_parked_at_trigger += 1;
                    }
                }
                Phase::Outbound => {
                    if c.ctl.a_to_b.written_total() == 0 && c.ctl.a_to_b.writer_is_stalled() {
                        self.out.counters.queue_nonempty_at_exit += 1;
                    }
                }
                Phase::Connect => {
                    if w.has(|e| matches!(e, Ev::C2Parked { conn } if *conn == idx)) && plan.hook_gate.await_waiting(1) {
                        self.out.counters.hook_parked_at_trigger += 1;
                    }
                }
                _ => {}
            }
        }
        // ---- the cause
        if cause != Cause::OffPanic && cause != Cause::ConnPanic1 && !self.shared_end {
            w.push(Ev::Ending { conn: idx });
        }
        let panics_before = w.count(|e| matches!(e, Ev::Error { kind: "handler-panic" }));
        match cause {
            // (rows of c15_ext.rs) the server may have torn the faulted connection down by itself
            _ if c.ext && already_over => {}
            // (rows of c15_ext.rs) a request whose response cannot be queued: the reader ends the connection
            _ if c.end_by_request => {
                self.send(c, request(80, "/probe", 80)).await;
            }
            Cause::Close | Cause::Text | Cause::BadHdr | Cause::Trailing | Cause::OffPanic => {
                self.send(c, super::mem::cause_frame(cause).expect("frame")).await;
            }
            Cause::InlinePanic => {
                if plan.phase == Phase::Inline {
                    plan.wake_panics.store(true, Ordering::SeqCst);
                } else {
                    self.send(c, cause_frame(cause).expect("frame")).await;
                }
            }
            Cause::Drop => {
                c.client = None; // drops the client end: EOF + broken pipe for the server
            }
            Cause::Cut => {
                c.ctl.b_to_a.fail_reader(std::io::ErrorKind::ConnectionReset);
                c.ctl.a_to_b.fail_writer(std::io::ErrorKind::BrokenPipe);
            }
            Cause::Cancel | Cause::Drain => match &c.token {
                Some(t) => t.cancel(),
                None => self.stuck(idx, "no token"),
            },
            Cause::Abort => match c.abort.lock().unwrap().as_ref() {
                Some(a) => a.abort(),
                None => self.out.stuck.push(format!("abort handle missing [conn {idx}]")),
            },
            Cause::ConnPanic1 | Cause::ConnPanic2 | Cause::ConnPanicH => {}
        }
        // ---- let the connection make progress
        if plan.phase == Phase::Inline {
            plan.inline_gate.open();
        }
        if plan.phase == Phase::Connect {
            plan.hook_gate.open();
        }
        // ---- cause-specific follow-up
        match cause {
            Cause::OffPanic => {
                // the panic must have happened and been reported before survival is probed
                let seen = w.wait(WATCHDOG, |l| {
                    l.iter().any(|e| matches!(e, Ev::Served { conn, .. } if *conn == idx))
                        || (l.iter().any(|e| matches!(e, Ev::OffPanicking { conn } if *conn == idx))
                            && l.iter().filter(|e| matches!(e, Ev::Error { kind: "handler-panic" })).count() > panics_before)
                });
                if !seen {
                    self.stuck(idx, "off-reader panic was never reported");
                }
                if !w.has(|e| matches!(e, Ev::Served { conn, .. } if *conn == idx)) {
                    self.send(c, request(71, "/probe", 71)).await;
                    let ok = w.wait(WATCHDOG, |l| {
                        l.iter().any(|e| matches!(e, Ev::Probe { conn, n: 71, .. } if *conn == idx) || matches!(e, Ev::Served { conn, .. } if *conn == idx))
                    });
                    if !ok {
                        self.stuck(idx, "request after the off-reader panic neither served nor connection ended");
                    }
                    if plan.phase != Phase::Outbound && w.has(|e| matches!(e, Ev::Probe { conn, n: 71, .. } if *conn == idx)) {
                        // both answers (the panic's error response comes from the
                        // blocking thread) must be on the wire before the Close
                        self.read_until_response(c, 71).await;
                        self.read_until_response(c, 70).await;
                    }
                }
                w.push(Ev::Ending { conn: idx });
                if !w.has(|e| matches!(e, Ev::Served { conn, .. } if *conn == idx)) {
                    self.send(c, WsMessage::Close(None)).await;
                }
            }
            Cause::Drain => {
                // the drain deadline: abort whatever is still running. A connection
                // whose peer reads drains by itself (the abort is then a no-op); one
                // whose writer is blocked has run its hooks and hangs in the writer
                // drain, which is where the abort lands.
                if plan.phase == Phase::Outbound {
                    w.wait(SHORT_WATCHDOG, |l| l.iter().any(|e| matches!(e, Ev::D2 { conn, .. } | Ev::Served { conn, .. } if *conn == idx)));
                } else {
                    w.wait(WATCHDOG, |l| l.iter().any(|e| matches!(e, Ev::Served { conn, .. } if *conn == idx)));
                }
                if let Some(a) = c.abort.lock().unwrap().as_ref() {
                    a.abort();
                }
            }
            _ => {}
        }
        if plan.phase == Phase::Outbound {
            // hooks must fire while the queue is still blocked; then let the writer go
            w.wait(SHORT_WATCHDOG, |l| l.iter().any(|e| matches!(e, Ev::D2 { conn, .. } | Ev::Served { conn, .. } if *conn == idx)));
            w.push(Ev::PeerReadsAgain { conn: idx });
            c.ctl.a_to_b.set_credit(None);
        }
        if !w.wait(WATCHDOG, |l| l.iter().any(|e| matches!(e, Ev::After { conn, .. } if *conn == idx))) {
            self.stuck(idx, "serving future never finished");
            // unblock whatever may still be parked so the thread can be joined
            plan.off_gate.open();
            plan.inline_gate.open();
            plan.hook_gate.open();
            c.client = None;
            return;
        }
        // ---- handlers that outlived the connection poll their flag now
        if w.has(|e| matches!(e, Ev::ParkedOff { conn } if *conn == idx)) {
            plan.off_gate.open();
            if !w.wait(WATCHDOG, |l| l.iter().any(|e| matches!(e, Ev::WokeOff { conn, .. } if *conn == idx))) {
                self.stuck(idx, "parked off-reader handler never woke");
            }
        }
        if !w.wait(WATCHDOG, |l| l.iter().any(|e| matches!(e, Ev::Gone { conn } if *conn == idx))) {
            self.stuck(idx, "connection runtime never shut down");
        }
        // ---- whatever is still on the wire (the server end is gone: EOF follows)
        if !c.read_done {
            while let Some(cl) = c.client.as_mut() {
                let g = next_msg(cl, WATCHDOG).await;
                let over = matches!(&g, Got::Nothing | Got::End(_));
                if matches!(g, Got::Nothing) {
                    self.stuck(idx, "client never saw the end of the stream");
                } else {
                    c.wire.push(g);
                }
                if over {
                    break;
                }
            }
        }
    }
}

pub(crate) fn run(sc: &MemScenario) -> Outcome {
    let mut out = Outcome::default();
    let n = sc.conns.len();
    let plans: Vec<Plan> = sc.conns.iter().enumerate().map(|(i, c)| Plan::new(i, c.cause, c.phase)).collect();
    let w = if sc.rewrite {
        World::new_rewriting(plans)
    } else if sc.outbound1 {
        World::new_outbound1(plans)
    } else {
        World::new(plans)
    };
    let shared = build_server(&w).into_shared();
    out.counters.scenarios += 1;
    out.counters.connections += n as u64;
    let via = match sc.prefix {
        None => format!("mem:{:?}", sc.variant),
        Some(_) => format!("mem:adopt_upgraded_partially_read:{:?}", sc.variant),
    };
    for c in &sc.conns {
        bump(&mut out.counters.cells, format!("{:?}x{:?}", c.cause, c.phase));
        bump(&mut out.counters.via, via.clone());
    }
    let shared_end = sc.shared_token && sc.conns.iter().any(|c| matches!(c.cause, Cause::Cancel | Cause::Drain));
    let rt = tokio::runtime::Builder::new_current_thread().enable_time().build().expect("runtime");
    let mut conns: Vec<MemConn> = Vec::new();
    {
        let mut run = Run { w: &w, shared: &shared, sc, out: &mut out, shared_token: sc.shared_token.then(ShutdownToken::new), shared_end };
        rt.block_on(async {
            for i in 0..n {
                let c = run.bring(i).await;
                conns.push(c);
            }
            let order: Vec<usize> = if sc.reverse_end { (0..n).rev().collect() } else { (0..n).collect() };
            if shared_end {
                for i in 0..n {
                    w.push(Ev::Ending { conn: i });
                }
            }
            for i in order {
                let mut c = std::mem::replace(&mut conns[i], placeholder(i));
                run.finish(&mut c).await;
                conns[i] = c;
            }
        });
    }
    for c in conns.iter_mut() {
        if let Some(t) = c.thread.take() {
            // only join threads that reported completion; a stuck one is left behind
            if w.has(|e| matches!(e, Ev::Gone { conn } if *conn == c.idx)) {
                let _ = t.join();
            }
        }
    }
    let facts: Vec<ConnFacts> = sc
        .conns
        .iter()
        .zip(conns.iter())
        .map(|(cell, c)| ConnFacts {
            cause: cell.cause,
            phase: cell.phase,
            accepted: true,
            has_handshake: sc.variant.has_handshake(),
            wire: c.wire.clone(),
            via: format!("{via}{}", if sc.shared_token { "+shared-token" } else { "" }),
        })
        .collect();
    evaluate(&w, &facts, shared_end, &mut out);
    out
}

pub(crate) fn placeholder(idx: usize) -> MemConn {
    let (_a, _b, ctl) = memstream::pair();
    MemConn { idx, client: None, ctl, token: None, abort: Arc::new(Mutex::new(None)), thread: None, wire: Vec::new(), read_done: true, ext: false, end_by_request: false }
}
