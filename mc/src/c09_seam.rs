//! C09, narrow seam: producers (value / typed / complex / reader / writer), the
//! harness gates, and the session driver that talks to the real `/_svs/open`,
//! `/_svs/next`, `/_svs/cancel` handlers obtained from `Router::get` (real
//! producer thread, real bounded channel, no sockets).

use super::{Case, Gate, Kind, Pat, Script};
use repe::server::HandlerErased;
use repe::value_stream::{Compression, RouterValueStreamExt, StreamOpts};
use repe::{BodyFormat, Complex, Message, QueryFormat, Router};
use serde::{Deserialize, Serialize};
use std::io::{self, Read, Write};
use std::sync::mpsc::{Receiver, Sender, channel};
use std::sync::{Arc, Mutex};
use std::time::{Duration, Instant};

// ---------------------------------------------------------------------------
// payloads (the producer's logical bytes are computed independently of the
// chunking engine: raw bytes for reader/writer, beve's Vec encoders for the
// bulk arrays, the streaming serializer into a plain Vec for the serde value)
// ---------------------------------------------------------------------------

pub fn byte_at(i: usize) -> u8 {
    (((i as u32).wrapping_mul(2_654_435_761)) >> 24) as u8 ^ (i as u8).rotate_left(3)
}

pub fn raw_bytes(n: usize) -> Vec<u8> {
    (0..n).map(byte_at).collect()
}

/// payload bytes of a salted resource (salt 0 = `raw_bytes`): resources that
/// differ in their salt have different contents, so a chunk delivered to the
/// wrong stream is visible in the bytes and not only in the lengths
pub fn raw_bytes_s(n: usize, salt: usize) -> Vec<u8> {
    (0..n).map(|i| byte_at(i + salt * 7919)).collect()
}

#[derive(Serialize, Deserialize, Clone, PartialEq, Debug)]
pub struct Val {
    pub id: u32,
    pub text: String,
    pub nums: Vec<u16>,
}

pub fn val_for(m: usize) -> Val {
    val_for_s(m, 0)
}

pub fn val_for_s(m: usize, salt: usize) -> Val {
    let o = salt * 7919;
    Val {
        id: 0xC090_0000u32.wrapping_add(m as u32).wrapping_add((salt as u32) << 16),
        text: (0..m).map(|i| (b'a' + byte_at(i + o) % 26) as char).collect(),
        nums: (0..m % 5).map(|i| (i * 257 + m + salt * 31) as u16).collect(),
    }
}

pub fn typed_for(m: usize) -> Vec<u8> {
    raw_bytes(m)
}

pub fn typed_for_s(m: usize, salt: usize) -> Vec<u8> {
    raw_bytes_s(m, salt)
}

pub fn complex_for(m: usize) -> Vec<Complex<i8>> {
    complex_for_s(m, 0)
}

pub fn complex_for_s(m: usize, salt: usize) -> Vec<Complex<i8>> {
    let o = salt * 7919;
    (0..m)
        .map(|i| Complex { re: byte_at(2 * i + o) as i8, im: byte_at(2 * i + 1 + o) as i8 })
        .collect()
}

/// The producer's complete logical byte stream for (kind, m).
pub fn logical(kind: Kind, m: usize) -> Vec<u8> {
    logical_s(kind, m, 0)
}

pub fn logical_s(kind: Kind, m: usize, salt: usize) -> Vec<u8> {
    match kind {
        Kind::Value => {
            let mut v = Vec::new();
            beve::to_writer_streaming(&mut v, &val_for_s(m, salt)).expect("encode value");
            v
        }
        Kind::Typed => beve::to_vec_typed_slice(&typed_for_s(m, salt)),
        Kind::Complex => beve::to_vec_complex_slice(&complex_for_s(m, salt)),
        Kind::Reader | Kind::Writer => raw_bytes_s(m, salt),
    }
}

/// Write sizes of a reader/writer producer for payload length `n`.
pub fn pieces(pat: Pat, n: usize, c: usize) -> Vec<usize> {
    let mut out = Vec::new();
    if n == 0 {
        return out;
    }
    match pat {
        Pat::Natural | Pat::Single => out.push(n),
        Pat::AllOne => out.resize(n, 1),
        Pat::AllC => {
            let mut left = n;
            while left > 0 {
                let k = left.min(c);
                out.push(k);
                left -= k;
            }
        }
        Pat::Alt => {
            let mut left = n;
            let mut lo = true;
            while left > 0 {
                let want = if lo { c.saturating_sub(1).max(1) } else { c + 1 };
                let k = left.min(want);
                out.push(k);
                left -= k;
                lo = !lo;
            }
        }
        Pat::Comp(bits) => {
            // bit i set = a cut after byte i+1
            let mut cur = 0usize;
            for i in 0..n {
                cur += 1;
                let cut = i + 1 == n || (i < 31 && bits & (1 << i) != 0);
                if cut {
                    out.push(cur);
                    cur = 0;
                }
            }
        }
    }
    out
}

// ---------------------------------------------------------------------------
// resource string <-> producer spec (so one router can serve many payloads)
// ---------------------------------------------------------------------------

#[derive(Clone, Copy, Debug)]
pub struct Spec {
    pub m: usize,
    pub pat: Pat,
    pub fail_at: Option<usize>,
    /// the failure is a panic of the producer thread instead of an `Err`
    pub panic: bool,
    /// content salt (optional trailing resource field `s<k>`; 0 when absent)
    pub salt: usize,
}

pub fn resource_of(m: usize, pat: Pat, fail_at: Option<usize>, panic: bool) -> String {
    let p = match pat {
        Pat::Natural => "nat".to_string(),
        Pat::Single => "single".to_string(),
        Pat::AllOne => "one".to_string(),
        Pat::AllC => "allc".to_string(),
        Pat::Alt => "alt".to_string(),
        Pat::Comp(b) => format!("c{b}"),
    };
    match fail_at {
        Some(f) if panic => format!("{m}:{p}:p{f}"),
        Some(f) => format!("{m}:{p}:{f}"),
        None => format!("{m}:{p}:-"),
    }
}

pub fn parse_resource(s: &str) -> Option<Spec> {
    let mut it = s.split(':');
    let m = it.next()?.parse().ok()?;
    let p = it.next()?;
    let f = it.next()?;
    let pat = match p {
        "nat" => Pat::Natural,
        "single" => Pat::Single,
        "one" => Pat::AllOne,
        "allc" => Pat::AllC,
        "alt" => Pat::Alt,
        _ => Pat::Comp(p.strip_prefix('c')?.parse().ok()?),
    };
    let (panic, f) = match f.strip_prefix('p') {
        Some(rest) => (true, rest),
        None => (false, f),
    };
    let fail_at = if f == "-" { None } else { Some(f.parse().ok()?) };
    let salt = it.filter_map(|x| x.strip_prefix('s').and_then(|k| k.parse::<usize>().ok())).next().unwrap_or(0);
    Some(Spec { m, pat, fail_at, panic, salt })
}

// ---------------------------------------------------------------------------
// gates: the producer waits for a permit before every write and before it
// returns, and reports its progress; the harness owns both channels
// ---------------------------------------------------------------------------

#[derive(Clone, Copy, Debug, PartialEq, Eq)]
pub enum Ev {
    Begin(u32),
    End(u32),
    Returning,
}

/// producer side
pub struct Hooks {
    permits: Receiver<()>,
    events: Sender<Ev>,
}

impl Hooks {
    pub fn gate(&self) {
        // a closed permit channel is an open gate
        let _ = self.permits.recv();
    }
    pub fn ev(&self, e: Ev) {
        let _ = self.events.send(e);
    }
}

/// harness side
pub struct Harness {
    permits: Option<Sender<()>>,
    events: Receiver<Ev>,
    pub max_begin: i64,
    pub max_end: i64,
    pub returning: bool,
    pub waits_ok: bool,
}

pub fn gate_pair() -> (Hooks, Harness) {
    let (ptx, prx) = channel();
    let (etx, erx) = channel();
    (
        Hooks { permits: prx, events: etx },
        Harness { permits: Some(ptx), events: erx, max_begin: -1, max_end: -1, returning: false, waits_ok: true },
    )
}

const EVENT_WAIT: Duration = Duration::from_secs(3);

impl Harness {
    pub fn open_all(&mut self) {
        self.permits = None;
    }
    pub fn release_one(&mut self) {
        if let Some(p) = &self.permits {
            let _ = p.send(());
        }
    }
    fn absorb(&mut self, e: Ev) {
        match e {
            Ev::Begin(i) => self.max_begin = self.max_begin.max(i as i64),
            Ev::End(i) => self.max_end = self.max_end.max(i as i64),
            Ev::Returning => self.returning = true,
        }
    }
    pub fn drain(&mut self) {
        while let Ok(e) = self.events.try_recv() {
            self.absorb(e);
        }
    }
    /// Wait for a *predicted positive* producer event. A miss only disables
    /// further waiting (the prediction rests on the channel-depth policy, which
    /// the property does not state); it is never a verdict.
    pub fn wait_until(&mut self, pred: impl Fn(&Harness) -> bool) -> bool {
        if !self.waits_ok {
            return false;
        }
        let t0 = Instant::now();
        loop {
            if pred(self) {
                return true;
            }
            let left = EVENT_WAIT.checked_sub(t0.elapsed()).unwrap_or(Duration::ZERO);
            match self.events.recv_timeout(left) {
                Ok(e) => self.absorb(e),
                Err(_) => {
                    if pred(self) {
                        return true;
                    }
                    self.waits_ok = false;
                    return false;
                }
            }
        }
    }
}

pub fn write_pattern(w: &mut dyn Write, s: Spec, c: usize, h: Option<Hooks>) -> io::Result<()> {
    let data = raw_bytes_s(s.m, s.salt);
    let limit = s.fail_at.unwrap_or(s.m).min(s.m);
    let ps = pieces(s.pat, s.m, c);
    let mut off = 0usize;
    for (i, &sz) in ps.iter().enumerate() {
        if off >= limit && s.fail_at.is_some() {
            break;
        }
        let end = (off + sz).min(limit);
        if let Some(h) = &h {
            h.gate();
            h.ev(Ev::Begin(i as u32));
        }
        w.write_all(&data[off..end])?;
        if let Some(h) = &h {
            h.ev(Ev::End(i as u32));
        }
        off = end;
    }
    if let Some(h) = &h {
        h.gate();
        h.ev(Ev::Returning);
    }
    if s.fail_at.is_some() {
        if s.panic {
            panic!("injected producer panic");
        }
        Err(io::Error::other("injected producer failure"))
    } else {
        Ok(())
    }
}

pub struct PatReader {
    data: Vec<u8>,
    ps: Vec<usize>,
    idx: usize,
    left: usize,
    off: usize,
    limit: usize,
    fail: bool,
    panic: bool,
    hooks: Option<Hooks>,
    begun: Option<u32>,
    returned: bool,
}

impl PatReader {
    pub fn new(s: Spec, c: usize, hooks: Option<Hooks>) -> Self {
        PatReader {
            data: raw_bytes_s(s.m, s.salt),
            ps: pieces(s.pat, s.m, c),
            idx: 0,
            left: 0,
            off: 0,
            limit: s.fail_at.unwrap_or(s.m).min(s.m),
            fail: s.fail_at.is_some(),
            panic: s.panic,
            hooks,
            begun: None,
            returned: false,
        }
    }
}

impl Read for PatReader {
    fn read(&mut self, buf: &mut [u8]) -> io::Result<usize> {
        if buf.is_empty() {
            return Ok(0);
        }
        // the previous piece has been written completely once we are asked again
        if let (Some(h), Some(i)) = (&self.hooks, self.begun.take()) {
            h.ev(Ev::End(i));
        }
        let mut fresh = false;
        while self.left == 0 && self.idx < self.ps.len() {
            self.left = self.ps[self.idx];
            self.idx += 1;
            fresh = true;
        }
        if self.off >= self.limit || self.left == 0 {
            if !self.returned {
                if let Some(h) = &self.hooks {
                    h.gate();
                    h.ev(Ev::Returning);
                }
                self.returned = true;
            }
            if self.fail && self.panic {
                panic!("injected producer panic");
            }
            return if self.fail { Err(io::Error::other("injected producer failure")) } else { Ok(0) };
        }
        if fresh {
            if let Some(h) = &self.hooks {
                h.gate();
                h.ev(Ev::Begin((self.idx - 1) as u32));
                self.begun = Some((self.idx - 1) as u32);
            }
        }
        let k = self.left.min(buf.len()).min(self.limit - self.off);
        buf[..k].copy_from_slice(&self.data[self.off..self.off + k]);
        self.off += k;
        self.left -= k;
        if self.off >= self.limit {
            self.left = 0;
            self.idx = self.ps.len();
        }
        Ok(k)
    }
}

/// zstd level used by every producer of this run (quick: 1, thorough: 3; the
/// level is not part of the property and only changes the encoder's footprint)
pub static ZSTD_LEVEL: std::sync::atomic::AtomicI32 = std::sync::atomic::AtomicI32::new(1);

pub type BoxedWriter = Box<dyn FnOnce(&mut dyn Write) -> io::Result<()> + Send>;

/// A router carrying one SVS producer of `kind`; the resource string selects
/// the payload. `hooks` (if any) is handed to the first reader/writer opened.
pub fn make_router(kind: Kind, c: usize, depth: usize, zstd: bool, hooks: Option<Hooks>) -> Router {
    let opts = StreamOpts {
        chunk_bytes: c,
        compression: if zstd { Compression::Zstd } else { Compression::None },
        zstd_level: ZSTD_LEVEL.load(std::sync::atomic::Ordering::Relaxed),
        session_depth: depth,
    };
    let hooks = Arc::new(Mutex::new(hooks));
    match kind {
        Kind::Value => Router::new().with_value_stream(move |r: &str| parse_resource(r).map(|s| val_for_s(s.m, s.salt)), opts),
        Kind::Typed => {
            Router::new().with_typed_value_stream(move |r: &str| parse_resource(r).map(|s| typed_for_s(s.m, s.salt)), opts)
        }
        Kind::Complex => {
            Router::new().with_complex_value_stream(move |r: &str| parse_resource(r).map(|s| complex_for_s(s.m, s.salt)), opts)
        }
        Kind::Reader => Router::new().with_reader_stream(
            move |r: &str| parse_resource(r).map(|s| PatReader::new(s, c, hooks.lock().unwrap().take())),
            opts,
        ),
        Kind::Writer => Router::new().with_writer_stream(
            BodyFormat::RawBinary,
            move |r: &str| {
                parse_resource(r).map(|s| {
                    let h = hooks.lock().unwrap().take();
                    let b: BoxedWriter = Box::new(move |w: &mut dyn Write| write_pattern(w, s, c, h));
                    b
                })
            },
            opts,
        ),
    }
}

// ---------------------------------------------------------------------------
// wire bodies (own definitions; field names are the SVS contract)
// ---------------------------------------------------------------------------

#[derive(Serialize)]
pub struct OpenReq<'a> {
    pub resource: &'a str,
}
#[derive(Deserialize, Debug)]
pub struct OpenResp {
    pub version: u8,
    pub stream_id: u64,
    pub format: u16,
    pub compression: u8,
}
#[derive(Serialize)]
pub struct NextReq {
    pub stream_id: u64,
}
#[derive(Serialize)]
pub struct CancelReq<'a> {
    pub stream_id: u64,
    pub reason: &'a str,
}

pub fn request(id: u64, path: &str, body: Vec<u8>) -> Message {
    Message::builder()
        .id(id)
        .query_format(QueryFormat::JsonPointer)
        .query_str(path)
        .body_format(BodyFormat::Beve)
        .body_bytes(body)
        .build()
}

#[derive(Debug, Clone)]
pub enum Resp {
    Chunk { body: Vec<u8>, last: bool },
    Error(String),
    Malformed(String),
    Panic(String),
}

pub fn classify_message(m: Message) -> Resp {
    if m.is_error() {
        return Resp::Error(format!("ec={} {}", m.header.ec, String::from_utf8_lossy(&m.body)));
    }
    if m.query.len() == 1 && m.query[0] <= 1 {
        let last = m.query[0] == 1;
        Resp::Chunk { body: m.body, last }
    } else {
        Resp::Malformed(format!("next response without a 1-byte 0/1 flag: query={:?}", m.query))
    }
}

pub fn raw_call(h: &Arc<dyn HandlerErased>, msg: &Message) -> Resp {
    match std::panic::catch_unwind(std::panic::AssertUnwindSafe(|| h.handle(msg))) {
        Ok(Ok(m)) => classify_message(m),
        Ok(Err(e)) => Resp::Error(format!("handler Err: {e}")),
        Err(p) => {
            let s = p
                .downcast_ref::<&str>()
                .map(|s| s.to_string())
                .or_else(|| p.downcast_ref::<String>().cloned())
                .unwrap_or_else(|| "panic".into());
            Resp::Panic(s)
        }
    }
}

fn gettid() -> i64 {
    unsafe { libc::syscall(libc::SYS_gettid) as i64 }
}

fn thread_state(tid: i64) -> Option<char> {
    let s = std::fs::read_to_string(format!("/proc/self/task/{tid}/stat")).ok()?;
    let r = s.rfind(')')?;
    s[r + 1..].trim_start().chars().next()
}

// ---------------------------------------------------------------------------
// session driver
// ---------------------------------------------------------------------------

#[derive(Default, Debug, Clone)]
pub struct Stats {
    pub exchanges: u64,
    pub chunks: u64,
    pub wire_len: usize,
    pub emitted_len: usize,
    pub producer_parked: u32,
    pub consumer_parked_obs: u32,
    pub consumer_parked_unobs: u32,
    pub size_dev: bool,
    pub prediction_failed: bool,
    pub depth_exceeded: bool,
    pub ended_last: bool,
    pub ended_error: bool,
    pub past_end_probes: u32,
    pub error_text: String,
}

#[derive(Default)]
pub struct Out {
    pub viols: Vec<(String, String)>,
    pub machinery: Option<String>,
    pub st: Stats,
    /// (body length, 0 = chunk / 1 = last chunk / 2 = error / 3 = other)
    pub trace: Vec<(usize, u8)>,
}

struct Driver {
    next_h: Arc<dyn HandlerErased>,
    cancel_h: Arc<dyn HandlerErased>,
    sid: u64,
    msg_id: u64,
    harness: Option<Harness>,
    gate: Gate,
    depth: usize,
    k_full: usize,
    n_pieces: usize,
    k_chunks: usize,
    recvd: usize,
    released: usize,
    calls: usize,
    st: Stats,
    trace: Vec<(usize, u8)>,
}

impl Driver {
    fn next_msg(&mut self, sid: u64) -> Message {
        self.msg_id += 1;
        request(self.msg_id, "/_svs/next", beve::to_vec(&NextReq { stream_id: sid }).unwrap())
    }

    fn record(&mut self, r: &Resp) {
        self.st.exchanges += 1;
        match r {
            Resp::Chunk { body, last } => self.trace.push((body.len(), *last as u8)),
            Resp::Error(_) => self.trace.push((0, 2)),
            _ => self.trace.push((0, 3)),
        }
    }

    fn inline_next(&mut self, sid: u64) -> Resp {
        let m = self.next_msg(sid);
        let r = raw_call(&self.next_h, &m);
        self.record(&r);
        r
    }

    fn cancel(&mut self, sid: u64) -> Resp {
        self.msg_id += 1;
        let m = request(
            self.msg_id,
            "/_svs/cancel",
            beve::to_vec(&CancelReq { stream_id: sid, reason: "verif" }).unwrap(),
        );
        self.st.exchanges += 1;
        match std::panic::catch_unwind(std::panic::AssertUnwindSafe(|| self.cancel_h.handle(&m))) {
            Ok(Ok(m)) if m.is_error() => Resp::Error(String::from_utf8_lossy(&m.body).into_owned()),
            Ok(Ok(m)) => Resp::Chunk { body: m.body, last: false },
            Ok(Err(e)) => Resp::Error(e.to_string()),
            Err(_) => Resp::Panic("cancel handler panicked".into()),
        }
    }

    /// Issue `next` on a helper thread and wait until that thread is observed
    /// sleeping (parked in the handler's `recv`) or has finished.
    fn start_threaded(&mut self) -> std::thread::JoinHandle<Resp> {
        let m = self.next_msg(self.sid);
        let h = self.next_h.clone();
        let (ttx, trx) = channel();
        let jh = std::thread::spawn(move || {
            let _ = ttx.send(gettid());
            raw_call(&h, &m)
        });
        let mut seen = false;
        if let Ok(tid) = trx.recv() {
            let t0 = Instant::now();
            loop {
                if jh.is_finished() {
                    break;
                }
                if thread_state(tid) == Some('S') {
                    seen = true;
                    break;
                }
                if t0.elapsed() > Duration::from_secs(2) {
                    break;
                }
                // polling for a positive event; the pause only keeps the
                // poller from starving the thread it is waiting for
                std::thread::sleep(Duration::from_micros(50));
            }
        }
        if seen {
            self.st.consumer_parked_obs += 1;
        } else {
            self.st.consumer_parked_unobs += 1;
        }
        jh
    }

    fn finish_threaded(&mut self, jh: std::thread::JoinHandle<Resp>) -> Resp {
        let r = jh.join().unwrap_or_else(|_| Resp::Panic("puller thread panicked".into()));
        self.record(&r);
        r
    }

    /// One `next` on the live stream, under the session's gate discipline.
    fn pull(&mut self) -> Resp {
        let j = self.calls;
        self.calls += 1;
        let r = match self.gate {
            Gate::Free => self.inline_next(self.sid),
            Gate::Hold => {
                if j == 0 {
                    let jh = self.start_threaded();
                    if let Some(h) = self.harness.as_mut() {
                        h.open_all();
                    }
                    self.finish_threaded(jh)
                } else {
                    self.inline_next(self.sid)
                }
            }
            Gate::Ahead => {
                self.ahead_wait();
                self.inline_next(self.sid)
            }
            Gate::Sched { bits, .. } => self.sched_pull(j, bits),
        };
        if let Resp::Chunk { .. } = r {
            self.recvd += if j == 0 { 2 } else { 1 };
        }
        r
    }

    /// Producer maximally ahead: before pulling, wait until the producer has
    /// completed every send the channel depth admits and has entered the
    /// write whose send must park (or has finished writing).
    fn ahead_wait(&mut self) {
        let target = self.k_full.min(self.recvd + self.depth);
        let k_full = self.k_full;
        let Some(h) = self.harness.as_mut() else { return };
        let mut ok = true;
        if target > 0 {
            ok &= h.wait_until(|h| h.max_end >= target as i64 - 1);
        }
        if target < k_full {
            ok &= h.wait_until(|h| h.max_begin >= target as i64);
            if ok {
                self.st.producer_parked += 1;
                h.drain();
                if h.max_end >= target as i64 {
                    // the send that should have parked completed without a pull
                    self.st.depth_exceeded = true;
                }
            }
        } else {
            ok &= h.wait_until(|h| h.returning);
        }
        if !ok {
            self.st.prediction_failed = true;
        }
    }

    /// bits: one per gate point (pieces, then "return"); true = consumer first.
    fn sched_pull(&mut self, j: usize, bits: u32) -> Resp {
        let total_msgs = self.k_chunks + 1;
        let last_msg = (if j == 0 { 1 } else { j + 1 }).min(total_msgs - 1);
        let need = if last_msg < self.k_full { last_msg } else { self.n_pieces };
        let consumer_first = |g: usize| bits & (1 << g) != 0;
        while self.released <= need && !consumer_first(self.released) {
            let g = self.released;
            let np = self.n_pieces;
            // the producer reaches gate g only after the sends of all earlier
            // full pieces have completed, which the channel depth may forbid
            // until we pull; wait for the positive event only when it is due
            let reachable = g.min(self.k_full) <= self.recvd + self.depth;
            if let Some(h) = self.harness.as_mut() {
                h.release_one();
                if reachable {
                    let ok = if g < np { h.wait_until(|h| h.max_begin >= g as i64) } else { h.wait_until(|h| h.returning) };
                    if !ok {
                        self.st.prediction_failed = true;
                    }
                }
            }
            self.released += 1;
        }
        if self.released <= need {
            let jh = self.start_threaded();
            while self.released <= need {
                if let Some(h) = self.harness.as_mut() {
                    h.release_one();
                }
                self.released += 1;
            }
            self.finish_threaded(jh)
        } else {
            self.inline_next(self.sid)
        }
    }
}

pub fn first_diff(a: &[u8], b: &[u8]) -> usize {
    a.iter().zip(b).position(|(x, y)| x != y).unwrap_or(a.len().min(b.len()))
}

pub fn zstd_partial(wire: &[u8]) -> Vec<u8> {
    let mut out = Vec::new();
    if let Ok(mut d) = zstd::stream::read::Decoder::new(wire) {
        let mut buf = [0u8; 4096];
        loop {
            match d.read(&mut buf) {
                Ok(0) | Err(_) => break,
                Ok(k) => out.extend_from_slice(&buf[..k]),
            }
        }
    }
    out
}

/// Execute one session against the real handlers and evaluate every oracle clause.
pub fn run_session(case: &Case) -> Out {
    let mut out = Out::default();
    let c = case.c as usize;
    let m = case.m as usize;
    let comp = if case.zstd { "zstd" } else { "none" };
    let full = logical(case.kind, m);
    let fail_at = case.fail_at.map(|f| (f as usize).min(full.len()));
    let emitted: &[u8] = match fail_at {
        Some(f) => &full[..f],
        None => &full[..],
    };
    out.st.emitted_len = emitted.len();

    let (hooks, harness) = match case.gate {
        Gate::Free => (None, None),
        _ => {
            let (h, hs) = gate_pair();
            (Some(h), Some(hs))
        }
    };
    let router = make_router(case.kind, c, case.depth as usize, case.zstd, hooks);
    let (Some(open_h), Some(next_h), Some(cancel_h)) =
        (router.get("/_svs/open"), router.get("/_svs/next"), router.get("/_svs/cancel"))
    else {
        out.machinery = Some("SVS routes not registered".into());
        return out;
    };

    // ---- open
    let resource = resource_of(m, case.pat, case.fail_at.map(|f| f as usize), case.panic);
    let open_msg = request(1, "/_svs/open", beve::to_vec(&OpenReq { resource: &resource }).unwrap());
    let open = match std::panic::catch_unwind(std::panic::AssertUnwindSafe(|| open_h.handle(&open_msg))) {
        Ok(Ok(msg)) if !msg.is_error() => match beve::from_slice::<OpenResp>(&msg.body) {
            Ok(o) => o,
            Err(e) => {
                out.machinery = Some(format!("open response does not decode: {e}"));
                return out;
            }
        },
        other => {
            out.machinery = Some(format!("open failed: {:?}", other.map(|r| r.map(|m| m.body_utf8()))));
            return out;
        }
    };
    out.st.exchanges += 1;
    if open.version != 1 || open.compression != case.zstd as u8 {
        out.machinery = Some(format!("open tags unexpected: {open:?}"));
        return out;
    }

    let n_pieces = pieces(case.pat, m, c).len();
    let mut d = Driver {
        next_h,
        cancel_h,
        sid: open.stream_id,
        msg_id: 1,
        harness,
        gate: case.gate,
        depth: case.depth as usize,
        k_full: emitted.len() / c,
        n_pieces,
        k_chunks: emitted.len().div_ceil(c),
        recvd: 0,
        released: 0,
        calls: 0,
        st: std::mem::take(&mut out.st),
        trace: Vec::new(),
    };
    if let (Gate::Ahead, Some(h)) = (case.gate, d.harness.as_mut()) {
        h.open_all();
    }

    let wire_upper = full.len() + full.len() / 64 + 512;
    let bound = wire_upper + 64;
    let unknown = open.stream_id.wrapping_add(1000);

    let mut wire: Vec<u8> = Vec::new();
    let mut viols: Vec<(String, String)> = Vec::new();
    let mut v = |k: &str, what: String| {
        let key = format!("C09:seam:{k}:{comp}");
        if !viols.iter().any(|(kk, _)| *kk == key) {
            viols.push((key, what));
        }
    };
    let mut lasts = 0usize;
    let mut ended_last = false;
    let mut ended_error = false;
    let mut cancelled = false;
    let mut responses = 0usize;
    let cancel_after = match case.script {
        Script::CancelAfter(k) => Some(k as usize),
        _ => None,
    };

    // ---- unknown stream id before the first pull
    if let Script::UnknownId = case.script {
        match d.inline_next(unknown) {
            Resp::Error(_) => {}
            Resp::Panic(p) => v("panic", format!("next(unknown id) panicked: {p}")),
            r => v("unknown-id-not-error", format!("next on a stream id that was never opened answered {r:?}")),
        }
        if let Resp::Panic(p) = d.cancel(unknown) {
            v("panic", format!("cancel(unknown id) panicked: {p}"));
        }
    }

    // ---- pull
    loop {
        if let Some(k) = cancel_after {
            if responses >= k {
                break;
            }
        }
        if responses >= bound {
            break;
        }
        let r = d.pull();
        responses += 1;
        match r {
            Resp::Chunk { body, last } => {
                d.st.chunks += 1;
                if !last && body.len() != c {
                    d.st.size_dev = true;
                }
                wire.extend_from_slice(&body);
                if last {
                    lasts += 1;
                    ended_last = true;
                    break;
                }
            }
            Resp::Error(e) => {
                ended_error = true;
                d.st.error_text = e;
                break;
            }
            Resp::Malformed(s) => {
                v("malformed-response", s);
                break;
            }
            Resp::Panic(p) => {
                v("panic", format!("next handler panicked: {p}"));
                break;
            }
        }
        if let (Script::UnknownId, 1) = (case.script, responses) {
            match d.inline_next(unknown) {
                Resp::Error(_) => {}
                r => v("unknown-id-not-error", format!("next on an unknown stream id mid-stream answered {r:?}")),
            }
            let _ = d.cancel(unknown);
        }
    }
    // gates must never outlive the pull loop
    if let Some(h) = d.harness.as_mut() {
        h.open_all();
    }

    // ---- cancel script
    if cancel_after.is_some() {
        if let Resp::Panic(p) = d.cancel(d.sid) {
            v("panic", format!("cancel handler panicked: {p}"));
        }
        cancelled = true;
    }

    // ---- verdicts on what was pulled
    let ended = ended_last || ended_error;
    if fail_at.is_some() {
        if lasts > 0 {
            v(
                "failure-as-end-marker",
                format!(
                    "producer failed after {} of {} bytes but a chunk carried the end marker (pulled {} bytes in {} chunks)",
                    emitted.len(), full.len(), wire.len(), d.st.chunks
                ),
            );
        } else if !ended && !cancelled {
            v("failure-never-surfaced", format!("no error after {responses} next calls"));
        }
        let got = if case.zstd { zstd_partial(&wire) } else { wire.clone() };
        if !emitted.starts_with(&got) {
            v(
                "failure-content-not-prefix",
                format!(
                    "bytes pulled before the failure are not a prefix of the {} emitted bytes (first difference at {})",
                    emitted.len(), first_diff(&got, emitted)
                ),
            );
        }
    } else if ended_error {
        v("spurious-error", format!("healthy producer, but next #{responses} answered an error: {}", d.st.error_text));
    } else if ended_last {
        if case.zstd {
            match zstd::stream::decode_all(&wire[..]) {
                Ok(b) if b == emitted => {}
                Ok(b) => v(
                    "content-mismatch",
                    format!("decompressed {} bytes != producer's {} logical bytes (first difference at {})", b.len(), emitted.len(), first_diff(&b, emitted)),
                ),
                Err(e) => {
                    let part = zstd_partial(&wire);
                    if emitted.starts_with(&part) && part.len() < emitted.len() {
                        v(
                            "end-marker-before-all-bytes",
                            format!("end marker after {} wire bytes; the zstd frame is incomplete ({e}); {} of {} logical bytes recoverable", wire.len(), part.len(), emitted.len()),
                        );
                    } else {
                        v("content-mismatch", format!("pulled {} wire bytes do not decompress: {e}", wire.len()));
                    }
                }
            }
        } else if wire != emitted {
            if emitted.starts_with(&wire) {
                v(
                    "end-marker-before-all-bytes",
                    format!("end marker after {} of the producer's {} bytes: the tail was lost", wire.len(), emitted.len()),
                );
            } else {
                v(
                    "content-mismatch",
                    format!("pulled {} bytes != producer's {} bytes (first difference at {})", wire.len(), emitted.len(), first_diff(&wire, emitted)),
                );
            }
        }
        if !case.zstd && emitted.is_empty() && !(d.st.chunks == 1 && wire.is_empty()) {
            v("empty-payload", format!("empty payload answered with {} chunks / {} bytes instead of one empty final chunk", d.st.chunks, wire.len()));
        }
    } else if !cancelled {
        v("no-end-marker", format!("{responses} next calls and {} bytes without an end marker or an error", wire.len()));
    } else {
        // cancelled mid-stream: what was pulled so far must be a prefix
        let got = if case.zstd { zstd_partial(&wire) } else { wire.clone() };
        if !emitted.starts_with(&got) {
            v("content-mismatch", format!("bytes pulled before cancel are not a prefix (first difference at {})", first_diff(&got, emitted)));
        }
    }

    // ---- pulling past the end / after release must be an error
    let probes = if ended || cancelled { 2 } else { 0 };
    for i in 0..probes {
        d.st.past_end_probes += 1;
        match d.inline_next(d.sid) {
            Resp::Error(_) => {}
            Resp::Panic(p) => v("panic", format!("next after release panicked: {p}")),
            Resp::Chunk { body, last } => {
                let when = if cancelled {
                    "next-after-cancel-not-error"
                } else if ended_error {
                    "next-after-failure-not-error"
                } else {
                    "past-end-not-error"
                };
                if last {
                    lasts += 1;
                }
                v(
                    when,
                    format!("probe {i}: a released stream answered a chunk of {} bytes (last={last}); end markers seen so far: {lasts}", body.len()),
                );
            }
            Resp::Malformed(s) => v("malformed-response", s),
        }
    }
    if !ended && !cancelled {
        // release a producer that may still be parked
        let _ = d.cancel(d.sid);
    }

    if let Some(h) = &d.harness {
        if !h.waits_ok {
            d.st.prediction_failed = true;
        }
    }
    d.st.wire_len = wire.len();
    d.st.ended_last = ended_last;
    d.st.ended_error = ended_error;
    out.st = d.st;
    out.trace = d.trace;
    out.viols = viols;
    out
}
