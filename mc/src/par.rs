//! Parallel partitioning of an indexed scenario space over worker threads.
//! Work is handed out in index order (blocks claimed from an atomic cursor),
//! so "first violation" is stable up to block granularity and every index in
//! 0..n is executed exactly once.

use std::sync::atomic::{AtomicU64, Ordering};

pub fn workers() -> usize {
    std::env::var("VERIF_JOBS")
        .ok()
        .and_then(|s| s.parse().ok())
        .unwrap_or_else(|| {
            std::thread::available_parallelism()
                .map(|n| n.get())
                .unwrap_or(4)
        })
        .max(1)
}

/// Run `f(worker_state, index)` for every index in `0..n`, with per-worker
/// state built by `init`. Returns the worker states for merging.
pub fn for_each_index<S, I, F>(n: u64, block: u64, init: I, f: F) -> Vec<S>
where
    S: Send,
    I: Fn(usize) -> S + Sync,
    F: Fn(&mut S, u64) + Sync,
{
    let cursor = AtomicU64::new(0);
    let nw = workers().min(((n / block.max(1)) + 1) as usize).max(1);
    let mut out = Vec::new();
    std::thread::scope(|scope| {
        let mut hs = Vec::new();
        for w in 0..nw {
            let cursor = &cursor;
            let init = &init;
            let f = &f;
            hs.push(scope.spawn(move || {
                let mut st = init(w);
                loop {
                    let start = cursor.fetch_add(block, Ordering::Relaxed);
                    if start >= n {
                        break;
                    }
                    let end = (start + block).min(n);
                    for i in start..end {
                        f(&mut st, i);
                    }
                }
                st
            }));
        }
        for h in hs {
            match h.join() {
                Ok(s) => out.push(s),
                Err(e) => std::panic::resume_unwind(e),
            }
        }
    });
    out
}

/// Decode index `i` into digits over radix `base`, least significant first,
/// exactly `len` digits.
pub fn digits(mut i: u64, base: u64, len: usize, out: &mut Vec<u8>) {
    out.clear();
    for _ in 0..len {
        out.push((i % base) as u8);
        i /= base;
    }
}

pub fn pow(base: u64, exp: u32) -> u64 {
    base.checked_pow(exp).expect("scenario space overflows u64")
}
