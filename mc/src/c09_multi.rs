//! C09, multi-stream sessions on ONE router (narrow seam): 2 and 3 streams open
//! at the same time on one `Router` (one `SessionTable`), their `next` calls
//! interleaved in every order, one extra event inserted at every position, and
//! sequential reuse of one router (stream 1 ends / is cancelled / fails, then
//! stream 2 and 3 are opened and pulled, the old ids probed at every position).
//!
//! A scenario is an explicit list of operations on the real handlers obtained
//! from `Router::get("/_svs/open|next|cancel")`, executed inline on one thread
//! (every stream has its own real producer thread and bounded channel). The
//! oracle is `seam::run_session`'s, evaluated per stream id: see `run_scenario`.
//!
//! A fourth family gates the WRITES of two concurrently producing sessions
//! (writer producers, 1-byte writes) and enumerates every order of the two
//! producers' writes, so that the chunk assembly of concurrent sessions is
//! interleaved deterministically at byte granularity.

use super::seam::{self, CancelReq, NextReq, OpenReq, OpenResp, Resp};
use super::{KIND_NAMES, KINDS, Kind, Pat, kind_idx, pat_from, pat_json};
use crate::ctx::Tier;
use repe::server::HandlerErased;
use repe::value_stream::{Compression, RouterValueStreamExt, StreamOpts};
use repe::{BodyFormat, Message, QueryFormat, Router};
use serde_json::{Value, json};
use std::collections::BTreeMap;
use std::io::{self, Write};
use std::sync::atomic::Ordering;
use std::sync::{Arc, Mutex};

// ---------------------------------------------------------------------------
// configuration, stream specs, operations
// ---------------------------------------------------------------------------

#[derive(Clone, Copy, Debug, PartialEq, Eq)]
pub struct Cfg {
    /// one `with_writer_stream` registration whose closure serves every
    /// producer body shape (serde value, typed array, complex array, reader
    /// copy, pattern writer), selected by the resource
    pub mixed: bool,
    /// the registration's producer kind (ignored when `mixed`)
    pub kind: Kind,
    pub c: u32,
    pub depth: u8,
    pub zstd: bool,
}

#[derive(Clone, Copy, Debug, PartialEq, Eq)]
pub struct SSpec {
    pub kind: Kind,
    pub m: u32,
    pub pat: Pat,
    pub fail_at: Option<u32>,
    pub panic: bool,
    /// content salt: different resources of one scenario carry different salts,
    /// so their bytes differ from the first byte on
    pub salt: u8,
}

#[derive(Clone, Copy, Debug, PartialEq, Eq)]
pub enum Op {
    Open(u8),
    Next(u8),
    /// (slot, notify form)
    Cancel(u8, bool),
    NextUnknown,
    CancelUnknown(bool),
}

#[derive(Clone, Copy, Debug, PartialEq, Eq, PartialOrd, Ord)]
pub enum Fam {
    Pair,
    Triple,
    Seq,
    Gated,
}

impl Fam {
    pub fn name(self) -> &'static str {
        match self {
            Fam::Pair => "pair",
            Fam::Triple => "triple",
            Fam::Seq => "sequential-reuse",
            Fam::Gated => "gated-writes",
        }
    }
    fn parse(s: &str) -> Option<Fam> {
        [Fam::Pair, Fam::Triple, Fam::Seq, Fam::Gated].into_iter().find(|f| f.name() == s)
    }
}

pub const EVENTS: [&str; 9] = [
    "none",
    "cancel-request",
    "cancel-notify",
    "next-past-the-end",
    "next-unknown-id",
    "cancel-unknown-id",
    "open-late-same-resource",
    "next-old-id",
    "cancel-old-id",
];

#[derive(Clone, Debug)]
pub struct Scenario {
    pub cfg: Cfg,
    pub fam: Fam,
    /// slot -> producer spec (a slot is live only once an `Open(slot)` ran)
    pub streams: Vec<SSpec>,
    pub ops: Vec<Op>,
    /// index into EVENTS: the extra event this scenario inserts
    pub event: usize,
    /// per slot: the (length, flag) sequence the same resource answered when it
    /// was pulled alone on a fresh router (empty = not measured)
    pub solo_shape: Vec<Vec<(usize, u8)>>,
    /// gated-writes family: the order in which the two producers' writes are
    /// released (one entry per write, the value is the slot)
    pub write_order: Vec<u8>,
}

fn tag(k: Kind) -> &'static str {
    match k {
        Kind::Value => "v",
        Kind::Typed => "t",
        Kind::Complex => "x",
        Kind::Reader => "r",
        Kind::Writer => "w",
    }
}

fn kind_of_tag(t: &str) -> Option<Kind> {
    KINDS.into_iter().find(|k| tag(*k) == t)
}

pub fn resource(cfg: &Cfg, s: &SSpec) -> String {
    let base = seam::resource_of(s.m as usize, s.pat, s.fail_at.map(|f| f as usize), s.panic);
    let base = if cfg.mixed { format!("{base}:{}", tag(s.kind)) } else { base };
    if s.salt > 0 { format!("{base}:s{}", s.salt) } else { base }
}

fn opts(cfg: &Cfg) -> StreamOpts {
    StreamOpts {
        chunk_bytes: cfg.c as usize,
        compression: if cfg.zstd { Compression::Zstd } else { Compression::None },
        zstd_level: seam::ZSTD_LEVEL.load(Ordering::Relaxed),
        session_depth: cfg.depth as usize,
    }
}

fn other(e: impl ToString) -> io::Error {
    io::Error::other(e.to_string())
}

/// One writer registration serving every body shape; the i-th opened stream
/// takes the i-th entry of `hooks` (gated-writes family), if any.
fn make_mixed_router(cfg: &Cfg, hooks: Vec<Option<seam::Hooks>>) -> Router {
    let c = cfg.c as usize;
    let mut hooks = hooks;
    hooks.reverse();
    let hooks = Arc::new(Mutex::new(hooks));
    Router::new().with_writer_stream(
        BodyFormat::RawBinary,
        move |r: &str| {
            let spec = seam::parse_resource(r)?;
            let kind = r.split(':').nth(3).and_then(kind_of_tag)?;
            let h = hooks.lock().unwrap().pop().flatten();
            let b: seam::BoxedWriter = match kind {
                Kind::Value => Box::new(move |w: &mut dyn Write| beve::to_writer_streaming(w, &seam::val_for_s(spec.m, spec.salt)).map_err(other)),
                Kind::Typed => Box::new(move |w: &mut dyn Write| beve::to_writer_typed_slice(w, &seam::typed_for_s(spec.m, spec.salt)).map_err(other)),
                Kind::Complex => {
                    Box::new(move |w: &mut dyn Write| beve::to_writer_complex_slice(w, &seam::complex_for_s(spec.m, spec.salt)).map_err(other))
                }
                Kind::Reader => Box::new(move |w: &mut dyn Write| {
                    let mut rd = seam::PatReader::new(spec, c, h);
                    io::copy(&mut rd, w).map(|_| ())
                }),
                Kind::Writer => Box::new(move |w: &mut dyn Write| seam::write_pattern(w, spec, c, h)),
            };
            Some(b)
        },
        opts(cfg),
    )
}

fn make_router(cfg: &Cfg, hooks: Vec<Option<seam::Hooks>>) -> Router {
    if cfg.mixed {
        make_mixed_router(cfg, hooks)
    } else {
        seam::make_router(cfg.kind, cfg.c as usize, cfg.depth as usize, cfg.zstd, None)
    }
}

// ---------------------------------------------------------------------------
// JSON
// ---------------------------------------------------------------------------

fn spec_json(s: &SSpec) -> Value {
    json!({
        "kind": KIND_NAMES[kind_idx(s.kind)], "m": s.m, "pattern": pat_json(s.pat),
        "fail_at": s.fail_at, "fail_mode": if s.panic { "panic" } else { "err" }, "salt": s.salt,
    })
}

fn spec_from(v: &Value) -> Option<SSpec> {
    let kind = KINDS[KIND_NAMES.iter().position(|n| Some(*n) == v.get("kind").and_then(|k| k.as_str()))?];
    Some(SSpec {
        kind,
        m: v.get("m")?.as_u64()? as u32,
        pat: pat_from(v.get("pattern")?)?,
        fail_at: v.get("fail_at").and_then(|f| f.as_u64()).map(|f| f as u32),
        panic: v.get("fail_mode").and_then(|f| f.as_str()) == Some("panic"),
        salt: v.get("salt").and_then(|f| f.as_u64()).unwrap_or(0) as u8,
    })
}

fn op_str(o: &Op) -> String {
    match o {
        Op::Open(s) => format!("open:{s}"),
        Op::Next(s) => format!("next:{s}"),
        Op::Cancel(s, n) => format!("cancel:{s}:{}", if *n { "notify" } else { "request" }),
        Op::NextUnknown => "next:unknown".into(),
        Op::CancelUnknown(n) => format!("cancel:unknown:{}", if *n { "notify" } else { "request" }),
    }
}

fn op_from(s: &str) -> Option<Op> {
    let p: Vec<&str> = s.split(':').collect();
    let notify = |i: usize| p.get(i).map(|f| *f == "notify");
    Some(match (p.first().copied()?, p.get(1).copied()?) {
        ("next", "unknown") => Op::NextUnknown,
        ("cancel", "unknown") => Op::CancelUnknown(notify(2)?),
        ("open", s) => Op::Open(s.parse().ok()?),
        ("next", s) => Op::Next(s.parse().ok()?),
        ("cancel", s) => Op::Cancel(s.parse().ok()?, notify(2)?),
        _ => return None,
    })
}

pub fn cfg_json(cfg: &Cfg) -> Value {
    json!({
        "registration": if cfg.mixed { "writer(mixed bodies)" } else { KIND_NAMES[kind_idx(cfg.kind)] },
        "mixed": cfg.mixed, "kind": KIND_NAMES[kind_idx(cfg.kind)],
        "chunk_bytes": cfg.c, "depth": cfg.depth, "zstd": cfg.zstd,
    })
}

pub fn scenario_json(sc: &Scenario) -> Value {
    json!({
        "layer": "multi",
        "family": sc.fam.name(),
        "router": cfg_json(&sc.cfg),
        "zstd_level": seam::ZSTD_LEVEL.load(Ordering::Relaxed),
        "streams": sc.streams.iter().map(spec_json).collect::<Vec<_>>(),
        "resources": sc.streams.iter().map(|s| resource(&sc.cfg, s)).collect::<Vec<_>>(),
        "ops": sc.ops.iter().map(op_str).collect::<Vec<_>>(),
        "event": EVENTS[sc.event],
        "write_order": sc.write_order,
    })
}

pub fn scenario_from(v: &Value) -> Option<Scenario> {
    let r = v.get("router")?;
    let kind = KINDS[KIND_NAMES.iter().position(|n| Some(*n) == r.get("kind").and_then(|k| k.as_str()))?];
    let cfg = Cfg {
        mixed: r.get("mixed")?.as_bool()?,
        kind,
        c: r.get("chunk_bytes")?.as_u64()? as u32,
        depth: r.get("depth")?.as_u64()? as u8,
        zstd: r.get("zstd")?.as_bool()?,
    };
    let streams = v.get("streams")?.as_array()?.iter().map(spec_from).collect::<Option<Vec<_>>>()?;
    let ops = v.get("ops")?.as_array()?.iter().map(|o| o.as_str().and_then(op_from)).collect::<Option<Vec<_>>>()?;
    let event = v.get("event").and_then(|e| e.as_str()).and_then(|e| EVENTS.iter().position(|x| *x == e)).unwrap_or(0);
    let write_order = v
        .get("write_order")
        .and_then(|w| w.as_array())
        .map(|a| a.iter().filter_map(|x| x.as_u64().map(|x| x as u8)).collect())
        .unwrap_or_default();
    Some(Scenario { cfg, fam: Fam::parse(v.get("family")?.as_str()?)?, streams, ops, event, solo_shape: Vec::new(), write_order })
}

// ---------------------------------------------------------------------------
// executor + oracle
// ---------------------------------------------------------------------------

#[derive(Default, Debug, Clone)]
pub struct MStats {
    pub exchanges: u64,
    pub opens: u64,
    pub chunks: u64,
    pub streams_ended: u64,
    pub streams_errored: u64,
    pub streams_cancelled_mid: u64,
    pub cancels_of_released: u64,
    pub after_cancel_probes: u64,
    pub past_end_probes: u64,
    pub after_failure_probes: u64,
    pub unknown_probes: u64,
    pub same_resource: bool,
    pub different_resources: bool,
    pub failing_while_other_ended: bool,
    pub open_while_other_live: bool,
    pub interleaved_switches: u64,
    pub partition_differs_from_solo: bool,
    pub max_live: u64,
    pub gated_writes_released: u64,
    pub gated_prediction_missed: bool,
}

#[derive(Default, Debug, Clone)]
pub struct SlotOut {
    /// `next` responses received while the stream was live (terminal included)
    pub responses: u32,
    pub terminal: bool,
    pub shape: Vec<(usize, u8)>,
}

#[derive(Default)]
pub struct MOut {
    pub viols: Vec<(String, String)>,
    pub machinery: Option<String>,
    pub st: MStats,
    pub slots: Vec<SlotOut>,
    pub trace: Vec<String>,
}

struct Slot {
    spec: SSpec,
    emitted: Vec<u8>,
    full_len: usize,
    sid: Option<u64>,
    wire: Vec<u8>,
    chunks: u32,
    lasts: u32,
    ended: bool,
    errored: bool,
    cancelled: bool,
    cancelled_mid: bool,
    responses: u32,
    shape: Vec<(usize, u8)>,
    err_text: String,
}

impl Slot {
    fn live(&self) -> bool {
        self.sid.is_some() && !self.ended && !self.errored && !self.cancelled
    }
}

fn message(id: u64, path: &str, body: Vec<u8>, notify: bool) -> Message {
    Message::builder()
        .id(id)
        .notify(notify)
        .query_format(QueryFormat::JsonPointer)
        .query_str(path)
        .body_format(BodyFormat::Beve)
        .body_bytes(body)
        .build()
}

struct Exec {
    open_h: Arc<dyn HandlerErased>,
    next_h: Arc<dyn HandlerErased>,
    cancel_h: Arc<dyn HandlerErased>,
    msg_id: u64,
    max_sid: u64,
    slots: Vec<Slot>,
    st: MStats,
    trace: Vec<String>,
    viols: Vec<(String, String)>,
    comp: &'static str,
    cfg: Cfg,
}

impl Exec {
    fn v(&mut self, k: &str, what: String) {
        let key = format!("C09:multi:{k}:{}", self.comp);
        if !self.viols.iter().any(|(kk, _)| *kk == key) {
            self.viols.push((key, what));
        }
    }

    fn desc(&self, s: usize) -> String {
        let sp = &self.slots[s].spec;
        format!("stream #{s} (id {:?}, resource '{}')", self.slots[s].sid, resource(&self.cfg, sp))
    }

    fn open(&mut self, s: usize) -> Result<(), String> {
        if self.slots.iter().any(|x| x.live()) {
            self.st.open_while_other_live = true;
        }
        self.msg_id += 1;
        let res = resource(&self.cfg, &self.slots[s].spec);
        let m = message(self.msg_id, "/_svs/open", beve::to_vec(&OpenReq { resource: &res }).unwrap(), false);
        let h = self.open_h.clone();
        let r = std::panic::catch_unwind(std::panic::AssertUnwindSafe(|| h.handle(&m)));
        self.st.exchanges += 1;
        self.st.opens += 1;
        let open: OpenResp = match r {
            Ok(Ok(msg)) if !msg.is_error() => beve::from_slice(&msg.body).map_err(|e| format!("open response does not decode: {e}"))?,
            Ok(Ok(msg)) => return Err(format!("open('{res}') answered an error: {}", msg.body_utf8())),
            Ok(Err(e)) => return Err(format!("open('{res}') failed: {e}")),
            Err(_) => {
                self.v("panic", format!("open('{res}') panicked"));
                return Err("open panicked".into());
            }
        };
        if open.version != 1 || open.compression != self.cfg.zstd as u8 {
            return Err(format!("open tags unexpected: {open:?}"));
        }
        self.max_sid = self.max_sid.max(open.stream_id);
        self.trace.push(format!("open#{s}->id{}", open.stream_id));
        let slot = &mut self.slots[s];
        *slot = Slot {
            spec: slot.spec,
            emitted: std::mem::take(&mut slot.emitted),
            full_len: slot.full_len,
            sid: Some(open.stream_id),
            wire: Vec::new(),
            chunks: 0,
            lasts: 0,
            ended: false,
            errored: false,
            cancelled: false,
            cancelled_mid: false,
            responses: 0,
            shape: Vec::new(),
            err_text: String::new(),
        };
        let live = self.slots.iter().filter(|x| x.live()).count() as u64;
        self.st.max_live = self.st.max_live.max(live);
        Ok(())
    }

    fn raw_next(&mut self, sid: u64) -> Resp {
        self.msg_id += 1;
        let m = message(self.msg_id, "/_svs/next", beve::to_vec(&NextReq { stream_id: sid }).unwrap(), false);
        self.st.exchanges += 1;
        seam::raw_call(&self.next_h, &m)
    }

    fn raw_cancel(&mut self, sid: u64, notify: bool) -> Resp {
        self.msg_id += 1;
        let m = message(self.msg_id, "/_svs/cancel", beve::to_vec(&CancelReq { stream_id: sid, reason: "verif" }).unwrap(), notify);
        self.st.exchanges += 1;
        let h = self.cancel_h.clone();
        match std::panic::catch_unwind(std::panic::AssertUnwindSafe(|| h.handle(&m))) {
            Ok(Ok(m)) if m.is_error() => Resp::Error(String::from_utf8_lossy(&m.body).into_owned()),
            Ok(Ok(m)) => Resp::Chunk { body: m.body, last: false },
            Ok(Err(e)) => Resp::Error(e.to_string()),
            Err(_) => Resp::Panic("cancel handler panicked".into()),
        }
    }

    fn unknown_id(&self) -> u64 {
        self.max_sid.wrapping_add(1000)
    }

    /// one `next` addressed to slot `s`, judged by the state of THAT stream
    fn next(&mut self, s: usize) {
        let Some(sid) = self.slots[s].sid else { return };
        let r = self.raw_next(sid);
        let was_live = self.slots[s].live();
        let tr = match &r {
            Resp::Chunk { body, last } => format!("next#{s}->chunk[{}]{}", body.len(), if *last { "+END" } else { "" }),
            Resp::Error(_) => format!("next#{s}->error"),
            Resp::Malformed(_) => format!("next#{s}->malformed"),
            Resp::Panic(_) => format!("next#{s}->panic"),
        };
        self.trace.push(tr);
        if was_live {
            self.slots[s].responses += 1;
            match r {
                Resp::Chunk { body, last } => {
                    self.st.chunks += 1;
                    let sl = &mut self.slots[s];
                    sl.chunks += 1;
                    sl.shape.push((body.len(), last as u8));
                    sl.wire.extend_from_slice(&body);
                    if last {
                        sl.lasts += 1;
                        sl.ended = true;
                        self.st.streams_ended += 1;
                    }
                }
                Resp::Error(e) => {
                    let sl = &mut self.slots[s];
                    sl.shape.push((0, 2));
                    sl.errored = true;
                    sl.err_text = e;
                    self.st.streams_errored += 1;
                }
                Resp::Malformed(m) => {
                    self.slots[s].errored = true;
                    self.v("malformed-response", format!("{}: {m}", self.desc(s)));
                }
                Resp::Panic(p) => {
                    self.slots[s].errored = true;
                    self.v("panic", format!("next for {} panicked: {p}", self.desc(s)));
                }
            }
            return;
        }
        // the stream was released before this call: it must answer an error
        let (key, why) = if self.slots[s].cancelled {
            self.st.after_cancel_probes += 1;
            ("next-after-cancel-not-error", "after its cancel")
        } else if self.slots[s].errored {
            self.st.after_failure_probes += 1;
            ("next-after-failure-not-error", "after its failure had surfaced")
        } else {
            self.st.past_end_probes += 1;
            ("past-end-not-error", "past its end marker")
        };
        match r {
            Resp::Error(_) => {}
            Resp::Panic(p) => self.v("panic", format!("next {why} for {} panicked: {p}", self.desc(s))),
            Resp::Malformed(m) => self.v("malformed-response", format!("next {why} for {}: {m}", self.desc(s))),
            Resp::Chunk { body, last } => {
                if last {
                    self.slots[s].lasts += 1;
                }
                let lasts = self.slots[s].lasts;
                self.v(
                    key,
                    format!("next {why} for {} answered a chunk of {} bytes (last={last}); end markers seen on this id: {lasts}", self.desc(s), body.len()),
                );
            }
        }
    }

    fn cancel(&mut self, s: usize, notify: bool) {
        let Some(sid) = self.slots[s].sid else { return };
        let r = self.raw_cancel(sid, notify);
        self.trace.push(format!("cancel#{s}({})->{}", if notify { "notify" } else { "request" }, match &r {
            Resp::Chunk { .. } => "ack",
            Resp::Error(_) => "error",
            _ => "panic",
        }));
        if let Resp::Panic(p) = r {
            self.v("panic", format!("cancel for {}: {p}", self.desc(s)));
        }
        if self.slots[s].live() {
            self.slots[s].cancelled_mid = true;
            self.st.streams_cancelled_mid += 1;
        } else {
            self.st.cancels_of_released += 1;
        }
        self.slots[s].cancelled = true;
    }

    fn run_op(&mut self, op: &Op) -> Result<(), String> {
        match *op {
            Op::Open(s) => self.open(s as usize)?,
            Op::Next(s) => self.next(s as usize),
            Op::Cancel(s, n) => self.cancel(s as usize, n),
            Op::NextUnknown => {
                let id = self.unknown_id();
                self.st.unknown_probes += 1;
                let r = self.raw_next(id);
                self.trace.push(format!("next?{id}->{}", if matches!(r, Resp::Error(_)) { "error" } else { "NOT-error" }));
                match r {
                    Resp::Error(_) => {}
                    Resp::Panic(p) => self.v("panic", format!("next(unknown id {id}) panicked: {p}")),
                    r => self.v("unknown-id-not-error", format!("next on stream id {id}, which was never opened, answered {r:?}")),
                }
            }
            Op::CancelUnknown(n) => {
                let id = self.unknown_id();
                let r = self.raw_cancel(id, n);
                self.trace.push(format!("cancel?{id}"));
                if let Resp::Panic(p) = r {
                    self.v("panic", format!("cancel(unknown id {id}): {p}"));
                }
            }
        }
        Ok(())
    }

    /// the per-stream clauses of `seam::run_session`, for slot `s`
    fn verdict(&mut self, s: usize, scheduled_nexts: u32) {
        let sl = &self.slots[s];
        if sl.sid.is_none() {
            return;
        }
        let zstd = self.cfg.zstd;
        let emitted = sl.emitted.clone();
        let wire = sl.wire.clone();
        let (lasts, ended, errored, cancelled, chunks, full_len) = (sl.lasts, sl.ended, sl.errored, sl.cancelled_mid, sl.chunks, sl.full_len);
        let err_text = sl.err_text.clone();
        let d = self.desc(s);
        if sl.spec.fail_at.is_some() {
            if lasts > 0 {
                self.v(
                    "failure-as-end-marker",
                    format!("{d}: the producer failed after {} of {full_len} bytes but a chunk carried the end marker (pulled {} bytes in {chunks} chunks)", emitted.len(), wire.len()),
                );
            } else if !errored && !cancelled {
                self.v("failure-never-surfaced", format!("{d}: no error after {scheduled_nexts} next calls"));
            }
            let got = if zstd { seam::zstd_partial(&wire) } else { wire.clone() };
            if !emitted.starts_with(&got) {
                self.v(
                    "failure-content-not-prefix",
                    format!("{d}: bytes pulled before the failure are not a prefix of the {} emitted bytes (first difference at {})", emitted.len(), seam::first_diff(&got, &emitted)),
                );
            }
        } else if errored {
            self.v("spurious-error", format!("{d}: healthy producer, but a next on the live stream answered an error: {err_text}"));
        } else if ended {
            if zstd {
                match zstd::stream::decode_all(&wire[..]) {
                    Ok(b) if b == emitted => {}
                    Ok(b) => self.v(
                        "content-mismatch",
                        format!("{d}: decompressed {} bytes != the producer's {} logical bytes (first difference at {})", b.len(), emitted.len(), seam::first_diff(&b, &emitted)),
                    ),
                    Err(e) => {
                        let part = seam::zstd_partial(&wire);
                        if emitted.starts_with(&part) && part.len() < emitted.len() {
                            self.v(
                                "end-marker-before-all-bytes",
                                format!("{d}: end marker after {} wire bytes; the zstd frame is incomplete ({e}); {} of {} logical bytes recoverable", wire.len(), part.len(), emitted.len()),
                            );
                        } else {
                            self.v("content-mismatch", format!("{d}: the {} pulled wire bytes do not decompress: {e}", wire.len()));
                        }
                    }
                }
            } else if wire != emitted {
                if emitted.starts_with(&wire) {
                    self.v("end-marker-before-all-bytes", format!("{d}: end marker after {} of the producer's {} bytes: the tail was lost", wire.len(), emitted.len()));
                } else {
                    self.v(
                        "content-mismatch",
                        format!("{d}: pulled {} bytes != the producer's {} bytes (first difference at {})", wire.len(), emitted.len(), seam::first_diff(&wire, &emitted)),
                    );
                }
            }
            if !zstd && emitted.is_empty() && !(chunks == 1 && wire.is_empty()) {
                self.v("empty-payload", format!("{d}: empty payload answered with {chunks} chunks / {} bytes instead of one empty final chunk", wire.len()));
            }
        } else if !cancelled {
            self.v("no-end-marker", format!("{d}: {} next calls and {} bytes without an end marker or an error", self.slots[s].responses, wire.len()));
        } else {
            let got = if zstd { seam::zstd_partial(&wire) } else { wire.clone() };
            if !emitted.starts_with(&got) {
                self.v("content-mismatch", format!("{d}: bytes pulled before the cancel are not a prefix of the producer's bytes (first difference at {})", seam::first_diff(&got, &emitted)));
            }
        }
    }
}

fn emitted_of(s: &SSpec) -> (Vec<u8>, usize) {
    let full = seam::logical_s(s.kind, s.m as usize, s.salt as usize);
    let n = full.len();
    match s.fail_at {
        Some(f) => (full[..(f as usize).min(n)].to_vec(), n),
        None => (full, n),
    }
}

/// Execute one scenario on a fresh router and evaluate every oracle clause for
/// every stream id.
pub fn run_scenario(sc: &Scenario) -> MOut {
    if sc.fam == Fam::Gated {
        return run_gated(sc);
    }
    run_ops(sc, make_router(&sc.cfg, Vec::new()), None)
}

struct GateCtl {
    harness: Vec<seam::Harness>,
    order: Vec<u8>,
}

fn run_ops(sc: &Scenario, router: Router, gates: Option<GateCtl>) -> MOut {
    let mut out = MOut::default();
    let (Some(open_h), Some(next_h), Some(cancel_h)) = (router.get("/_svs/open"), router.get("/_svs/next"), router.get("/_svs/cancel")) else {
        out.machinery = Some("SVS routes not registered".into());
        return out;
    };
    let slots: Vec<Slot> = sc
        .streams
        .iter()
        .map(|sp| {
            let (emitted, full_len) = emitted_of(sp);
            Slot {
                spec: *sp,
                emitted,
                full_len,
                sid: None,
                wire: Vec::new(),
                chunks: 0,
                lasts: 0,
                ended: false,
                errored: false,
                cancelled: false,
                cancelled_mid: false,
                responses: 0,
                shape: Vec::new(),
                err_text: String::new(),
            }
        })
        .collect();
    let mut ex = Exec {
        open_h,
        next_h,
        cancel_h,
        msg_id: 0,
        max_sid: 0,
        slots,
        st: MStats::default(),
        trace: Vec::new(),
        viols: Vec::new(),
        comp: if sc.cfg.zstd { "zstd" } else { "none" },
        cfg: sc.cfg,
    };
    for op in &sc.ops {
        if let Op::Open(s) | Op::Next(s) | Op::Cancel(s, _) = op {
            if *s as usize >= ex.slots.len() {
                out.machinery = Some(format!("scenario addresses slot {s} of {}", ex.slots.len()));
                return out;
            }
        }
    }
    let mut gates = gates;
    let mut prev: Option<u8> = None;
    let mut scheduled = vec![0u32; ex.slots.len()];
    let n_open_ops = sc.ops.iter().filter(|o| matches!(o, Op::Open(_))).count();
    let mut opened = 0usize;
    for op in &sc.ops {
        if let Op::Next(s) = op {
            scheduled[*s as usize] += 1;
            if prev.is_some() && prev != Some(*s) {
                ex.st.interleaved_switches += 1;
            }
            prev = Some(*s);
        }
        if let Err(e) = ex.run_op(op) {
            if ex.viols.is_empty() {
                out.machinery = Some(e);
            }
            break;
        }
        if let Op::Open(_) = op {
            opened += 1;
            // gated-writes family: once every producer exists, release their
            // writes one at a time in the scenario's order, waiting for each
            // write to complete (a predicted positive event) before the next
            if opened == n_open_ops {
                if let Some(g) = gates.as_mut() {
                    let mut done = vec![0i64; g.harness.len()];
                    for &w in &g.order {
                        let w = w as usize;
                        let h = &mut g.harness[w];
                        h.release_one();
                        let want = done[w];
                        if h.wait_until(|h| h.max_end >= want) {
                            ex.st.gated_writes_released += 1;
                        } else {
                            ex.st.gated_prediction_missed = true;
                        }
                        done[w] += 1;
                    }
                    for h in g.harness.iter_mut() {
                        h.open_all();
                    }
                }
            }
        }
    }
    if let Some(g) = gates.as_mut() {
        for h in g.harness.iter_mut() {
            h.open_all();
        }
    }
    if out.machinery.is_none() {
        // drain what is still live (slot order), so that every stream's content is judged
        for s in 0..ex.slots.len() {
            let bound = ex.slots[s].full_len + ex.slots[s].full_len / 64 + 600;
            let mut k = 0;
            while ex.slots[s].live() && k < bound {
                ex.next(s);
                k += 1;
            }
        }
        for s in 0..ex.slots.len() {
            ex.verdict(s, scheduled[s]);
        }
        // one more next for every id of the scenario: all are released by now
        for s in 0..ex.slots.len() {
            if ex.slots[s].sid.is_some() && !ex.slots[s].live() {
                ex.next(s);
            }
        }
        // release producers that may still be parked (undrained after a violation)
        for s in 0..ex.slots.len() {
            if ex.slots[s].live() {
                if let Some(sid) = ex.slots[s].sid {
                    let _ = ex.raw_cancel(sid, false);
                }
            }
        }
    }
    let opened: Vec<usize> = (0..ex.slots.len()).filter(|s| ex.slots[*s].sid.is_some()).collect();
    for (i, a) in opened.iter().enumerate() {
        for b in &opened[i + 1..] {
            if ex.slots[*a].spec == ex.slots[*b].spec {
                ex.st.same_resource = true;
            } else {
                ex.st.different_resources = true;
            }
        }
    }
    let any_healthy_ended = ex.slots.iter().any(|x| x.spec.fail_at.is_none() && x.ended);
    let any_failing_errored = ex.slots.iter().any(|x| x.spec.fail_at.is_some() && x.errored);
    ex.st.failing_while_other_ended = any_healthy_ended && any_failing_errored;
    for (s, sl) in ex.slots.iter().enumerate() {
        if let Some(solo) = sc.solo_shape.get(s) {
            if !solo.is_empty() && sl.sid.is_some() && !solo.starts_with(&sl.shape) {
                ex.st.partition_differs_from_solo = true;
            }
        }
    }
    out.slots = ex
        .slots
        .iter()
        .map(|sl| SlotOut { responses: sl.responses, terminal: sl.ended || sl.errored, shape: sl.shape.clone() })
        .collect();
    out.st = ex.st;
    out.trace = ex.trace;
    out.viols = ex.viols;
    out
}

/// gated-writes family: two (or three) writer streams whose 1-byte writes are
/// released one at a time in `write_order`; the channel depth admits every
/// chunk, so no write ever parks and each release is followed by its `End`.
fn run_gated(sc: &Scenario) -> MOut {
    let n_open = sc.ops.iter().filter(|o| matches!(o, Op::Open(_))).count();
    let mut hooks = Vec::new();
    let mut harness = Vec::new();
    for _ in 0..n_open {
        let (h, hs) = seam::gate_pair();
        hooks.push(Some(h));
        harness.push(hs);
    }
    let router = make_mixed_router(&sc.cfg, hooks);
    run_ops(sc, router, Some(GateCtl { harness, order: sc.write_order.clone() }))
}

// ---------------------------------------------------------------------------
// plan: configurations, alphabets, jobs
// ---------------------------------------------------------------------------

#[derive(Clone, Debug)]
pub struct Job {
    pub cfg: Cfg,
    pub fam: Fam,
    pub streams: Vec<SSpec>,
    /// every interleaving of the streams' next calls (false: the covering subset)
    pub all_orders: bool,
    /// insert every extra event at every position
    pub events: bool,
}

#[derive(Debug)]
pub enum Skip {
    /// a stream needs more next calls than the family's bound when pulled alone
    OverLimit,
    /// the solo reference pull did not reach a terminal response
    SoloNotTerminal,
    Machinery(String),
}

fn ref_wire_len(cfg: &Cfg, s: &SSpec) -> usize {
    let (emitted, _) = emitted_of(s);
    if !cfg.zstd {
        return emitted.len();
    }
    if s.fail_at.is_some() {
        // the encoder holds everything back until `finish`, which a failing body never reaches
        return 0;
    }
    let level = seam::ZSTD_LEVEL.load(Ordering::Relaxed);
    let mut enc = match zstd::stream::write::Encoder::new(Vec::new(), level) {
        Ok(e) => e,
        Err(_) => return emitted.len() + 13,
    };
    let _ = enc.write_all(&emitted);
    if s.kind == Kind::Value {
        let _ = enc.flush();
    }
    enc.finish().map(|v| v.len()).unwrap_or(emitted.len() + 13)
}

/// planning estimate of the number of `next` responses until the terminal one
/// (the interleavings themselves use the count measured by the solo pull)
fn predicted_n(cfg: &Cfg, s: &SSpec) -> u32 {
    let w = ref_wire_len(cfg, s);
    let c = cfg.c as usize;
    if s.fail_at.is_some() { (w / c).max(1) as u32 } else { w.div_ceil(c).max(1) as u32 }
}

fn healthy(kind: Kind, m: u32, pat: Pat) -> SSpec {
    SSpec { kind, m, pat, fail_at: None, panic: false, salt: 0 }
}

/// healthy stream specs of a configuration with at most `limit` responses
fn healthy_alphabet(cfg: &Cfg, full: bool, limit: u32) -> Vec<SSpec> {
    let kinds: Vec<Kind> = if cfg.mixed { KINDS.to_vec() } else { vec![cfg.kind] };
    let c = cfg.c;
    let mut per_kind: Vec<Vec<(SSpec, u32, bool)>> = Vec::new();
    for &k in &kinds {
        let pat = if matches!(k, Kind::Reader | Kind::Writer) { Pat::Single } else { Pat::Natural };
        let mut v = Vec::new();
        for m in 0..=(3 * c + 8).min(72) {
            let s = healthy(k, m, pat);
            let n = predicted_n(cfg, &s);
            if n <= limit {
                v.push((s, n, ref_wire_len(cfg, &s) % c as usize == 0));
            }
        }
        per_kind.push(v);
    }
    let mut out: Vec<SSpec> = Vec::new();
    if !cfg.mixed {
        let v = &per_kind[0];
        if full {
            out.extend(v.iter().map(|x| x.0).take(14));
        }
        for n in 1..=limit {
            for exact in [false, true] {
                if let Some(x) = v.iter().find(|x| x.1 == n && x.2 == exact) {
                    if !out.contains(&x.0) {
                        out.push(x.0);
                    }
                }
            }
        }
        if matches!(cfg.kind, Kind::Reader | Kind::Writer) {
            // one multi-chunk payload produced by 1-byte writes
            if let Some(x) = v.iter().rev().find(|x| x.1 == limit) {
                out.push(SSpec { pat: Pat::AllOne, ..x.0 });
            }
        }
    } else {
        // one spec per (response count, exact multiple) class, the kinds taken in
        // rotation; then every kind that is still missing
        let mut rot = 0usize;
        for n in 1..=limit {
            for exact in [false, true] {
                for t in 0..kinds.len() {
                    let ki = (rot + t) % kinds.len();
                    if let Some(x) = per_kind[ki].iter().find(|x| x.1 == n && x.2 == exact) {
                        if !out.contains(&x.0) {
                            out.push(x.0);
                            rot = ki + 1;
                            break;
                        }
                    }
                }
            }
        }
        for (ki, _) in kinds.iter().enumerate() {
            let want = if full { limit } else { 1 };
            let mut have = out.iter().filter(|s| s.kind == kinds[ki]).count() as u32;
            for x in &per_kind[ki] {
                if have >= want {
                    break;
                }
                if !out.contains(&x.0) && !out.iter().any(|s| s.kind == x.0.kind && predicted_n(cfg, s) == x.1) {
                    out.push(x.0);
                    have += 1;
                }
            }
        }
    }
    out
}

/// failing stream specs (reader / writer bodies): an `Err` after p bytes of a
/// payload of `limit` chunks, and a panic of the producer thread
fn failing_alphabet(cfg: &Cfg, full: bool, limit: u32) -> Vec<SSpec> {
    let kinds: Vec<Kind> = if cfg.mixed {
        vec![Kind::Writer, Kind::Reader]
    } else if matches!(cfg.kind, Kind::Reader | Kind::Writer) {
        vec![cfg.kind]
    } else {
        return Vec::new();
    };
    let c = cfg.c;
    let m = limit * c;
    let mut ps: Vec<u32> = if cfg.zstd {
        vec![0, m]
    } else if full {
        (0..=m).collect()
    } else {
        let mut v = vec![0, c, m];
        if limit >= 3 {
            v.push(2 * c);
        }
        if c > 1 {
            v.push((limit - 1) * c + 1);
        }
        v
    };
    ps.sort();
    ps.dedup();
    let mut out = Vec::new();
    for (i, &p) in ps.iter().enumerate() {
        let k = kinds[i % kinds.len()];
        out.push(SSpec { kind: k, m, pat: Pat::AllC, fail_at: Some(p), panic: false, salt: 0 });
    }
    let panics: Vec<u32> = if full && !cfg.zstd { vec![0, c, m] } else { vec![c] };
    for (i, &p) in panics.iter().enumerate() {
        out.push(SSpec { kind: kinds[(i + 1) % kinds.len()], m, pat: Pat::Single, fail_at: Some(p), panic: true, salt: 0 });
    }
    out
}

#[derive(Clone, Copy)]
pub struct CfgPlan {
    pub cfg: Cfg,
    pub pairs: bool,
    /// the extra events on the pairs (false: only the orders themselves)
    pub pair_events: bool,
    pub triples: bool,
    pub seq: bool,
    /// the complete alphabet (thorough) instead of one spec per class
    pub full: bool,
}

pub fn cfg_plans(tier: Tier) -> Vec<CfgPlan> {
    let cfg = |mixed: bool, kind: Kind, c: u32, depth: u8, zstd: bool| Cfg { mixed, kind, c, depth, zstd };
    let mut v = Vec::new();
    if tier == Tier::Quick {
        let all = |cfg: Cfg| CfgPlan { cfg, pairs: true, pair_events: true, triples: true, seq: true, full: false };
        v.push(all(cfg(false, Kind::Writer, 2, 0, false)));
        v.push(all(cfg(false, Kind::Reader, 3, 1, false)));
        v.push(CfgPlan { triples: false, ..all(cfg(true, Kind::Writer, 16, 2, false)) });
        v.push(CfgPlan { triples: false, ..all(cfg(false, Kind::Typed, 3, 4, false)) });
        v.push(CfgPlan { triples: false, pair_events: false, ..all(cfg(false, Kind::Complex, 4, 0, false)) });
        v.push(CfgPlan { triples: false, ..all(cfg(false, Kind::Value, 16, 1, false)) });
        v.push(CfgPlan { triples: false, pair_events: false, ..all(cfg(false, Kind::Reader, 1, 0, false)) });
        v.push(CfgPlan { triples: false, pair_events: false, ..all(cfg(false, Kind::Writer, 8, 1, true)) });
        v.push(CfgPlan { triples: false, pair_events: false, ..all(cfg(true, Kind::Writer, 16, 0, true)) });
    } else {
        for zstd in [false, true] {
            for &depth in if zstd { &[1u8][..] } else { &[0u8, 2][..] } {
                for kind in KINDS {
                    let cs: Vec<u32> = match (kind, zstd) {
                        (Kind::Reader | Kind::Writer, false) if depth == 2 => vec![2],
                        (Kind::Reader | Kind::Writer, false) => vec![1, 2, 3],
                        (Kind::Typed, false) => vec![3],
                        (Kind::Complex | Kind::Value, false) if depth == 2 => vec![],
                        (Kind::Complex, false) => vec![3],
                        (Kind::Value, false) => vec![16],
                        (Kind::Value, true) => vec![32],
                        (_, true) => vec![8],
                    };
                    for c in cs {
                        v.push(CfgPlan { cfg: cfg(false, kind, c, depth, zstd), pairs: true, pair_events: true, triples: true, seq: true, full: !zstd });
                    }
                }
                v.push(CfgPlan { cfg: cfg(true, Kind::Writer, 16, depth, zstd), pairs: true, pair_events: true, triples: true, seq: true, full: !zstd });
            }
        }
        // the quick tier's configurations that are not in the list above
        for (mixed, kind, c, depth, zstd) in [(false, Kind::Writer, 2, 0, false), (false, Kind::Reader, 3, 1, false), (false, Kind::Typed, 3, 4, false), (false, Kind::Value, 16, 1, false), (true, Kind::Writer, 16, 0, true)] {
            let cf = cfg(mixed, kind, c, depth, zstd);
            if !v.iter().any(|p| p.cfg == cf) {
                v.push(CfgPlan { cfg: cf, pairs: true, pair_events: true, triples: true, seq: true, full: false });
            }
        }
    }
    v
}

pub fn build_jobs(tier: Tier) -> Vec<Job> {
    let mut jobs = Vec::new();
    let thorough = tier == Tier::Thorough;
    for p in cfg_plans(tier) {
        let cfg = p.cfg;
        let h3 = healthy_alphabet(&cfg, p.full, 3);
        let f3 = failing_alphabet(&cfg, p.full, 3);
        if p.pairs {
            // quick: the 1-byte-writes payload and the second 3-response payload take
            // part in the sequential-reuse rows only
            let hp: Vec<SSpec> = if thorough {
                h3.clone()
            } else {
                let mut seen3 = false;
                h3.iter()
                    .copied()
                    .filter(|h| {
                        if h.pat == Pat::AllOne {
                            return false;
                        }
                        if predicted_n(&cfg, h) == 3 {
                            if seen3 {
                                return false;
                            }
                            seen3 = true;
                        }
                        true
                    })
                    .collect()
            };
            for i in 0..hp.len() {
                for j in i..hp.len() {
                    jobs.push(Job { cfg, fam: Fam::Pair, streams: vec![hp[i], hp[j]], all_orders: true, events: p.pair_events });
                }
            }
            for (fi, f) in f3.iter().enumerate() {
                let fp = f.fail_at.unwrap_or(0);
                let boundary = fp % cfg.c == 0 || fp % cfg.c == 1 || fp == f.m;
                if thorough && boundary && !h3.is_empty() {
                    // one healthy partner per number of responses (the exact-multiple one when there are two), both open orders
                    for n in 1..=3 {
                        if let Some(h) = h3.iter().rev().find(|h| predicted_n(&cfg, h) == n) {
                            jobs.push(Job { cfg, fam: Fam::Pair, streams: vec![*f, *h], all_orders: true, events: true });
                            jobs.push(Job { cfg, fam: Fam::Pair, streams: vec![*h, *f], all_orders: true, events: n != 2 });
                        }
                    }
                } else if !h3.is_empty() {
                    // a long healthy partner and a rotating one, the failing stream first or second
                    let long = h3.iter().rev().find(|h| predicted_n(&cfg, h) == 3).copied().unwrap_or(h3[h3.len() - 1]);
                    let rot = h3[fi % h3.len()];
                    jobs.push(Job { cfg, fam: Fam::Pair, streams: vec![*f, long], all_orders: true, events: p.pair_events });
                    if rot != long {
                        jobs.push(Job { cfg, fam: Fam::Pair, streams: vec![rot, *f], all_orders: true, events: p.pair_events && predicted_n(&cfg, f) <= 2 });
                    }
                }
                jobs.push(Job { cfg, fam: Fam::Pair, streams: vec![*f, *f], all_orders: true, events: thorough && predicted_n(&cfg, f) <= 2 });
            }
        }
        if p.triples {
            let h2 = healthy_alphabet(&cfg, false, 2);
            let f2 = failing_alphabet(&cfg, false, 2);
            let two = h2.iter().find(|h| predicted_n(&cfg, h) == 2).copied();
            let one = h2.iter().find(|h| predicted_n(&cfg, h) == 1).copied();
            let two_b = h2.iter().rev().find(|h| predicted_n(&cfg, h) == 2 && Some(**h) != two).copied();
            let fail2 = f2.iter().find(|f| predicted_n(&cfg, f) == 2 && !f.panic).or(f2.first()).copied();
            let mut core: Vec<Vec<SSpec>> = Vec::new();
            if let Some(a) = two {
                core.push(vec![a, a, a]);
                if let (Some(b), Some(c)) = (one, two_b) {
                    core.push(vec![a, b, c]);
                }
                if let Some(f) = fail2 {
                    core.push(vec![a, f, two_b.or(one).unwrap_or(a)]);
                }
                if let Some(b) = one {
                    core.push(vec![b, a, a]);
                }
            }
            for (ti, t) in core.iter().enumerate() {
                // thorough: the extra events on ALL orders for the first two core triples,
                // on the covering subset for the other two (their orders alone: all)
                if thorough && ti >= 2 {
                    jobs.push(Job { cfg, fam: Fam::Triple, streams: t.clone(), all_orders: false, events: true });
                    jobs.push(Job { cfg, fam: Fam::Triple, streams: t.clone(), all_orders: true, events: false });
                } else {
                    jobs.push(Job { cfg, fam: Fam::Triple, streams: t.clone(), all_orders: thorough, events: thorough || ti < 3 });
                }
            }
            if thorough {
                for i in 0..h2.len() {
                    for j in i..h2.len() {
                        for k in j..h2.len() {
                            let t = vec![h2[i], h2[j], h2[k]];
                            if !core.contains(&t) {
                                jobs.push(Job { cfg, fam: Fam::Triple, streams: t, all_orders: true, events: false });
                            }
                        }
                        for f in &f2 {
                            let t = vec![h2[i], *f, h2[j]];
                            if !core.contains(&t) {
                                jobs.push(Job { cfg, fam: Fam::Triple, streams: t, all_orders: true, events: false });
                            }
                        }
                    }
                }
            }
        }
        if p.seq {
            let mut firsts: Vec<SSpec> = h3.clone();
            firsts.extend(f3.iter().copied());
            for (i, s1) in firsts.iter().enumerate() {
                let mut seconds = vec![*s1];
                if thorough {
                    seconds.extend(h3.iter().copied().filter(|h| h != s1));
                } else if !h3.is_empty() {
                    let o = h3[(i + 1) % h3.len()];
                    if o != *s1 {
                        seconds.push(o);
                    }
                }
                for s2 in seconds {
                    jobs.push(Job { cfg, fam: Fam::Seq, streams: vec![*s1, s2, *s1], all_orders: true, events: true });
                }
            }
        }
    }
    // gated writes: writer bodies on the mixed registration, compression none
    for (c, depth) in tier.pick(vec![(2u32, 8u8), (3, 8)], vec![(1, 8), (2, 8), (3, 8), (4, 8)]) {
        let cfg = Cfg { mixed: true, kind: Kind::Writer, c, depth, zstd: false };
        let ms: Vec<u32> = tier.pick(vec![c + 1, 2 * c], vec![1, c, c + 1, 2 * c, 2 * c + 1]);
        for (i, &a) in ms.iter().enumerate() {
            for &b in &ms[i..] {
                if a + b > 12 {
                    continue;
                }
                let w = |m: u32| healthy(Kind::Writer, m, Pat::AllOne);
                jobs.push(Job { cfg, fam: Fam::Gated, streams: vec![w(a), w(b)], all_orders: true, events: false });
            }
        }
        if thorough && c <= 2 {
            let w = |m: u32| healthy(Kind::Writer, m, Pat::AllOne);
            jobs.push(Job { cfg, fam: Fam::Gated, streams: vec![w(c + 1), w(c + 1), w(c + 1)], all_orders: true, events: false });
        }
    }
    // different resources of one job get different content salts (identical
    // resources stay identical)
    for j in jobs.iter_mut() {
        let mut distinct: Vec<SSpec> = Vec::new();
        for i in 0..j.streams.len() {
            let s = j.streams[i];
            let k = match distinct.iter().position(|d| *d == s) {
                Some(k) => k,
                None => {
                    distinct.push(s);
                    distinct.len() - 1
                }
            };
            j.streams[i].salt = k as u8;
        }
    }
    jobs
}

/// planning estimate of a job's number of scenarios (only used to split large
/// jobs into several work units)
pub fn estimate(job: &Job) -> u64 {
    let ns: Vec<u64> = job.streams.iter().map(|s| predicted_n(&job.cfg, s) as u64).collect();
    fn multinomial(ns: &[u64]) -> u64 {
        let mut r = 1u64;
        let mut tot = 0u64;
        for &n in ns {
            for i in 1..=n {
                tot += 1;
                r = r * tot / i;
            }
        }
        r
    }
    match job.fam {
        Fam::Pair | Fam::Triple => {
            let l: u64 = ns.iter().sum();
            let orders = if job.all_orders { multinomial(&ns) } else { 12 };
            orders * if job.events { (l + 1) * (4 * ns.len() as u64 + 1) } else { 1 }
        }
        Fam::Seq => (1 + 2 * ns[0]) * (1 + 2 * (ns[1] + 1)),
        Fam::Gated => 2 * multinomial(&job.streams.iter().map(|s| s.m as u64).collect::<Vec<_>>()),
    }
}

/// work units: (job index, part, number of parts); part k executes the
/// scenarios whose index is congruent to k
pub fn units(jobs: &[Job]) -> Vec<(usize, u64, u64)> {
    let mut v = Vec::new();
    for (i, j) in jobs.iter().enumerate() {
        let parts = estimate(j).div_ceil(120).clamp(1, 64);
        for k in 0..parts {
            v.push((i, k, parts));
        }
    }
    v
}

/// every distinct order of `ns[s]` copies of each symbol s
pub fn interleavings(ns: &[u32]) -> Vec<Vec<u8>> {
    fn rec(left: &mut Vec<u32>, cur: &mut Vec<u8>, out: &mut Vec<Vec<u8>>) {
        if left.iter().all(|x| *x == 0) {
            out.push(cur.clone());
            return;
        }
        for s in 0..left.len() {
            if left[s] > 0 {
                left[s] -= 1;
                cur.push(s as u8);
                rec(left, cur, out);
                cur.pop();
                left[s] += 1;
            }
        }
    }
    let mut out = Vec::new();
    rec(&mut ns.to_vec(), &mut Vec::new(), &mut out);
    out
}

fn permutations(k: usize) -> Vec<Vec<usize>> {
    fn rec(k: usize, cur: &mut Vec<usize>, out: &mut Vec<Vec<usize>>) {
        if cur.len() == k {
            out.push(cur.clone());
            return;
        }
        for s in 0..k {
            if !cur.contains(&s) {
                cur.push(s);
                rec(k, cur, out);
                cur.pop();
            }
        }
    }
    let mut out = Vec::new();
    rec(k, &mut Vec::new(), &mut out);
    out
}

/// the quick tier's covering subset: for every permutation of the streams the
/// block order, the round-robin order and the nested order (first call of the
/// first stream, the others completely, then the rest of the first)
pub fn covering_orders(ns: &[u32]) -> Vec<Vec<u8>> {
    let mut out: Vec<Vec<u8>> = Vec::new();
    let mut push = |o: Vec<u8>| {
        if !out.contains(&o) {
            out.push(o);
        }
    };
    for p in permutations(ns.len()) {
        let mut block = Vec::new();
        for &s in &p {
            block.extend(std::iter::repeat(s as u8).take(ns[s] as usize));
        }
        push(block);
        let mut rr = Vec::new();
        let mut left = ns.to_vec();
        while left.iter().any(|x| *x > 0) {
            for &s in &p {
                if left[s] > 0 {
                    left[s] -= 1;
                    rr.push(s as u8);
                }
            }
        }
        push(rr);
        let mut nested = Vec::new();
        let first = p[0];
        if ns[first] > 0 {
            nested.push(first as u8);
        }
        for &s in &p[1..] {
            nested.extend(std::iter::repeat(s as u8).take(ns[s] as usize));
        }
        nested.extend(std::iter::repeat(first as u8).take(ns[first].saturating_sub(1) as usize));
        push(nested);
    }
    out
}

pub struct Solo {
    pub n: u32,
    pub shape: Vec<(usize, u8)>,
}

pub fn solo(cfg: &Cfg, s: &SSpec) -> Result<Solo, Skip> {
    let sc = Scenario { cfg: *cfg, fam: Fam::Pair, streams: vec![*s], ops: vec![Op::Open(0)], event: 0, solo_shape: Vec::new(), write_order: Vec::new() };
    let out = run_scenario(&sc);
    if let Some(m) = out.machinery {
        return Err(Skip::Machinery(m));
    }
    let sl = &out.slots[0];
    if !sl.terminal {
        return Err(Skip::SoloNotTerminal);
    }
    Ok(Solo { n: sl.responses, shape: sl.shape.clone() })
}

/// All scenarios of a job. The number of `next` calls per stream is the one
/// measured by pulling the same resource alone on a fresh router.
pub fn scenarios(job: &Job) -> Result<Vec<Scenario>, Skip> {
    let cfg = job.cfg;
    let mut solos: Vec<Solo> = Vec::new();
    for (i, s) in job.streams.iter().enumerate() {
        if let Some(j) = job.streams[..i].iter().position(|x| x == s) {
            solos.push(Solo { n: solos[j].n, shape: solos[j].shape.clone() });
        } else {
            solos.push(solo(&cfg, s)?);
        }
    }
    let ns: Vec<u32> = solos.iter().map(|s| s.n).collect();
    let mk = |streams: &Vec<SSpec>, shapes: &Vec<Vec<(usize, u8)>>, ops: Vec<Op>, event: usize, write_order: Vec<u8>| Scenario {
        cfg,
        fam: job.fam,
        streams: streams.clone(),
        ops,
        event,
        solo_shape: shapes.clone(),
        write_order,
    };
    let mut out = Vec::new();
    match job.fam {
        Fam::Pair | Fam::Triple => {
            let limit = if job.fam == Fam::Pair { 3 } else { 2 };
            if ns.iter().any(|n| *n > limit) {
                return Err(Skip::OverLimit);
            }
            let k = job.streams.len();
            // slot k: a late stream on the same resource as stream 0
            let mut streams = job.streams.clone();
            streams.push(job.streams[0]);
            let mut shapes: Vec<Vec<(usize, u8)>> = solos.iter().map(|s| s.shape.clone()).collect();
            shapes.push(solos[0].shape.clone());
            let orders = if job.all_orders { interleavings(&ns) } else { covering_orders(&ns) };
            let opens: Vec<Op> = (0..k).map(|s| Op::Open(s as u8)).collect();
            for ord in &orders {
                let base: Vec<Op> = opens.iter().copied().chain(ord.iter().map(|s| Op::Next(*s))).collect();
                out.push(mk(&streams, &shapes, base.clone(), 0, Vec::new()));
                if !job.events {
                    continue;
                }
                for p in 0..=ord.len() {
                    let mut evs: Vec<(Op, usize)> = Vec::new();
                    for s in 0..k {
                        evs.push((Op::Cancel(s as u8, false), 1));
                        evs.push((Op::Cancel(s as u8, true), 2));
                        let done = ord[..p].iter().filter(|x| **x as usize == s).count() as u32;
                        if done == ns[s] {
                            evs.push((Op::Next(s as u8), 3));
                        }
                    }
                    evs.push((Op::NextUnknown, 4));
                    evs.push((Op::CancelUnknown(false), 5));
                    evs.push((Op::Open(k as u8), 6));
                    for (ev, label) in evs {
                        let mut ops = base.clone();
                        ops.insert(k + p, ev);
                        out.push(mk(&streams, &shapes, ops, label, Vec::new()));
                    }
                }
            }
        }
        Fam::Seq => {
            // stream 0 ends / is cancelled after j chunks / fails; stream 1 is pulled
            // with one probe of the old id at every position; stream 2 (the first
            // resource again) is pulled last
            let (n0, n1, n2) = (ns[0], ns[1], ns[2]);
            let shapes: Vec<Vec<(usize, u8)>> = solos.iter().map(|s| s.shape.clone()).collect();
            let mut prefixes: Vec<Vec<Op>> = Vec::new();
            let run0 = |j: u32| -> Vec<Op> { std::iter::once(Op::Open(0)).chain((0..j).map(|_| Op::Next(0))).collect() };
            prefixes.push(run0(n0));
            for j in 0..n0 {
                for notify in [false, true] {
                    let mut p = run0(j);
                    p.push(Op::Cancel(0, notify));
                    prefixes.push(p);
                }
            }
            for pre in &prefixes {
                for p in 0..=n1 {
                    for probe in [None, Some((Op::Next(0), 7)), Some((Op::Cancel(0, false), 8))] {
                        if probe.is_none() && p > 0 {
                            continue;
                        }
                        let mut ops = pre.clone();
                        ops.push(Op::Open(1));
                        ops.extend((0..p).map(|_| Op::Next(1)));
                        let mut label = 0;
                        if let Some((op, l)) = probe {
                            ops.push(op);
                            label = l;
                        }
                        ops.extend((p..n1).map(|_| Op::Next(1)));
                        ops.push(Op::Open(2));
                        ops.extend((0..n2).map(|_| Op::Next(2)));
                        out.push(mk(&job.streams, &shapes, ops, label, Vec::new()));
                    }
                }
            }
        }
        Fam::Gated => {
            // one entry per 1-byte write of each producer; every order of the writes,
            // then the streams drained in slot order and in reverse slot order
            let writes: Vec<u32> = job.streams.iter().map(|s| s.m).collect();
            let shapes: Vec<Vec<(usize, u8)>> = solos.iter().map(|s| s.shape.clone()).collect();
            let k = job.streams.len();
            for ord in interleavings(&writes) {
                for rev in [false, true] {
                    let mut ops: Vec<Op> = (0..k).map(|s| Op::Open(s as u8)).collect();
                    let order: Vec<usize> = if rev { (0..k).rev().collect() } else { (0..k).collect() };
                    for s in order {
                        ops.extend((0..ns[s]).map(|_| Op::Next(s as u8)));
                    }
                    out.push(mk(&job.streams, &shapes, ops, 0, ord.clone()));
                }
            }
        }
    }
    Ok(out)
}

pub fn short(sc: &Scenario) -> String {
    format!(
        "{} on one {} router (c={} depth={} zstd={}): streams [{}], ops [{}]{}",
        sc.fam.name(),
        if sc.cfg.mixed { "mixed-writer" } else { KIND_NAMES[kind_idx(sc.cfg.kind)] },
        sc.cfg.c,
        sc.cfg.depth,
        sc.cfg.zstd,
        sc.streams.iter().map(|s| resource(&sc.cfg, s)).collect::<Vec<_>>().join(", "),
        sc.ops.iter().map(op_str).collect::<Vec<_>>().join(" "),
        if sc.write_order.is_empty() { String::new() } else { format!(", producer writes released in order {:?}", sc.write_order) },
    )
}

/// per-worker aggregate of the multi-stream layer
#[derive(Default)]
pub struct MAgg {
    pub c: BTreeMap<String, u64>,
    pub viols: Vec<(u64, String, String, Value)>,
    pub viol_total: u64,
    pub machinery: Option<String>,
    pub sample: Option<(u64, Value)>,
    pub thread_s: f64,
}

impl MAgg {
    pub fn add(&mut self, k: &str, n: u64) {
        if n > 0 {
            *self.c.entry(k.to_string()).or_insert(0) += n;
        }
    }
    pub fn get(&self, k: &str) -> u64 {
        self.c.get(k).copied().unwrap_or(0)
    }
    pub fn merge(&mut self, o: MAgg) {
        for (k, v) in o.c {
            *self.c.entry(k).or_insert(0) += v;
        }
        self.viols.extend(o.viols);
        self.viol_total += o.viol_total;
        if self.machinery.is_none() {
            self.machinery = o.machinery;
        }
        match (&self.sample, o.sample) {
            (Some(a), Some(b)) if b.0 < a.0 => self.sample = Some(b),
            (None, Some(b)) => self.sample = Some(b),
            _ => {}
        }
        self.thread_s += o.thread_s;
    }

    /// fold one executed scenario
    pub fn fold(&mut self, idx: u64, sc: &Scenario, out: &MOut) {
        if let Some(m) = &out.machinery {
            if self.machinery.is_none() {
                self.machinery = Some(format!("{m} in {}", short(sc)));
            }
            return;
        }
        let f = sc.fam.name();
        let st = &out.st;
        self.add("scenarios", 1);
        self.add(&format!("scenarios[{f}]"), 1);
        self.add(&format!("event[{}]", EVENTS[sc.event]), 1);
        self.add("exchanges", st.exchanges);
        self.add("streams_opened", st.opens);
        self.add("chunks_pulled", st.chunks);
        self.add("streams_ended_with_end_marker", st.streams_ended);
        self.add("streams_ended_with_error", st.streams_errored);
        self.add("streams_cancelled_mid_stream", st.streams_cancelled_mid);
        self.add("cancels_of_an_already_released_stream", st.cancels_of_released);
        self.add("next_after_cancel_probes", st.after_cancel_probes);
        self.add("next_past_the_end_probes", st.past_end_probes);
        self.add("next_after_failure_probes", st.after_failure_probes);
        self.add("next_unknown_id_probes", st.unknown_probes);
        self.add("next_switches_between_streams", st.interleaved_switches);
        self.add("scenarios_same_resource_opened_twice", st.same_resource as u64);
        self.add("scenarios_different_resources", st.different_resources as u64);
        self.add("scenarios_failing_stream_errored_and_healthy_stream_ended", st.failing_while_other_ended as u64);
        self.add("scenarios_open_while_another_stream_is_live", st.open_while_other_live as u64);
        self.add(&format!("scenarios_max_{}_streams_live_at_once", st.max_live), 1);
        self.add("scenarios_delivery_partition_differs_from_solo_pull", st.partition_differs_from_solo as u64);
        self.add("gated_producer_writes_released_and_observed", st.gated_writes_released);
        self.add("gated_prediction_missed", st.gated_prediction_missed as u64);
        if sc.cfg.zstd {
            self.add("scenarios_zstd", 1);
        }
        if sc.cfg.mixed {
            self.add("scenarios_mixed_body_shapes_on_one_registration", 1);
            let kinds: std::collections::BTreeSet<usize> = sc.streams.iter().map(|s| kind_idx(s.kind)).collect();
            if kinds.len() >= 2 {
                self.add("scenarios_two_or_more_producer_kinds_on_one_router", 1);
            }
        }
        self.add(&format!("scenarios_registration[{}]", if sc.cfg.mixed { "mixed" } else { KIND_NAMES[kind_idx(sc.cfg.kind)] }), 1);
        if !out.viols.is_empty() {
            self.viol_total += out.viols.len() as u64;
            for (k, w) in &out.viols {
                if !self.viols.iter().any(|v| v.1 == *k) {
                    let mut cj = scenario_json(sc);
                    cj["observed"] = json!(out.trace);
                    self.viols.push((idx, k.clone(), format!("{w} [{}]", short(sc)), cj));
                }
            }
        }
    }
}
