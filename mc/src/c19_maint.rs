//! C19, axis A — how the cached connection came to be, and what happened to it
//! before the judged calls.
//!
//! A prefixed scenario = (fleet, API, max_attempts, prefix, script, recovery op).
//! The *prefix* is a short fixed sequence of steps (fleet calls against scripted
//! outcomes, `connect_all`, `health_check`, `reconnect_disconnected`,
//! `disconnect_all`, the node being dead meanwhile) that brings the fleet's cached
//! client into one of the states a long-lived fleet goes through; then the
//! ordinary script phase of `c19.rs` runs (one outcome per attempt), the node turns
//! healthy, optionally one *recovery op* (a maintenance call) runs, and two calls
//! must succeed.
//!
//! Judged: the clauses O1..O4 of `c19.rs` on EVERY fleet call of the scenario
//! (`judge_calls`, unchanged), and of the maintenance calls only that they return
//! (and do not panic). What a maintenance call reports is counted, not judged.
//!
//! Excuse bookkeeping (the one tolerance of O4, unchanged in meaning): a
//! connection that the node killed while no attempt was in flight excuses the
//! next operation that USES the cached connection. `connect_all` and
//! `reconnect_disconnected` do not use an existing client, so the excuse carries
//! over them to the next call; `health_check` uses it (so the call after it must
//! succeed; were the check to travel on a connection of its own, the excuse would
//! stay); `disconnect_all` discards every client, so nothing is left to excuse.

use super::node::{Attempt, FakeNode, Out};
use super::{Api, CallObs, Driver, Kind, Res, ScenObs, Viol};
use super::{HEALTHY_CALLS, NODE_TIMEOUT, norm_err, panic_text, wait_result, watched};
use repe::{Fleet, NodeConfig};
use serde_json::{Value, json};
use std::collections::BTreeMap;
use std::time::Instant;

#[derive(Clone, Copy, PartialEq, Eq, Debug, PartialOrd, Ord)]
pub enum MOp {
    ConnectAll,
    Reconnect,
    DisconnectAll,
    Health,
}

pub const RECOVER_OPS: [MOp; 4] = [MOp::Reconnect, MOp::ConnectAll, MOp::Health, MOp::DisconnectAll];

impl MOp {
    pub fn name(self) -> &'static str {
        match self {
            MOp::ConnectAll => "connect_all",
            MOp::Reconnect => "reconnect_disconnected",
            MOp::DisconnectAll => "disconnect_all",
            MOp::Health => "health_check",
        }
    }
    pub fn parse(s: &str) -> Option<MOp> {
        [MOp::ConnectAll, MOp::Reconnect, MOp::DisconnectAll, MOp::Health].into_iter().find(|o| o.name() == s)
    }
}

#[derive(Clone, Debug, PartialEq)]
pub enum Step {
    /// one fleet call while the node presents `outs` (`to_budget`: the outcome is
    /// repeated max_attempts times, so the whole call fails)
    Call { outs: Vec<Out>, to_budget: bool },
    /// one maintenance call while the node presents `outs` / is dead
    Maint { op: MOp, outs: Vec<Out>, dead: bool },
}

pub struct Prefix {
    pub name: &'static str,
    pub steps: Vec<Step>,
    /// `health_check` runs into its own 5 s timeout: only on the shortest scripts
    pub slow: bool,
    /// named in the assignment: full script depth in the thorough tier
    pub core: bool,
}

fn call(outs: &[Out]) -> Step {
    Step::Call { outs: outs.to_vec(), to_budget: false }
}
fn fail(o: Out) -> Step {
    Step::Call { outs: vec![o], to_budget: true }
}
fn op(op: MOp) -> Step {
    Step::Maint { op, outs: vec![], dead: false }
}
fn op_with(op: MOp, outs: &[Out]) -> Step {
    Step::Maint { op, outs: outs.to_vec(), dead: false }
}
fn op_dead(op: MOp) -> Step {
    Step::Maint { op, outs: vec![], dead: true }
}

/// Index 0 is the empty prefix (no connection yet).
pub fn catalogue() -> Vec<Prefix> {
    use MOp::*;
    use Out::*;
    let p = |name, steps, slow, core| Prefix { name, steps, slow, core };
    vec![
        p("none", vec![], false, false),
        // an earlier successful call
        p("call", vec![call(&[Success])], false, true),
        // connect_all / health_check on a fleet that has no connection yet
        p("connect_all", vec![op(ConnectAll)], false, true),
        p("health_check", vec![op(Health)], false, true),
        // reconnect_disconnected after a failed call (each failure kind), node healthy again
        p("fail-R,reconnect_disconnected", vec![fail(Refused), op(Reconnect)], false, true),
        p("fail-A,reconnect_disconnected", vec![fail(AcceptClose), op(Reconnect)], false, false),
        p("fail-T,reconnect_disconnected", vec![fail(Silent), op(Reconnect)], false, false),
        p("fail-M,reconnect_disconnected", vec![call(&[Malformed]), op(Reconnect)], false, false),
        p("idle-closed,reconnect_disconnected", vec![call(&[IdleClose]), op(Reconnect)], false, false),
        // disconnect_all, then the calls
        p("call,disconnect_all", vec![call(&[Success]), op(DisconnectAll)], false, true),
        p("idle-closed,disconnect_all", vec![call(&[IdleClose]), op(DisconnectAll)], false, false),
        p("connect_all,disconnect_all", vec![op(ConnectAll), op(DisconnectAll)], false, false),
        // connect_all / health_check while the node is dead, then the node comes up
        p("dead:connect_all", vec![op_dead(ConnectAll)], false, true),
        p("dead:health_check", vec![op_dead(Health)], false, false),
        p("call,dead:connect_all", vec![call(&[Success]), op_dead(ConnectAll)], false, false),
        p("call,dead:health_check", vec![call(&[Success]), op_dead(Health)], false, false),
        // health_check meeting each outcome on a cached connection
        p("call,health_check=A", vec![call(&[Success]), op_with(Health, &[AcceptClose])], false, false),
        p("call,health_check=M", vec![call(&[Success]), op_with(Health, &[Malformed])], false, false),
        p("call,health_check=E", vec![call(&[Success]), op_with(Health, &[AppErr])], false, false),
        p("call,health_check=I", vec![call(&[Success]), op_with(Health, &[IdleClose])], false, false),
        p("call,health_check=T", vec![call(&[Success]), op_with(Health, &[Silent])], true, false),
        p("idle-closed,health_check", vec![call(&[IdleClose]), op(Health)], false, false),
        // ... and on a connection of its own
        p("health_check=A", vec![op_with(Health, &[AcceptClose])], false, false),
        p("health_check=M", vec![op_with(Health, &[Malformed])], false, false),
        // maintenance calls on top of each other
        p("connect_all,health_check", vec![op(ConnectAll), op(Health)], false, false),
        p("idle-closed,connect_all", vec![call(&[IdleClose]), op(ConnectAll)], false, false),
        p("fail-R,connect_all", vec![fail(Refused), op(ConnectAll)], false, false),
        p("fail-A,health_check", vec![fail(AcceptClose), op(Health)], false, false),
    ]
}

pub fn prefix_index(name: &str) -> Option<usize> {
    catalogue().iter().position(|p| p.name == name)
}

#[derive(Clone, Debug, PartialEq)]
pub struct PScenario {
    pub kind: Kind,
    pub api: Api,
    pub max: usize,
    pub garbage: super::node::Garbage,
    pub prefix: usize,
    pub recover: Option<MOp>,
    pub script: Vec<Out>,
}

impl PScenario {
    pub fn to_json(&self) -> Value {
        json!({
            "shape": "prefixed",
            "fleet": self.kind.name(),
            "api": self.api.name(),
            "max_attempts": self.max,
            "malformed": self.garbage.name(),
            "prefix": catalogue()[self.prefix].name,
            "recover": self.recover.map(|o| o.name()),
            "script": self.script.iter().map(|o| o.letter()).collect::<Vec<_>>(),
            "legend": "prefix steps run first (fail-X = a call whose every attempt meets X; dead: = the node refuses every connect meanwhile; health_check=X = the health request meets X), then one scripted outcome per attempt, then the node is healthy, then the recovery op, then 2 calls. R refused, A accepted-then-closed, I closed-while-idle (answered, then closed idle), T silent-until-timeout, M malformed reply, E application error, S success",
        })
    }
    pub fn from_json(v: &Value) -> Option<PScenario> {
        let script = v["script"]
            .as_array()?
            .iter()
            .map(|x| x.as_str().and_then(Out::from_letter))
            .collect::<Option<Vec<_>>>()?;
        Some(PScenario {
            kind: Kind::parse(v["fleet"].as_str()?)?,
            api: Api::parse(v["api"].as_str()?)?,
            max: v["max_attempts"].as_u64()? as usize,
            garbage: super::node::Garbage::parse(v["malformed"].as_str()?)?,
            prefix: prefix_index(v["prefix"].as_str()?)?,
            recover: match &v["recover"] {
                Value::Null => None,
                Value::String(s) => Some(MOp::parse(s)?),
                _ => return None,
            },
            script,
        })
    }
    pub fn label(&self) -> String {
        format!(
            "{} {} max_attempts={} prefix=[{}] script=[{}] recover=[{}]",
            self.kind.name(),
            self.api.name(),
            self.max,
            catalogue()[self.prefix].name,
            super::letters(&self.script),
            self.recover.map(|o| o.name()).unwrap_or("-"),
        )
    }
}

// ---------------------------------------------------------------------------
// the maintenance calls of both fleets

#[derive(Clone, Debug)]
pub enum MRes {
    /// (connected | reconnected | disconnected, failed)
    Summary { ok: Vec<String>, failed: Vec<String> },
    Health(BTreeMap<String, (bool, Option<Res>)>),
    Panic(String),
    Hang,
}

impl MRes {
    pub fn show(&self) -> String {
        match self {
            MRes::Summary { ok, failed } => format!("ok={ok:?} failed={failed:?}"),
            MRes::Health(m) => format!(
                "{{{}}}",
                m.iter()
                    .map(|(k, (h, e))| format!("{k}: {}{}", if *h { "healthy" } else { "unhealthy" }, e.as_ref().map(|e| format!(" {}", e.class())).unwrap_or_default()))
                    .collect::<Vec<_>>()
                    .join(", ")
            ),
            MRes::Panic(p) => format!("PANIC({p})"),
            MRes::Hang => "no return within the watchdog".into(),
        }
    }
}

/// Run `job` on a thread of its own against a clone of the blocking fleet (the
/// clone shares the node set), under the watchdog.
pub fn blocking<T: Send + 'static>(f: &Fleet, job: impl FnOnce(Fleet) -> T + Send + 'static) -> Result<T, Res> {
    let f = f.clone();
    let (tx, rx) = std::sync::mpsc::channel();
    let spawned = std::thread::Builder::new().name("c19-op".into()).stack_size(512 * 1024).spawn(move || {
        let r = std::panic::catch_unwind(std::panic::AssertUnwindSafe(|| job(f)));
        let _ = tx.send(r.map_err(|p| Res::Panic(panic_text(p))));
    });
    if spawned.is_err() {
        return Err(Res::Panic("could not spawn the operation thread".into()));
    }
    wait_result(&rx).unwrap_or(Err(Res::Hang))
}

/// Drive `fut` on the async fleet's runtime, under the watchdog.
pub fn asyncly<T, F: std::future::Future<Output = T>>(rt: &tokio::runtime::Runtime, fut: F) -> Result<T, Res> {
    std::panic::catch_unwind(std::panic::AssertUnwindSafe(|| rt.block_on(async { watched(fut).await.ok_or(Res::Hang) })))
        .unwrap_or_else(|p| Err(Res::Panic(panic_text(p))))
}

fn health_map(m: std::collections::HashMap<String, repe::HealthStatus>) -> BTreeMap<String, (bool, Option<Res>)> {
    m.into_iter().map(|(k, h)| (k, (h.healthy, h.error.map(norm_err)))).collect()
}

impl Driver {
    /// The health request carries the operation number in its path, like the calls do.
    pub fn maint(&self, op: MOp, no: u64) -> MRes {
        let endpoint = format!("/c19/health/{no}");
        let r: Result<MRes, Res> = match self {
            Driver::B(f) => match op {
                MOp::ConnectAll => blocking(f, |f| {
                    let s = f.connect_all();
                    MRes::Summary { ok: s.connected, failed: s.failed }
                }),
                MOp::Reconnect => blocking(f, |f| {
                    let s = f.reconnect_disconnected();
                    MRes::Summary { ok: s.reconnected, failed: s.failed }
                }),
                MOp::DisconnectAll => blocking(f, |f| {
                    let s = f.disconnect_all();
                    MRes::Summary { ok: s.disconnected, failed: s.failed }
                }),
                MOp::Health => blocking(f, move |f| MRes::Health(health_map(f.health_check(&endpoint)))),
            },
            Driver::A { fleet, rt } => {
                let rt = rt.as_ref().unwrap();
                match op {
                    MOp::ConnectAll => asyncly(rt, async {
                        let s = fleet.connect_all().await;
                        MRes::Summary { ok: s.connected, failed: s.failed }
                    }),
                    MOp::Reconnect => asyncly(rt, async {
                        let s = fleet.reconnect_disconnected().await;
                        MRes::Summary { ok: s.reconnected, failed: s.failed }
                    }),
                    MOp::DisconnectAll => asyncly(rt, async {
                        let s = fleet.disconnect_all().await;
                        MRes::Summary { ok: s.disconnected, failed: s.failed }
                    }),
                    MOp::Health => asyncly(rt, async { MRes::Health(health_map(fleet.health_check(&endpoint).await)) }),
                }
            }
        };
        match r {
            Ok(m) => m,
            Err(Res::Hang) => MRes::Hang,
            Err(Res::Panic(p)) => MRes::Panic(p),
            Err(other) => MRes::Panic(other.show()),
        }
    }

    /// (is_connected_all, names of connected_nodes, sorted): observations only.
    pub fn connected_view(&self) -> (Option<bool>, Option<Vec<String>>) {
        let r = match self {
            Driver::B(f) => blocking(f, |f| (f.is_connected_all(), f.connected_nodes().into_iter().map(|n| n.name).collect::<Vec<_>>())),
            Driver::A { fleet, rt } => asyncly(rt.as_ref().unwrap(), async {
                (fleet.is_connected_all().await, fleet.connected_nodes().await.into_iter().map(|n| n.name).collect::<Vec<_>>())
            }),
        };
        match r {
            Ok((all, mut names)) => {
                names.sort();
                (Some(all), Some(names))
            }
            Err(_) => (None, None),
        }
    }
}

#[derive(Clone, Debug)]
pub struct MaintObs {
    /// number of fleet calls made before it
    pub at_call: usize,
    pub phase: &'static str,
    pub op: MOp,
    pub dead: bool,
    pub outs: Vec<Out>,
    /// a connection of the node had been killed while idle and nothing has used the client since
    pub excused: bool,
    pub res: MRes,
    pub attempts: Vec<Attempt>,
    pub new_connects: u64,
    pub unused_connections_held: usize,
    pub connected_before: Option<bool>,
    pub connected_after: Option<bool>,
    pub connected_all_after: Option<bool>,
    pub connected_nodes_after: Option<Vec<String>>,
    /// is_connected turned false but a connection stayed open at the node for the whole watchdog
    pub connection_outlived_the_client: bool,
}

pub fn show_maint(m: &MaintObs) -> String {
    format!(
        "{}{}{}{} -> {}{}",
        m.op.name(),
        if m.dead { "(node dead)" } else { "" },
        if m.outs.is_empty() { String::new() } else { format!("(meets {})", super::letters(&m.outs)) },
        if m.excused { "(after a killed connection)" } else { "" },
        m.res.show(),
        match m.connected_after {
            Some(b) => format!(" is_connected={b}"),
            None => String::new(),
        }
    )
}

struct Run<'a> {
    node: &'a FakeNode,
    driver: &'a Driver,
    api: Api,
    no: u64,
    carry: bool,
}

impl Run<'_> {
    /// One fleet call; true = it hung.
    fn call(&mut self, healthy: bool, obs: &mut ScenObs) -> Result<bool, String> {
        self.no += 1;
        let start = self.node.begin_call(self.no)?;
        self.carry |= start.excused;
        let excused = std::mem::replace(&mut self.carry, false);
        let connects0 = self.node.connects_seen();
        let t_call = Instant::now();
        let res = self.driver.call("n0", self.api, self.no);
        let elapsed = t_call.elapsed();
        let hung = matches!(res, Res::Hang);
        if hung {
            eprintln!("[C19] call #{} hung; node: {}", self.no, self.node.debug_state());
        }
        let attempts = if hung { Vec::new() } else { self.node.end_call(self.no)? };
        for a in &attempts {
            match a.realized {
                super::node::Realized::ReplyOk => {
                    obs.expected_replies.insert(a.serial, self.node.sh.reply_value(a.serial));
                }
                super::node::Realized::ReplyErr { .. } => {
                    obs.expected_errors.insert(a.serial, self.node.sh.error_message(a.serial));
                }
                _ => {}
            }
        }
        let connected_after = if hung { None } else { self.driver.is_connected("n0") };
        obs.calls.push(CallObs {
            healthy_phase: healthy,
            excused,
            remaining_at_start: start.remaining,
            last_failure_before: start.last_failure,
            attempts,
            res,
            connected_after,
            elapsed,
            new_connects: Some(self.node.connects_seen() - connects0),
        });
        Ok(hung)
    }

    /// One maintenance call; true = it hung.
    fn maint(&mut self, phase: &'static str, op: MOp, outs: &[Out], dead: bool, obs: &mut ScenObs) -> Result<bool, String> {
        self.no += 1;
        if dead {
            self.node.set_dead(true);
        }
        if !outs.is_empty() {
            self.node.set_script(outs.to_vec());
        }
        let connected_before = self.driver.is_connected("n0");
        let start = self.node.begin_call(self.no)?;
        self.carry |= start.excused;
        let excused = self.carry;
        if matches!(op, MOp::Health | MOp::DisconnectAll) {
            self.carry = false;
        }
        let connects0 = self.node.connects_seen();
        let res = self.driver.maint(op, self.no);
        let hung = matches!(res, MRes::Hang);
        if hung {
            eprintln!("[C19] {} (operation #{}) hung; node: {}", op.name(), self.no, self.node.debug_state());
        }
        let attempts = if hung { Vec::new() } else { self.node.end_call(self.no)? };
        if op == MOp::Health && excused && connected_before == Some(true) && self.node.connects_seen() > connects0 {
            // the check went out on a connection of its own although a client was cached:
            // it has not used that client, so the excuse stays with the next call
            self.carry = true;
        }
        let held = if !hung && matches!(op, MOp::ConnectAll | MOp::Reconnect) { self.node.mark_held()? } else { 0 };
        if dead {
            self.node.set_dead(false);
        }
        if phase == "prefix" {
            obs.prefix_outcomes_unused += self.node.set_script(Vec::new());
        }
        let (connected_after, (all, names)) =
            if hung { (None, (None, None)) } else { (self.driver.is_connected("n0"), self.driver.connected_view()) };
        // the fleet says it holds no client any more: let the node see its connections end
        // before anything else happens (a positive event, not a delay)
        let mut lingering = false;
        if matches!(op, MOp::DisconnectAll | MOp::Health) && connected_after == Some(false) {
            lingering = !self.node.wait_conns_gone();
        }
        obs.maint.push(MaintObs {
            at_call: obs.calls.len(),
            phase,
            op,
            dead,
            outs: outs.to_vec(),
            excused,
            res,
            attempts,
            new_connects: self.node.connects_seen() - connects0,
            unused_connections_held: held,
            connected_before,
            connected_after,
            connected_all_after: all,
            connected_nodes_after: names,
            connection_outlived_the_client: lingering,
        });
        Ok(hung)
    }
}

pub fn run_prefixed(sc: &PScenario) -> Result<ScenObs, String> {
    let cat = catalogue();
    let prefix = cat.get(sc.prefix).ok_or("no such prefix")?;
    let node = FakeNode::start("n0", vec![], sc.garbage, 0)?;
    let cfg = NodeConfig::new("127.0.0.1", node.port())
        .and_then(|c| c.with_name("n0"))
        .and_then(|c| c.with_timeout(NODE_TIMEOUT))
        .map_err(|e| e.to_string())?;
    let driver = Driver::new(sc.kind, vec![cfg], sc.max)?;
    let mut obs = ScenObs::empty();
    let mut run = Run { node: &node, driver: &driver, api: sc.api, no: 0, carry: false };
    let mut abort = false;

    for step in &prefix.steps {
        let hung = match step {
            Step::Call { outs, to_budget } => {
                let mut v = Vec::new();
                for _ in 0..(if *to_budget { sc.max } else { 1 }) {
                    v.extend(outs.iter().copied());
                }
                node.set_script(v);
                let h = run.call(false, &mut obs)?;
                obs.prefix_outcomes_unused += node.set_script(Vec::new());
                h
            }
            Step::Maint { op, outs, dead } => run.maint("prefix", *op, outs, *dead, &mut obs)?,
        };
        if hung {
            abort = true;
            break;
        }
    }
    obs.prefix_calls = obs.calls.len();

    if !abort {
        node.set_script(sc.script.clone());
        let cap = 2 * sc.script.len() + 2;
        let mut script_calls = 0;
        while node.remaining() > 0 && script_calls < cap {
            script_calls += 1;
            if run.call(false, &mut obs)? {
                abort = true;
                break;
            }
            let c = obs.calls.last().unwrap();
            if c.attempts.is_empty() && !c.excused {
                obs.stalled = true;
                break;
            }
        }
    }
    if !abort {
        if node.remaining() > 0 {
            obs.stalled = true;
        }
        obs.dropped_outcomes = node.set_healthy();
        if let Some(op) = sc.recover {
            abort = run.maint("recover", op, &[], false, &mut obs)?;
        }
    }
    if !abort {
        for _ in 0..HEALTHY_CALLS {
            if run.call(true, &mut obs)? {
                break;
            }
        }
    }
    let errs = node.errors();
    let anomalies = node.anomalies();
    drop(driver);
    node.stop();
    if !errs.is_empty() {
        return Err(format!("fake node trouble: {}", errs.join("; ")));
    }
    if let Some(a) = anomalies.first() {
        obs.disturbed = Some(a.clone());
    }
    super::mark_slow_calls(&mut obs);
    Ok(obs)
}

pub fn judge_prefixed(sc: &PScenario, obs: &ScenObs) -> Vec<Viol> {
    let label = sc.label();
    let mut out = super::judge_calls(sc.kind, sc.max, &label, obs);
    let f = sc.kind.name();
    for m in &obs.maint {
        let (key, what) = match &m.res {
            MRes::Hang => (
                format!("C19:maintenance-call-hung:{}:{f}", m.op.name()),
                format!("{}{} did not return within the watchdog (>= 10 s of this process running)", m.op.name(), if m.dead { " against a dead node" } else { "" }),
            ),
            MRes::Panic(p) => (format!("C19:panic:{f}"), format!("{} panicked: {p}", m.op.name())),
            _ => continue,
        };
        if !out.iter().any(|v| v.key == key) {
            out.push(Viol { key, what: format!("{what}; scenario {label}; calls: {}", super::show_calls(obs)) });
        }
    }
    out
}

pub fn account_prefixed(st: &mut super::Stats, sc: &PScenario, obs: &ScenObs) {
    let f = sc.kind.name();
    let cat = catalogue();
    // the calls count exactly like those of the plain scenarios
    let stand_in = super::Scenario { kind: sc.kind, api: sc.api, max: sc.max, garbage: sc.garbage, err_code: 0, script: sc.script.clone() };
    super::account_single(st, &stand_in, obs);
    st.bump(&format!("{f}:prefixed:scenarios"));
    st.bump(&format!("{f}:prefixed:prefix:{}", cat[sc.prefix].name));
    if let Some(r) = sc.recover {
        st.bump(&format!("{f}:prefixed:recover:{}", r.name()));
    }
    st.add(&format!("{f}:prefixed:prefix_outcomes_never_reached(info)"), obs.prefix_outcomes_unused as u64);
    for (i, c) in obs.calls.iter().enumerate() {
        st.bump(&format!("{f}:prefixed:calls"));
        let replied = c.attempts.iter().any(|a| a.outcome.is_reply());
        if replied && c.new_connects == Some(0) {
            // the call travelled on a connection that existed before it; made or left by
            // which maintenance call (if one came right before it)?
            if let Some(m) = obs.maint.iter().filter(|m| m.at_call == i).last() {
                st.bump(&format!("{f}:prefixed:call_answered_on_connection_left_by:{}", m.op.name()));
            }
        }
        if c.healthy_phase {
            st.bump(&format!("{f}:prefixed:healthy_calls"));
            if matches!(c.res, Res::Ok(_)) {
                st.bump(&format!("{f}:prefixed:healthy_calls_succeeded"));
            }
            if c.excused {
                st.bump(&format!("{f}:prefixed:healthy_calls_excused"));
            }
        }
    }
    for m in &obs.maint {
        let o = m.op.name();
        st.calls += 1;
        st.attempts += m.attempts.len() as u64;
        st.bump(&format!("{f}:maint:{o}"));
        st.bump(&format!("{f}:maint:{o}:{}", m.phase));
        if m.excused {
            st.bump(&format!("{f}:maint:{o}:while_cached_connection_was_killed"));
        }
        match m.connected_before {
            Some(true) => st.bump(&format!("{f}:maint:{o}:with_a_client_cached")),
            Some(false) => st.bump(&format!("{f}:maint:{o}:with_no_client_cached")),
            None => {}
        }
        if m.connection_outlived_the_client {
            st.bump(&format!("{f}:maint:{o}:connection_outlived_the_client(info)"));
        }
        if m.dead {
            st.bump(&format!("{f}:maint:{o}:against_dead_node"));
            if !matches!(m.res, MRes::Hang | MRes::Panic(_)) {
                st.bump(&format!("{f}:maint:{o}:against_dead_node_returned"));
            }
        }
        match &m.res {
            MRes::Summary { ok, failed } => {
                if ok.iter().any(|n| n == "n0") {
                    st.bump(&format!("{f}:maint:{o}:reported_ok"));
                }
                if failed.iter().any(|n| n == "n0") {
                    st.bump(&format!("{f}:maint:{o}:reported_failed"));
                }
                if ok.is_empty() && failed.is_empty() {
                    st.bump(&format!("{f}:maint:{o}:reported_nothing(info)"));
                }
                if m.op == MOp::Reconnect && m.excused && m.new_connects == 0 {
                    st.bump(&format!("{f}:maint:{o}:left_half_open_client_in_place(info)"));
                }
                if m.op == MOp::DisconnectAll && m.connected_after == Some(true) {
                    st.bump(&format!("{f}:maint:{o}:is_connected_true_afterwards(info)"));
                }
                if matches!(m.op, MOp::ConnectAll | MOp::Reconnect) && m.new_connects > 0 && m.unused_connections_held > 0 {
                    st.bump(&format!("{f}:maint:{o}:made_a_connection"));
                }
            }
            MRes::Health(h) => {
                match h.get("n0") {
                    Some((true, _)) => st.bump(&format!("{f}:maint:{o}:reported_healthy")),
                    Some((false, _)) => st.bump(&format!("{f}:maint:{o}:reported_unhealthy")),
                    None => st.bump(&format!("{f}:maint:{o}:reported_nothing(info)")),
                }
                // informational: the report against what the node did with the health request
                let answered = m.attempts.iter().any(|a| matches!(a.realized, super::node::Realized::ReplyOk));
                if let Some((healthy, _)) = h.get("n0") {
                    if *healthy != answered {
                        st.bump(&format!("{f}:maint:{o}:report_differs_from_what_the_node_did(info)"));
                    }
                }
                if !m.attempts.is_empty() && m.new_connects == 0 {
                    st.bump(&format!("{f}:maint:{o}:request_travelled_on_cached_connection"));
                }
                for a in &m.attempts {
                    st.bump(&format!("{f}:maint:{o}:request_met:{}", a.outcome.name()));
                }
                if m.connected_after == Some(true) && h.get("n0").is_some_and(|(healthy, e)| !healthy && !matches!(e, Some(Res::Server { .. }))) {
                    st.bump(&format!("{f}:maint:{o}:is_connected_true_after_failed_check(info)"));
                }
            }
            MRes::Hang => st.bump(&format!("{f}:maint:{o}:hung")),
            MRes::Panic(_) => st.bump(&format!("{f}:maint:{o}:panicked")),
        }
        // differential observations of the three views of "connected" (not judged)
        if let (Some(one), Some(all), Some(names)) = (m.connected_after, m.connected_all_after, m.connected_nodes_after.as_ref()) {
            if one == all && one == names.iter().any(|n| n == "n0") {
                st.bump("info:connected_views_agree");
            } else {
                st.bump("info:connected_views_differ");
            }
        }
        st.signatures.insert(format!(
            "{f}|{o}|{}|{}|{}",
            if m.dead { "dead" } else { "up" },
            super::letters(&m.outs),
            match &m.res {
                MRes::Summary { ok, failed } => format!("ok{}:failed{}", ok.len(), failed.len()),
                MRes::Health(h) => h.get("n0").map(|(b, e)| format!("{b}:{}", e.as_ref().map(|e| e.class()).unwrap_or_default())).unwrap_or_default(),
                MRes::Hang => "hang".into(),
                MRes::Panic(_) => "panic".into(),
            }
        ));
    }
}
