//! C15 — the registry clause while something OTHER than the connection touches the registry
//! entry of its peer: "with a peer registry attached, the peer and its aliases are present from
//! connect until [the disconnect callbacks have run] and absent afterwards".
//!
//! The harness plays the embedder: from its own thread it calls the public API of the shared
//! `PeerRegistry` (`broadcast_notify_json/_beve/_utf8/_raw`, `get`, `get_by`, `aliases_for`,
//! `key_for`, `len`, `peers`) and of the `PeerHandle`s it hands out (`send_notify`,
//! `is_connected`), and samples the registry after EACH call (`Ev::Ext`). Three families:
//!
//!  1. `WriteCut`: a one-directional transport fault. The server's writes on the connection fail
//!     (`a_to_b.fail_writer(BrokenPipe)`), its reads stay open and silent. One outbound frame (a
//!     probe's response, a broadcast, a targeted notify, or whatever the phase had queued anyway)
//!     makes the connection's writer task hit the error and exit, which the harness observes as
//!     `PeerHandle::is_connected() == false` (`Ev::WriterDead`). The reader is alive, no disconnect
//!     callback has run: the connection is STILL BEING SERVED. Now the embedder's calls are made
//!     (their sends report `Disconnected`; not judged) and the peer and its alias must still be
//!     there after each. Where the connection's own thread is parked in a callback at the moment
//!     of the fault (inline handler, connect hook) the calls are also made before the callback is
//!     released (stage `write-cut-armed`: the writer cannot have run yet). The connection is then
//!     ended from the client side (Close, Drop, cut of the read side, or a request whose response
//!     cannot be queued any more) and the usual clauses decide: hooks exactly once, in order,
//!     absent afterwards, a parked off-reader handler observes cancellation.
//!  2. The same calls against a HEALTHY connection in every phase (idle, inline handler parked,
//!     off-reader handler parked, outbound queue non-empty and completely full, connect hook parked
//!     after the registry insert), ended by Close / Drop / Cut / Text / Cancel / Abort.
//!  3. Two connections sharing the registry: A with a dead writer and still served, B healthy
//!     (accepted before or after A's fault); the calls; one of them ends; the calls again (the
//!     other one must still be there); the other one ends.
//!
//! The external calls are made at quiescent moments of the connection (see the assumption in
//! c15.rs); what is enumerated is the sequence, not the interleaving with a step of the
//! connection (the loom part owns that).

use super::mem::{MemConn, MemScenario, Run, next_msg, placeholder, request};
use super::{Cause, Cell, ConnFacts, Counters, Ev, Outcome, PHASES, Phase, Plan, VARIANTS, Variant, WATCHDOG, World, build_server, bump, evaluate, name, variant_from_json};
use crate::ctx::Tier;
use crate::frames::Frame;
use crate::wsh::Got;
use repe::websocket_server::ShutdownToken;
use repe::{NotifyBody, PeerHandle, PeerId, PeerSendError};
use serde_json::{Value, json};
use std::collections::HashMap;
use std::sync::Arc;
use std::time::{Duration, Instant};
use tokio_tungstenite::tungstenite::Message as WsMessage;

pub(crate) const RULE: &str = "registry traffic from OUTSIDE the connection (the harness as embedder calls PeerRegistry::broadcast_notify_json/_beve/_utf8/_raw, PeerHandle::send_notify through get / get_by(alias), get, get_by, aliases_for, key_for, len, peers, is_connected; after EACH call it samples get(id), get_by(alias), aliases_for(id) and logs the sample as an event): (a) WriteCut rows, a one-directional fault (the server's writes fail with BrokenPipe, its reads stay open and silent) on a connection in phase Idle / Off-reader parked / Inline parked / Outbound queue non-empty / connect hook parked; one outbound frame (probe response, broadcast, targeted notify, or what the phase had queued) makes the writer task exit, observed as is_connected() == false while no disconnect hook has run; the calls (each call 1..n times, and all calls in a row in every rotation) are made against the still-served connection, for parked callbacks also between the fault and the callback's release; then the connection is ended by client Close / Drop / cut of the read side / a request whose response cannot be queued; (b) the same calls against a healthy connection in every phase (incl. an outbound queue filled until send_notify reports Full), ended by Close / Drop / Cut / Text / Cancel / Abort; (c) two connections on one registry, A write-cut and still served, B healthy and accepted before or after A's fault, the calls, one of them ends, the calls again, the other ends (both orders)";

// ------------------------------------------------------------------ alphabet

#[derive(Clone, Copy, Debug, PartialEq, Eq, PartialOrd, Ord)]
pub(crate) enum Op {
    BcastJson,
    BcastBeve,
    BcastUtf8,
    BcastRaw,
    /// `registry.get(id)` then `PeerHandle::send_notify`
    SendViaGet,
    /// `registry.get_by(alias)` then `PeerHandle::send_notify`
    SendViaAlias,
    Get,
    GetBy,
    AliasesFor,
    KeyFor,
    Len,
    Peers,
    /// `registry.get(id)` then `PeerHandle::is_connected`
    IsConnected,
}

pub(crate) const OPS: [Op; 13] = [
    Op::BcastJson,
    Op::BcastBeve,
    Op::BcastUtf8,
    Op::BcastRaw,
    Op::SendViaGet,
    Op::SendViaAlias,
    Op::Get,
    Op::GetBy,
    Op::AliasesFor,
    Op::KeyFor,
    Op::Len,
    Op::Peers,
    Op::IsConnected,
];
const BCASTS: [Op; 4] = [Op::BcastJson, Op::BcastBeve, Op::BcastUtf8, Op::BcastRaw];

impl Op {
    fn label(self) -> &'static str {
        match self {
            Op::BcastJson => "x:broadcast_notify_json",
            Op::BcastBeve => "x:broadcast_notify_beve",
            Op::BcastUtf8 => "x:broadcast_notify_utf8",
            Op::BcastRaw => "x:broadcast_notify_raw",
            Op::SendViaGet => "x:get+send_notify",
            Op::SendViaAlias => "x:get_by+send_notify",
            Op::Get => "x:get",
            Op::GetBy => "x:get_by",
            Op::AliasesFor => "x:aliases_for",
            Op::KeyFor => "x:key_for",
            Op::Len => "x:len",
            Op::Peers => "x:peers",
            Op::IsConnected => "x:get+is_connected",
        }
    }
    /// one call concerns every registered peer (otherwise it is made once per live connection)
    fn global(self) -> bool {
        matches!(self, Op::BcastJson | Op::BcastBeve | Op::BcastUtf8 | Op::BcastRaw | Op::Len | Op::Peers)
    }
}

#[derive(Clone, Copy, Debug, PartialEq, Eq)]
pub(crate) enum OpsPlan {
    /// one call, made `n` times in a row
    Rep(Op, usize),
    /// every call once, starting with `OPS[rot]`
    All(usize),
}

impl OpsPlan {
    fn seq(self) -> Vec<Op> {
        match self {
            OpsPlan::Rep(op, n) => vec![op; n],
            OpsPlan::All(rot) => (0..OPS.len()).map(|k| OPS[(rot + k) % OPS.len()]).collect(),
        }
    }
}

/// What makes the writer of a write-cut connection touch the wire.
#[derive(Clone, Copy, Debug, PartialEq, Eq, PartialOrd, Ord)]
pub(crate) enum Trigger {
    /// the client sends a probe request; its response is the frame
    Probe,
    /// the embedder broadcasts
    Bcast,
    /// the embedder sends one notify through `get_by(alias)` (`get(id)` where no alias exists)
    Targeted,
    /// what the phase has queued or will queue by itself (the responses already in the queue, the connect
    /// hook's notifies, the parked inline handler's response)
    Pending,
}
const TRIGGERS: [Trigger; 4] = [Trigger::Probe, Trigger::Bcast, Trigger::Targeted, Trigger::Pending];

/// (phase, trigger) combinations that can be executed
const CUTS: [(Phase, Trigger); 11] = [
    (Phase::Idle, Trigger::Probe),
    (Phase::Idle, Trigger::Bcast),
    (Phase::Idle, Trigger::Targeted),
    (Phase::Off, Trigger::Probe),
    (Phase::Off, Trigger::Bcast),
    (Phase::Off, Trigger::Targeted),
    // (the reader is inside the handler: the client cannot trigger anything)
    (Phase::Inline, Trigger::Bcast),
    (Phase::Inline, Trigger::Targeted),
    (Phase::Inline, Trigger::Pending),
    (Phase::Outbound, Trigger::Pending),
    (Phase::Connect, Trigger::Pending),
];

#[derive(Clone, Copy, Debug, PartialEq, Eq, PartialOrd, Ord)]
pub(crate) enum End {
    Close,
    Drop,
    /// write-cut rows: the read side is cut as well (the write side already fails)
    Cut,
    /// write-cut rows only: a request arrives, its response cannot be queued, the reader gives up
    Request,
    Text,
    Cancel,
    Abort,
}
const ENDS: [End; 7] = [End::Close, End::Drop, End::Cut, End::Request, End::Text, End::Cancel, End::Abort];
const CUT_ENDS: [End; 4] = [End::Close, End::Drop, End::Cut, End::Request];
const HEALTHY_ENDS: [End; 6] = [End::Close, End::Drop, End::Cut, End::Text, End::Cancel, End::Abort];
const SECOND_ENDS: [End; 4] = [End::Close, End::Drop, End::Cut, End::Cancel];

impl End {
    fn cause(self) -> Cause {
        match self {
            End::Close | End::Request => Cause::Close,
            End::Drop => Cause::Drop,
            End::Cut => Cause::Cut,
            End::Text => Cause::Text,
            End::Cancel => Cause::Cancel,
            End::Abort => Cause::Abort,
        }
    }
}

#[derive(Clone, Copy, Debug, PartialEq, Eq)]
pub(crate) struct ExtConn {
    pub phase: Phase,
    /// `Some`: the connection gets the one-directional write fault
    pub cut: Option<Trigger>,
    pub end: End,
}

#[derive(Clone, Debug)]
pub(crate) struct ExtScenario {
    pub variant: Variant,
    /// one connection, or two (then the first one is the write-cut one)
    pub conns: Vec<ExtConn>,
    pub ops: OpsPlan,
    /// two connections: the second one is accepted after the first one's writer died
    pub late_second: bool,
    /// two connections: the write-cut one ends first (default: the healthy one first)
    pub reverse_end: bool,
    /// healthy Outbound rows: before the calls, notifies are sent until one reports `Full`
    pub fill: bool,
}

fn parse<T: Copy + std::fmt::Debug>(all: &[T], s: Option<&str>) -> Option<T> {
    let s = s?;
    all.iter().copied().find(|x| format!("{x:?}") == s)
}

impl ExtScenario {
    pub(crate) fn to_json(&self) -> Value {
        json!({
            "kind": "ext",
            "variant": name(self.variant),
            "conns": self.conns.iter().map(|c| json!({"phase": name(c.phase), "write_cut_trigger": c.cut.map(name), "end": name(c.end)})).collect::<Vec<_>>(),
            "ops": match self.ops {
                OpsPlan::Rep(op, n) => json!({"call": name(op), "times": n}),
                OpsPlan::All(rot) => json!({"all_calls_starting_with": name(OPS[rot % OPS.len()])}),
            },
            "late_second": self.late_second,
            "reverse_end": self.reverse_end,
            "fill": self.fill,
        })
    }
    pub(crate) fn from_json(v: &Value) -> Result<ExtScenario, String> {
        let mut conns = Vec::new();
        for c in v["conns"].as_array().ok_or("conns")? {
            conns.push(ExtConn {
                phase: parse(&PHASES, c["phase"].as_str()).ok_or("phase")?,
                cut: match c["write_cut_trigger"].as_str() {
                    None => None,
                    s => Some(parse(&TRIGGERS, s).ok_or("trigger")?),
                },
                end: parse(&ENDS, c["end"].as_str()).ok_or("end")?,
            });
        }
        let o = &v["ops"];
        let ops = if let Some(first) = o["all_calls_starting_with"].as_str() {
            OpsPlan::All(OPS.iter().position(|x| name(x) == first).ok_or("ops.all")?)
        } else {
            OpsPlan::Rep(parse(&OPS, o["call"].as_str()).ok_or("ops.call")?, o["times"].as_u64().ok_or("ops.times")? as usize)
        };
        if conns.is_empty() || conns.len() > 2 {
            return Err("1 or 2 connections".into());
        }
        Ok(ExtScenario {
            variant: variant_from_json(&v["variant"])?,
            conns,
            ops,
            late_second: v["late_second"].as_bool().unwrap_or(false),
            reverse_end: v["reverse_end"].as_bool().unwrap_or(false),
            fill: v["fill"].as_bool().unwrap_or(false),
        })
    }
}

// ---------------------------------------------------------------- enumeration

fn one(variant: Variant, c: ExtConn, ops: OpsPlan, fill: bool) -> ExtScenario {
    ExtScenario { variant, conns: vec![c], ops, late_second: false, reverse_end: false, fill }
}

const HEALTHY_PHASES: [(Phase, bool); 6] =
    [(Phase::Idle, false), (Phase::Inline, false), (Phase::Off, false), (Phase::Outbound, false), (Phase::Outbound, true), (Phase::Connect, false)];

fn max_reps(tier: Tier) -> usize {
    tier.pick(2, 3)
}

pub(crate) fn enumerate(tier: Tier) -> Vec<ExtScenario> {
    let mut v = Vec::new();
    let full = Variant::CancelHandshake;
    // ---- (a) one write-cut connection
    let mut k = 0usize;
    for &(phase, trig) in &CUTS {
        for &end in &CUT_ENDS {
            let c = ExtConn { phase, cut: Some(trig), end };
            match tier {
                Tier::Quick => {
                    // every call once, on the entry point that has handshake and token; all calls in a row
                    // (rotating start) on every entry point; every call twice on a rotating end
                    for &op in &OPS {
                        v.push(one(full, c, OpsPlan::Rep(op, 1), false));
                    }
                    for (j, &variant) in VARIANTS.iter().enumerate() {
                        v.push(one(variant, c, OpsPlan::All((k + 3 * j) % OPS.len()), false));
                    }
                    let (i, _) = CUTS.iter().enumerate().find(|(_, x)| **x == (phase, trig)).expect("cut");
                    if CUT_ENDS[i % CUT_ENDS.len()] == end {
                        for &op in &OPS {
                            v.push(one(VARIANTS[(i + 1) % VARIANTS.len()], c, OpsPlan::Rep(op, 2), false));
                        }
                    }
                }
                Tier::Thorough => {
                    for &variant in &VARIANTS {
                        for &op in &OPS {
                            for n in 1..=max_reps(tier) {
                                v.push(one(variant, c, OpsPlan::Rep(op, n), false));
                            }
                        }
                        for rot in 0..OPS.len() {
                            v.push(one(variant, c, OpsPlan::All(rot), false));
                        }
                    }
                }
            }
            k += 1;
        }
    }
    // ---- (b) one healthy connection
    let mut k = 0usize;
    for &(phase, fill) in &HEALTHY_PHASES {
        for &end in &HEALTHY_ENDS {
            let c = ExtConn { phase, cut: None, end };
            for (j, &variant) in VARIANTS.iter().enumerate() {
                if end == End::Cancel && !variant.has_token() {
                    continue;
                }
                match tier {
                    Tier::Quick => {
                        v.push(one(variant, c, OpsPlan::All((k + 5 * j) % OPS.len()), fill));
                        if variant == full {
                            for &op in &OPS {
                                v.push(one(variant, c, OpsPlan::Rep(op, 1), fill));
                            }
                        }
                    }
                    Tier::Thorough => {
                        for &op in &OPS {
                            for n in 1..=max_reps(tier) {
                                v.push(one(variant, c, OpsPlan::Rep(op, n), fill));
                            }
                        }
                        for rot in 0..OPS.len() {
                            v.push(one(variant, c, OpsPlan::All(rot), fill));
                        }
                    }
                }
            }
            k += 1;
        }
    }
    // ---- (c) two connections on one registry: A write-cut and still served, B healthy
    let mut k = 0usize;
    for &(aphase, trig) in &CUTS {
        for &bphase in &PHASES {
            for late_second in [false, true] {
                for reverse_end in [false, true] {
                    let two = |a_end: End, b_end: End, ops: OpsPlan| ExtScenario {
                        variant: full,
                        conns: vec![ExtConn { phase: aphase, cut: Some(trig), end: a_end }, ExtConn { phase: bphase, cut: None, end: b_end }],
                        ops,
                        late_second,
                        reverse_end,
                        fill: false,
                    };
                    match tier {
                        Tier::Quick => {
                            let a_end = CUT_ENDS[k % CUT_ENDS.len()];
                            let b_end = SECOND_ENDS[(k / CUT_ENDS.len()) % SECOND_ENDS.len()];
                            v.push(two(a_end, b_end, OpsPlan::All(k % OPS.len())));
                            v.push(two(a_end, b_end, OpsPlan::Rep(OPS[k % OPS.len()], 1)));
                        }
                        Tier::Thorough => {
                            for &a_end in &CUT_ENDS {
                                for &b_end in &SECOND_ENDS {
                                    v.push(two(a_end, b_end, OpsPlan::All(k % OPS.len())));
                                    for &op in &BCASTS {
                                        v.push(two(a_end, b_end, OpsPlan::Rep(op, 1)));
                                    }
                                }
                            }
                        }
                    }
                    k += 1;
                }
            }
        }
    }
    v
}

pub(crate) fn alphabet_json() -> Value {
    json!({
        "calls": OPS.iter().map(|o| o.label()).collect::<Vec<_>>(),
        "sampled_after_each_call": ["PeerRegistry::get(id)", "PeerRegistry::get_by(alias)", "PeerRegistry::aliases_for(id) lists the alias"],
        "write_cut": {"phase_x_trigger": CUTS.iter().map(|(p, t)| format!("{p:?}x{t:?}")).collect::<Vec<_>>(), "ends": CUT_ENDS.iter().map(name).collect::<Vec<_>>()},
        "healthy": {"phases": HEALTHY_PHASES.iter().map(|(p, f)| format!("{p:?}{}", if *f { "+queue filled until Full" } else { "" })).collect::<Vec<_>>(), "ends": HEALTHY_ENDS.iter().map(name).collect::<Vec<_>>()},
        "two_connections": {"first": "write-cut (every phase x trigger)", "second": "healthy (every phase), accepted before / after the first one's fault", "second_ends": SECOND_ENDS.iter().map(name).collect::<Vec<_>>(), "ending_order": ["healthy first", "write-cut first"]},
        "stages": ["healthy", "write-cut-armed", "writer-dead", "other-peer-ended"],
    })
}

pub(crate) fn bound_json(tier: Tier) -> Value {
    match tier {
        Tier::Quick => json!({
            "write_cut": "every phase x trigger x end: each call once (entry point with handshake and token), all calls in a row on each of the 4 entry points (rotating start), each call twice on one end per phase x trigger",
            "healthy": "every phase x end x entry point: all calls in a row (rotating start); on the entry point with handshake and token also each call once",
            "two_connections": "every (phase x trigger) x second phase x accepted before/after x ending order; ends assigned by a fixed covering rule; all calls in a row and one single call",
            "connections_per_scenario": [1, 2],
        }),
        Tier::Thorough => json!({
            "write_cut": "every phase x trigger x end x entry point x (each call 1..3 times, all calls in a row from every starting call)",
            "healthy": "every phase x end x entry point x (each call 1..3 times, all calls in a row from every starting call)",
            "two_connections": "every (phase x trigger) x end x second phase x second end x accepted before/after x ending order x (all calls in a row, each broadcast alone)",
            "connections_per_scenario": [1, 2],
        }),
    }
}

pub(crate) fn nonvacuity_json(c: &Counters) -> Value {
    json!({
        "scenarios": c.ext_scenarios,
        "rows_family_phase_trigger_end": c.ext_rows,
        "calls_made": c.ext_ops,
        "call_results_by_stage": c.ext_results,
        "samples_judged_by_stage": c.ext_samples_by_stage,
        "of_which_with_alias_expected": c.ext_alias_samples,
        "samples_logged_after_a_disconnect_hook_not_judged": c.ext_samples_unjudged,
        "write_cuts_injected": c.ext_write_cuts,
        "writer_seen_dead": c.ext_writer_deaths_observed,
        "of_which_connection_still_served_no_disconnect_hook_yet": c.ext_served_with_dead_writer,
        "sends_reported_ok": c.ext_sends_ok,
        "sends_reported_disconnected": c.ext_sends_disconnected,
        "sends_reported_full": c.ext_sends_full,
        "notifies_sent_to_fill_the_queue": c.ext_fill_sends,
        "external_notifies_seen_on_the_wire": c.ext_notifies_on_wire,
        "calls_made_while_the_connection_thread_was_parked_in_a_callback": c.ext_calls_while_callback_parked,
        "two_connection_scenarios": c.ext_two_connection_scenarios,
        "second_connection_accepted_after_the_first_ones_writer_died": c.ext_second_accepted_after_cut,
        "samples_of_the_remaining_peer_after_the_other_one_ended": c.ext_samples_after_other_peer_ended,
        "connections_ended_by_a_request_to_a_dead_writer": c.ext_ended_by_request_to_dead_writer,
    })
}

/// counters that must not be zero
pub(crate) fn vacuity(c: &Counters) -> Vec<(String, u64)> {
    let mut v: Vec<(String, u64)> = vec![
        ("no scenario with registry traffic from outside the connection ran".into(), c.ext_scenarios),
        ("no write cut was injected".into(), c.ext_write_cuts),
        ("no writer was seen dead".into(), c.ext_writer_deaths_observed),
        ("no connection was still served when its writer was seen dead".into(), c.ext_served_with_dead_writer),
        ("no external send reported Disconnected".into(), c.ext_sends_disconnected),
        ("no external send reported Full".into(), c.ext_sends_full),
        ("no external send reported Ok".into(), c.ext_sends_ok),
        ("no outbound queue was filled".into(), c.ext_fill_sends),
        ("no external notify reached the wire".into(), c.ext_notifies_on_wire),
        ("no external call was made while a callback of the connection was parked".into(), c.ext_calls_while_callback_parked),
        ("no two-connection scenario ran".into(), c.ext_two_connection_scenarios),
        ("no second connection was accepted after the first one's writer died".into(), c.ext_second_accepted_after_cut),
        ("the remaining peer was never sampled after the other one ended".into(), c.ext_samples_after_other_peer_ended),
        ("no connection was ended by a request to a dead writer".into(), c.ext_ended_by_request_to_dead_writer),
        ("no sample with an alias expected".into(), c.ext_alias_samples),
    ];
    for stage in ["healthy", "write-cut-armed", "writer-dead", "other-peer-ended"] {
        v.push((format!("no judged sample in stage '{stage}'"), c.ext_samples_by_stage.get(stage).copied().unwrap_or(0)));
    }
    for op in OPS {
        v.push((format!("call {} never made", op.label()), c.ext_ops.get(op.label()).copied().unwrap_or(0)));
    }
    for (p, t) in CUTS {
        let key = format!("write-cut:{p:?}:{t:?}:");
        v.push((format!("no row {key}*"), c.ext_rows.iter().filter(|(k, _)| k.starts_with(&key)).map(|(_, n)| *n).sum()));
    }
    for (p, f) in HEALTHY_PHASES {
        let key = format!("healthy:{p:?}{}:", if f { "+full" } else { "" });
        v.push((format!("no row {key}*"), c.ext_rows.iter().filter(|(k, _)| k.starts_with(&key)).map(|(_, n)| *n).sum()));
    }
    v
}

// ------------------------------------------------------------------ execution

fn class(r: &Result<(), PeerSendError>) -> &'static str {
    match r {
        Ok(()) => "ok",
        Err(PeerSendError::Disconnected) => "disconnected",
        Err(PeerSendError::Full) => "full",
        Err(_) => "other-error",
    }
}

struct Driver<'r, 'a> {
    run: &'r mut Run<'a>,
    sc: &'r ExtScenario,
    w: Arc<World>,
    /// connections accepted and not yet ended
    alive: Vec<usize>,
    seq: u64,
}

impl Driver<'_, '_> {
    fn count_send(&mut self, r: &Result<(), PeerSendError>) {
        let c = &mut self.run.out.counters;
        match r {
            Ok(()) => c.ext_sends_ok += 1,
            Err(PeerSendError::Disconnected) => c.ext_sends_disconnected += 1,
            Err(PeerSendError::Full) => c.ext_sends_full += 1,
            Err(_) => {}
        }
    }

    fn body(&mut self) -> Vec<u8> {
        self.seq += 1;
        format!("{{\"x\":{}}}", self.seq).into_bytes()
    }

    /// One public call; the result for each live connection's peer.
    fn call(&mut self, op: Op, target: usize) -> HashMap<usize, String> {
        let w = self.w.clone();
        let reg = &w.reg;
        let ids: Vec<(usize, Option<PeerId>)> = self.alive.iter().map(|c| (*c, w.peer_of(*c))).collect();
        let mut res: HashMap<usize, String> = HashMap::new();
        let spread = |m: HashMap<PeerId, Result<(), PeerSendError>>, me: &mut Self, res: &mut HashMap<usize, String>| {
            for (c, id) in &ids {
                let r = id.and_then(|id| m.get(&id));
                match r {
                    Some(r) => {
                        me.count_send(r);
                        res.insert(*c, class(r).into());
                    }
                    None => {
                        res.insert(*c, "not-addressed".into());
                    }
                }
            }
        };
        let tid = ids.iter().find(|(c, _)| *c == target).and_then(|(_, id)| *id);
        let alias = w.plans.get(target).map(|p| p.alias.clone()).unwrap_or_default();
        let send = |h: Option<PeerHandle>, path: &str, me: &mut Self| -> String {
            match h {
                None => "none".into(),
                Some(h) => {
                    let r = h.send_notify(path, NotifyBody::Json(me.body()));
                    me.count_send(&r);
                    class(&r).into()
                }
            }
        };
        match op {
            Op::BcastJson => {
                self.seq += 1;
                match reg.broadcast_notify_json("/x/bj", &json!({"x": self.seq})) {
                    Ok(m) => spread(m, self, &mut res),
                    Err(e) => self.run.out.stuck.push(format!("broadcast_notify_json could not encode: {e}")),
                }
            }
            Op::BcastBeve => {
                self.seq += 1;
                match reg.broadcast_notify_beve("/x/bb", &self.seq) {
                    Ok(m) => spread(m, self, &mut res),
                    Err(e) => self.run.out.stuck.push(format!("broadcast_notify_beve could not encode: {e}")),
                }
            }
            Op::BcastUtf8 => {
                self.seq += 1;
                let m = reg.broadcast_notify_utf8("/x/bu", format!("x{}", self.seq));
                spread(m, self, &mut res);
            }
            Op::BcastRaw => {
                let b = self.body();
                let m = reg.broadcast_notify_raw("/x/br", repe::BodyFormat::RawBinary, &b);
                spread(m, self, &mut res);
            }
            Op::SendViaGet => {
                let h = tid.and_then(|id| reg.get(id));
                let r = send(h, "/x/sg", self);
                res.insert(target, r);
            }
            Op::SendViaAlias => {
                let h = reg.get_by(alias.as_str());
                let r = send(h, "/x/sa", self);
                res.insert(target, r);
            }
            Op::Get => {
                res.insert(target, if tid.and_then(|id| reg.get(id)).is_some() { "some" } else { "none" }.into());
            }
            Op::GetBy => {
                res.insert(target, if reg.get_by(alias.as_str()).is_some() { "some" } else { "none" }.into());
            }
            Op::AliasesFor => {
                res.insert(target, format!("{}-aliases", tid.map(|id| reg.aliases_for(id).len()).unwrap_or(0)));
            }
            Op::KeyFor => {
                res.insert(target, if tid.and_then(|id| reg.key_for(id)).is_some() { "some" } else { "none" }.into());
            }
            Op::Len => {
                let n = reg.len();
                for (c, _) in &ids {
                    res.insert(*c, format!("len={n}"));
                }
            }
            Op::Peers => {
                let ps = reg.peers();
                for (c, id) in &ids {
                    res.insert(*c, if id.is_some_and(|id| ps.iter().any(|h| h.peer_id() == id)) { "listed" } else { "not-listed" }.into());
                }
            }
            Op::IsConnected => {
                let r = match tid.and_then(|id| reg.get(id)) {
                    None => "none",
                    Some(h) if h.is_connected() => "connected",
                    Some(_) => "not-connected",
                };
                res.insert(target, r.into());
            }
        }
        bump(&mut self.run.out.counters.ext_ops, op.label());
        res
    }

    /// The calls of the plan, a registry sample of every live connection after each.
    fn calls(&mut self, stage: &'static str) {
        let w = self.w.clone();
        // measured: is a callback of a live connection parked right now (its thread blocked)?
        let parked = self.alive.iter().any(|c| {
            let p = &w.plans[*c];
            (p.phase == Phase::Inline && p.inline_gate.waiting() == 1) || (p.phase == Phase::Connect && p.hook_gate.waiting() == 1)
        });
        for op in self.sc.ops.seq() {
            let targets: Vec<usize> = if op.global() { self.alive.first().copied().into_iter().collect() } else { self.alive.clone() };
            for t in targets {
                let res = self.call(op, t);
                if parked {
                    self.run.out.counters.ext_calls_while_callback_parked += 1;
                }
                for c in self.alive.clone() {
                    let r = res.get(&c).cloned().unwrap_or_else(|| "-".into());
                    if r != "-" {
                        bump(&mut self.run.out.counters.ext_results, format!("{stage}:{}:{r}", op.label()));
                    }
                    self.sample(c, op.label(), stage, r);
                }
            }
        }
    }

    fn sample(&mut self, conn: usize, op: &'static str, stage: &'static str, res: String) {
        let w = self.w.clone();
        match w.peer_of(conn) {
            Some(id) => {
                let (present, alias) = w.sample(conn, id);
                let listed = w.reg.aliases_for(id).iter().any(|a| *a == w.plans[conn].alias);
                w.push(Ev::Ext { conn, op, stage, res, present, alias, listed });
            }
            None => self.run.stuck(conn, "no peer id was bound to the connection"),
        }
    }

    async fn accept(&mut self, idx: usize) -> MemConn {
        let mut c = self.run.bring(idx).await;
        c.ext = true;
        let w = self.w.clone();
        if matches!(w.plans[idx].phase, Phase::Idle | Phase::Off | Phase::Outbound) {
            // One more (notify) request, which produces no outbound frame. Once the reader has handled it,
            // (Outbound) the third response is in the queue, and (Idle) the writer's poll that wrote the
            // first response -- which the client can read before that poll has flushed -- is over (one
            // thread per connection: the reader is polled after it): a write fault injected from here on
            // cannot hit the tail of an earlier send.
            self.run.send(&mut c, WsMessage::Binary(Frame::request(13, "/probe", b"{\"n\":13}", 2, true).to_bytes())).await;
            if !w.wait(WATCHDOG, |l| l.iter().any(|e| matches!(e, Ev::Probe { conn, n: 13, .. } if *conn == idx))) {
                self.run.stuck(idx, "the notify request behind the queued ones was not handled");
            }
        }
        // a callback that parks keeps the connection's thread from here on (predicted event)
        let plan = &w.plans[idx];
        let parked = match plan.phase {
            Phase::Inline => plan.inline_gate.await_waiting(1),
            Phase::Connect => plan.hook_gate.await_waiting(1),
            _ => true,
        };
        if !parked {
            self.run.stuck(idx, "the callback of the phase never parked on its gate");
        }
        self.alive.push(idx);
        c
    }

    /// A healthy connection whose writer is free: everything the embedder queued so far is written out
    /// before the exit cause fires (a last notify is queued behind it and awaited on the client side), so
    /// that what reaches the wire does not depend on how far the writer got.
    async fn flush_wire(&mut self, c: &mut MemConn) {
        let idx = c.idx;
        let x = self.sc.conns[idx];
        if x.cut.is_some() || !matches!(x.phase, Phase::Idle | Phase::Off) || c.read_done {
            return;
        }
        let Some(h) = self.w.handle_of(idx) else { return };
        if let Err(e) = h.send_notify("/x/last", NotifyBody::Json(b"0".to_vec())) {
            self.run.stuck(idx, &format!("the last notify could not be queued on a healthy connection: {e}"));
            return;
        }
        loop {
            let Some(cl) = c.client.as_mut() else { return };
            let g = next_msg(cl, WATCHDOG).await;
            let last = matches!(&g, Got::Frame(f) if f.h.notify != 0 && f.query == b"/x/last");
            let over = matches!(&g, Got::Nothing | Got::End(_));
            if !matches!(g, Got::Nothing) {
                c.wire.push(g);
            }
            if last {
                return;
            }
            if over {
                c.read_done = true;
                self.run.stuck(idx, "the last notify queued on a healthy connection never reached the client");
                return;
            }
        }
    }

    /// Send notifies to the connection until its outbound queue reports Full.
    fn fill(&mut self, idx: usize) {
        let Some(h) = self.w.handle_of(idx) else {
            self.run.stuck(idx, "no handle kept for the connection");
            return;
        };
        let mut n = 0u64;
        loop {
            let r = h.send_notify("/x/fill", NotifyBody::Json(b"0".to_vec()));
            match r {
                Ok(()) => n += 1,
                Err(PeerSendError::Full) => break,
                Err(e) => {
                    self.run.stuck(idx, &format!("filling the outbound queue: {e}"));
                    break;
                }
            }
            if n > 100_000 {
                self.run.stuck(idx, "the outbound queue never reported Full");
                break;
            }
        }
        self.run.out.counters.ext_fill_sends += n;
    }

    /// The one-directional fault on connection `c`, up to the moment its writer is gone.
    async fn write_cut(&mut self, c: &mut MemConn, trig: Trigger) {
        let idx = c.idx;
        let w = self.w.clone();
        let plan = &w.plans[idx];
        // a server is free to tear such a connection down on its own: from here on it is "being ended"
        w.push(Ev::Ending { conn: idx });
        c.ctl.a_to_b.fail_writer(std::io::ErrorKind::BrokenPipe);
        w.push(Ev::WriteCut { conn: idx });
        self.run.out.counters.ext_write_cuts += 1;
        match trig {
            Trigger::Probe => {
                self.run.send(c, request(8, "/probe", 8)).await;
                if !w.wait(WATCHDOG, |l| l.iter().any(|e| matches!(e, Ev::Probe { conn, n: 8, .. } if *conn == idx))) {
                    self.run.stuck(idx, "the probe after the write cut was not handled");
                }
            }
            Trigger::Bcast => {
                let res = self.call(Op::BcastJson, idx);
                for a in self.alive.clone() {
                    let r = res.get(&a).cloned().unwrap_or_else(|| "-".into());
                    self.sample(a, "x:trigger:broadcast_notify_json", "trigger", r);
                }
            }
            Trigger::Targeted => {
                let op = if self.sc.variant.has_handshake() { Op::SendViaAlias } else { Op::SendViaGet };
                let res = self.call(op, idx);
                let r = res.get(&idx).cloned().unwrap_or_else(|| "-".into());
                if r != "ok" {
                    self.run.stuck(idx, &format!("the targeted notify that should trigger the write was not queued: {r}"));
                }
                self.sample(idx, "x:trigger:send_notify", "trigger", r);
            }
            Trigger::Pending => {}
        }
        // a parked callback keeps the connection's thread: the writer cannot have run yet
        let blocked = match plan.phase {
            Phase::Inline => plan.inline_gate.await_waiting(1),
            Phase::Connect => plan.hook_gate.await_waiting(1),
            _ => false,
        };
        if blocked {
            self.calls("write-cut-armed");
            match plan.phase {
                Phase::Inline => plan.inline_gate.open(),
                _ => plan.hook_gate.open(),
            }
        }
        // the writer's exit: the sink reports closed
        let Some(h) = w.handle_of(idx) else {
            self.run.stuck(idx, "no handle kept for the connection");
            return;
        };
        let t0 = Instant::now();
        while h.is_connected() && t0.elapsed() < WATCHDOG {
            tokio::task::yield_now().await;
            std::thread::sleep(Duration::from_micros(30));
        }
        if h.is_connected() {
            self.run.stuck(idx, "the writer did not exit after the write cut");
        } else {
            w.push(Ev::WriterDead { conn: idx });
        }
    }

    async fn end(&mut self, conns: &mut [MemConn], i: usize) {
        let w = self.w.clone();
        let mut c = std::mem::replace(&mut conns[i], placeholder(i));
        c.end_by_request = self.sc.conns[i].end == End::Request;
        // a server that tore the faulted connection down by itself: see that through first
        if w.has(|e| matches!(e, Ev::D1 { conn, .. } | Ev::D2 { conn, .. } if *conn == i)) {
            w.wait(WATCHDOG, |l| l.iter().any(|e| matches!(e, Ev::Served { conn, .. } if *conn == i)));
        }
        self.flush_wire(&mut c).await;
        self.run.finish(&mut c).await;
        self.alive.retain(|x| *x != i);
        conns[i] = c;
    }

    async fn drive(&mut self, conns: &mut Vec<MemConn>) {
        let sc = self.sc;
        let n = sc.conns.len();
        let cut = sc.conns[0].cut;
        let late = n == 2 && sc.late_second;
        let c0 = self.accept(0).await;
        conns.push(c0);
        if n == 2 && !late {
            let c1 = self.accept(1).await;
            conns.push(c1);
        }
        match cut {
            None => {
                if sc.fill {
                    self.fill(0);
                }
                self.calls("healthy");
            }
            Some(trig) => {
                let mut c = std::mem::replace(&mut conns[0], placeholder(0));
                self.write_cut(&mut c, trig).await;
                conns[0] = c;
                if late {
                    let c1 = self.accept(1).await;
                    conns.push(c1);
                    self.run.out.counters.ext_second_accepted_after_cut += 1;
                }
                self.calls("writer-dead");
            }
        }
        let order: Vec<usize> = match (n, sc.reverse_end) {
            (1, _) => vec![0],
            (_, false) => vec![1, 0],
            (_, true) => vec![0, 1],
        };
        for (k, i) in order.into_iter().enumerate() {
            if k > 0 {
                self.calls("other-peer-ended");
            }
            self.end(conns, i).await;
        }
    }
}

pub(crate) fn run(sc: &ExtScenario) -> Outcome {
    let mut out = Outcome::default();
    let n = sc.conns.len();
    let plans: Vec<Plan> = sc.conns.iter().enumerate().map(|(i, c)| Plan::new(i, c.end.cause(), c.phase)).collect();
    let w = World::new_keeping_handles(plans);
    let shared = build_server(&w).into_shared();
    out.counters.scenarios += 1;
    out.counters.connections += n as u64;
    out.counters.ext_scenarios += 1;
    if n == 2 {
        out.counters.ext_two_connection_scenarios += 1;
    }
    let via = format!("mem:external-registry-calls:{:?}", sc.variant);
    for c in &sc.conns {
        bump(&mut out.counters.via, via.clone());
        let row = match c.cut {
            Some(t) => format!("write-cut:{:?}:{t:?}:{:?}", c.phase, c.end),
            None => format!("healthy:{:?}{}:{:?}", c.phase, if sc.fill { "+full" } else { "" }, c.end),
        };
        bump(&mut out.counters.ext_rows, if n == 2 { format!("{row}:two-connections") } else { row });
    }
    let inner = MemScenario {
        prefix: None,
        variant: sc.variant,
        conns: sc.conns.iter().map(|c| Cell { cause: c.end.cause(), phase: c.phase }).collect(),
        shared_token: false,
        reverse_end: sc.reverse_end,
        rewrite: false,
        outbound1: false,
    };
    let rt = tokio::runtime::Builder::new_current_thread().enable_time().build().expect("runtime");
    let mut conns: Vec<MemConn> = Vec::new();
    {
        let mut run = Run { w: &w, shared: &shared, sc: &inner, out: &mut out, shared_token: None::<ShutdownToken>, shared_end: false };
        let mut d = Driver { run: &mut run, sc, w: w.clone(), alive: Vec::new(), seq: 0 };
        rt.block_on(d.drive(&mut conns));
    }
    w.forget_handles();
    for c in conns.iter_mut() {
        if let Some(t) = c.thread.take() {
            if w.has(|e| matches!(e, Ev::Gone { conn } if *conn == c.idx)) {
                let _ = t.join();
            }
        }
    }
    let facts: Vec<ConnFacts> = sc
        .conns
        .iter()
        .zip(conns.iter())
        .map(|(x, c)| ConnFacts {
            cause: x.end.cause(),
            phase: x.phase,
            accepted: true,
            has_handshake: sc.variant.has_handshake(),
            wire: c.wire.clone(),
            via: format!("{via}:{}:end={:?}", match x.cut { Some(t) => format!("write-cut({t:?})"), None => "healthy".into() }, x.end),
        })
        .collect();
    evaluate(&w, &facts, false, &mut out);
    // ---- measured facts for the evidence (nothing here is a verdict)
    let log = w.snapshot();
    if out.counters.ext_samples_unjudged > 0 && std::env::var_os("C15_DEBUG").is_some() {
        eprintln!("[C15] external samples after a disconnect hook: {} shapes {:?}", sc.to_json(), out.shapes);
    }
    for (i, x) in sc.conns.iter().enumerate() {
        let mut hello = 0;
        for g in conns.get(i).map(|c| c.wire.as_slice()).unwrap_or(&[]) {
            if let Got::Frame(f) = g {
                if f.h.notify != 0 && f.query.starts_with(b"/hello/") {
                    hello += 1;
                } else if f.h.notify != 0 && f.query.starts_with(b"/x/") {
                    out.counters.ext_notifies_on_wire += 1;
                    if hello < 2 {
                        // FIFO outbound queue: model-specific, the property orders the connect notifies
                        // against responses only
                        bump(&mut out.counters.notes, "a notify sent by the embedder from outside reached the wire before both notifies of the connect hook");
                    }
                }
            }
        }
        if x.end == End::Request {
            let probe = log.iter().position(|e| matches!(e, Ev::Probe { conn, n: 80, .. } if *conn == i));
            let d = log.iter().position(|e| matches!(e, Ev::D1 { conn, .. } if *conn == i));
            match (probe, d) {
                (Some(p), Some(d)) if p < d => out.counters.ext_ended_by_request_to_dead_writer += 1,
                (Some(_), Some(_)) => bump(&mut out.counters.notes, "a handler was dispatched after the disconnect callbacks of its connection had run"),
                _ => {}
            }
        }
    }
    out
}
