//! C07 / A4: SEVERAL mounts of the same kind in one router.
//!
//! A2 mounts one registry and one struct. Here two or three mounts share a table (all structs, all
//! registries, or mixed), their prefixes chosen so that one is another's prefix plus a byte that sorts below
//! '/' ('-', '.', '!'), above it ('0', 'z'), or is nested below it ("/s/t"), in every registration order.
//! The route shape "several mounts" must answer like the reference: a path goes to a mount whose prefix it
//! equals or extends at a '/' boundary, with exactly the remainder as segments / registry pointer; a path no
//! prefix matches is not routed; when nested mounts both match, either may answer (precedence is not part of
//! the property).

use super::{Backing, Totals, Via, invoke, request, rfc6901};
use crate::ctx::Tier;
use crate::par;
use repe::server::Router;
use repe::{Registry, RepeStruct, StructError};
use serde_json::{Value, json};
use std::sync::{Arc, Mutex};

pub(crate) const PREFIXES: &[&str] = &["/s", "/s-2", "/s.b", "/s0", "/s/t", "/s!", "/sz", "/t", "/s-2/u"];

struct Named(String);
impl RepeStruct for Named {
    fn repe_handle(&mut self, segments: &[&str], _body: Option<Value>) -> Result<Option<Value>, StructError> {
        Ok(Some(json!({"who": self.0, "segs": segments})))
    }
}

fn named_registry(who: &str) -> Arc<Registry> {
    let r = Arc::new(Registry::new());
    r.set_root(json!({
        "__who": who, "__at": "",
        "x": {"__who": who, "__at": "/x", "y": {"__who": who, "__at": "/x/y"}},
        "t": {"__who": who, "__at": "/t", "x": {"__who": who, "__at": "/t/x", "y": {"__who": who, "__at": "/t/x/y"}}},
        "u": {"__who": who, "__at": "/u", "x": {"__who": who, "__at": "/u/x", "y": {"__who": who, "__at": "/u/x/y"}}},
        "tx": {"__who": who, "__at": "/tx"},
        "ux": {"__who": who, "__at": "/ux"},
    }));
    r
}

fn remainder<'a>(prefix: &str, path: &'a str) -> Option<&'a str> {
    if path == prefix {
        return Some("");
    }
    let rest = path.strip_prefix(prefix)?;
    if rest.starts_with('/') { Some(rest) } else { None }
}

pub(crate) fn request_paths() -> Vec<String> {
    let mut v = Vec::new();
    for p in PREFIXES {
        v.push(p.to_string());
        v.push(format!("{p}/x"));
        v.push(format!("{p}/x/y"));
    }
    for extra in ["/s-", "/s-2x", "/s.", "/u", "/u/x", "/sa/x", "/s/tx", "/s /x", "/s-2/ux"] {
        v.push(extra.to_string());
    }
    v
}

#[derive(Clone)]
struct Mount {
    prefix: &'static str,
    registry: bool,
}

fn run_config(mounts: &[Mount], paths: &[String], t: &mut Totals, backing: &mut Backing, index: u64) {
    let mut router = Router::new();
    for m in mounts {
        router = if m.registry {
            router.with_registry(m.prefix, named_registry(m.prefix))
        } else {
            router.with_struct_shared::<Named, Mutex<Named>>(m.prefix, Arc::new(Mutex::new(Named(m.prefix.to_string()))))
        };
    }
    let describe = || format!("router with mounts [{}] (in this registration order)", mounts.iter().map(|m| format!("{} at {:?}", if m.registry { "registry" } else { "struct" }, m.prefix)).collect::<Vec<_>>().join(", "));
    for (pi, q) in paths.iter().enumerate() {
        t.states += 1;
        t.order = index * 1024 + pi as u64;
        let case = || json!({"space": "A4", "mounts": mounts.iter().map(|m| json!({"prefix": m.prefix, "registry": m.registry})).collect::<Vec<_>>(), "failing_path": q});
        let matching: Vec<&Mount> = mounts.iter().filter(|m| remainder(m.prefix, q).is_some()).collect();
        let kinds = if mounts.iter().all(|m| m.registry) { "registries" } else if mounts.iter().all(|m| !m.registry) { "structs" } else { "mixed" };
        let Some(h) = router.get(q) else {
            t.transitions += 1;
            if let Some(m) = matching.first() {
                t.fail(
                    format!("C07:A4:matching-path-not-routed:{kinds}"),
                    format!("{}: get({q:?}) is None although it lies at or below the mount {:?}", describe(), m.prefix),
                    case(),
                );
            } else {
                t.c.add("a4:unmatched_path_not_routed", 1);
            }
            continue;
        };
        let (req, wire) = match request(0x0400_0000_0000_0000 | pi as u64, q, b"", 2) {
            Ok(x) => x,
            Err(e) => {
                t.machinery = Some(e);
                return;
            }
        };
        for via in [Via::Handle, Via::Ctx, Via::View(0)] {
            t.transitions += 1;
            let r = match invoke(h.as_ref(), &req, &wire, backing, via) {
                Ok(r) => r,
                Err(p) => {
                    t.fail(format!("C07:A4:panic:{}", via.family()), format!("{}: {} of {q:?} panicked: {p}", describe(), via.name()), case());
                    continue;
                }
            };
            let body: Option<Value> = if r.hdr().ec == 0 { serde_json::from_slice(r.body()).ok() } else { None };
            // who answered, and with which remainder
            let (who, rest): (Option<String>, Option<Vec<String>>) = match &body {
                Some(v) if v.get("who").is_some() => (
                    v["who"].as_str().map(|s| s.to_string()),
                    v["segs"].as_array().map(|a| a.iter().map(|x| x.as_str().unwrap_or("?").to_string()).collect()),
                ),
                Some(v) if v.get("__who").is_some() => (v["__who"].as_str().map(|s| s.to_string()), v["__at"].as_str().and_then(rfc6901)),
                _ => (None, None),
            };
            if matching.is_empty() {
                // a handler was returned for a path no mount owns: it must at least not have run a mount on it
                if let Some(w) = &who {
                    t.fail(
                        format!("C07:A4:non-matching-path-routed:{kinds}"),
                        format!("{}: {q:?} neither equals a mounted prefix nor extends one at a '/' boundary, yet the mount {w:?} answered it ({})", describe(), via.name()),
                        case(),
                    );
                } else {
                    t.c.add("a4:unmatched_path_rejected_by_handler", 1);
                }
                continue;
            }
            let Some(w) = who else {
                t.fail(
                    format!("C07:A4:matching-path-not-answered:{kinds}"),
                    format!("{}: {q:?} lies at or below {:?} but the answer was ec={} {:?} ({})", describe(), matching[0].prefix, r.hdr().ec, String::from_utf8_lossy(r.body()), via.name()),
                    case(),
                );
                continue;
            };
            match matching.iter().find(|m| m.prefix == w) {
                None => t.fail(
                    format!("C07:A4:routed-to-wrong-mount:{kinds}"),
                    format!("{}: {q:?} was answered by the mount {w:?}, which does not own it (owners: {:?}) ({})", describe(), matching.iter().map(|m| m.prefix).collect::<Vec<_>>(), via.name()),
                    case(),
                ),
                Some(m) => {
                    let want = rfc6901(remainder(m.prefix, q).unwrap());
                    if rest != want {
                        t.fail(
                            format!("C07:A4:wrong-remainder:{kinds}"),
                            format!("{}: {q:?} reached the mount {w:?} as {rest:?}, the path minus the prefix is {want:?} ({})", describe(), via.name()),
                            case(),
                        );
                    } else {
                        t.c.add(if matching.len() > 1 { "a4:nested_mounts_both_matched_precedence_unchecked" } else { "a4:routed_to_the_owning_mount" }, 1);
                        if mounts.iter().any(|o| o.prefix != m.prefix && o.prefix.starts_with(m.prefix) && o.prefix.as_bytes().get(m.prefix.len()).is_some_and(|b| *b < b'/')) {
                            t.c.add("a4:owner_has_a_sibling_sorting_below_the_separator", 1);
                        }
                    }
                }
            }
        }
    }
}

fn configs(tier: Tier) -> Vec<Vec<Mount>> {
    let n = PREFIXES.len();
    let mut out = Vec::new();
    let mut push = |sel: &[usize]| {
        let k = sel.len();
        // kind assignments: all structs, all registries; thorough (and every pair): every mix
        let masks: Vec<u32> = if tier == Tier::Thorough || k == 2 { (0..(1u32 << k)).collect() } else { vec![0, (1 << k) - 1, 0b010, 0b101] };
        for mask in masks {
            out.push(sel.iter().enumerate().map(|(i, &p)| Mount { prefix: PREFIXES[p], registry: mask & (1 << i) != 0 }).collect());
        }
    };
    for a in 0..n {
        for b in 0..n {
            if a == b {
                continue;
            }
            push(&[a, b]);
            for c in 0..n {
                if c != a && c != b {
                    push(&[a, b, c]);
                }
            }
        }
    }
    out
}

pub(crate) fn bound(tier: Tier) -> Value {
    json!({
        "mount_prefixes": PREFIXES,
        "mounts_per_router": "2..=3, every ordered selection",
        "kinds": tier.pick("all structs, all registries, every mix for pairs, two mixes for triples", "every assignment of {struct, registry}"),
        "request_paths": request_paths().len(),
        "dispatch_paths": ["handle", "handle_with_ctx", "handle_view"],
    })
}

pub(crate) fn sweep(tier: Tier) -> Totals {
    let cfgs = configs(tier);
    let paths = request_paths();
    let parts = par::for_each_index(
        cfgs.len() as u64,
        8,
        |_| (Totals::default(), Backing::new()),
        |st: &mut (Totals, Backing), i| {
            if st.0.machinery.is_some() {
                return;
            }
            st.0.c.add("a4:configurations", 1);
            run_config(&cfgs[i as usize], &paths, &mut st.0, &mut st.1, i);
        },
    );
    let mut total = Totals::default();
    for (p, _) in parts {
        total.merge(p);
    }
    total.expected_states = cfgs.len() as u64 * paths.len() as u64;
    total
}

pub(crate) fn replay(case: &Value, t: &mut Totals) -> Result<(), String> {
    let mounts: Vec<Mount> = case["mounts"]
        .as_array()
        .ok_or("mounts")?
        .iter()
        .map(|m| {
            let p = m["prefix"].as_str()?;
            Some(Mount { prefix: PREFIXES.iter().find(|x| **x == p)?, registry: m["registry"].as_bool()? })
        })
        .collect::<Option<Vec<_>>>()
        .ok_or("mount")?;
    let q = case["failing_path"].as_str().ok_or("failing_path")?.to_string();
    run_config(&mounts, &[q], t, &mut Backing::new(), 0);
    Ok(())
}
