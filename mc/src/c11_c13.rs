//! C11 (credit accounting) and C13 (replay ring / resume) drivers:
//! bounded-exhaustive history enumeration of the real `TransferControl`.

use crate::ctx::{Ctx, Samples, Tier};
use crate::explore::{self, Stats, System};
use crate::stream_sys::{self as ss, StreamSys, Which};
use serde_json::{Value, json};
use std::time::{Duration, Instant};

fn record(ctx: &Ctx, sys: &StreamSys, st: &Stats, cfg: &Value) {
    for (hist, bad) in &st.first_bad {
        ctx.violation(
            bad.key.clone(),
            format!("{} [{}] after {:?}", bad.what, cfg, sys.describe(hist)),
            json!({
                "config": cfg,
                "history": hist,
                "ops": sys.describe(hist),
                "failed_after_step": bad.step,
            }),
        );
    }
}

pub fn run(which: Which, tier: Tier) -> ! {
    let id = match which {
        Which::C11 => "C11",
        Which::C13 => "C13",
    };
    let ctx = Ctx::new(id, tier);
    let budget = Instant::now() + Duration::from_secs(crate::ctx::budget_secs(tier.pick(55, 2700)));
    let configs: Vec<(StreamSys, Value)> = match which {
        Which::C11 => [0u64, 1, 4, 5, 1 << 48]
            .into_iter()
            .map(|w| (StreamSys::c11(w), json!({"window": w, "ring_capacity": 6})))
            .collect(),
        Which::C13 => [0u64, 1, 5, 6, 12, 1 << 40]
            .into_iter()
            .map(|c| (StreamSys::c13(c), json!({"ring_capacity": c, "window": 8})))
            .collect(),
    };
    let (tree_depth, bfs_depth) = match (which, tier) {
        (Which::C11, Tier::Quick) => (5, 8),
        (Which::C11, Tier::Thorough) => (6, 10),
        (Which::C13, Tier::Quick) => (5, 7),
        (Which::C13, Tier::Thorough) => (6, 9),
    };
    let samples = Samples::new(6);
    let mut states = 0u64;
    let mut transitions = 0u64;
    let mut histories = 0u64;
    let mut flags_or = 0u64;
    let mut flag_counts = [0u64; 16];
    let mut per_cfg = Vec::new();
    let mut all_complete = true;
    for (sys, cfg) in &configs {
        // BFS first so that the first counterexample recorded is a shortest one
        let b = explore::bfs(sys, bfs_depth, tier.pick(3_000_000, 40_000_000), Some(budget));
        record(&ctx, sys, &b, cfg);
        let t = explore::tree(sys, tree_depth, Some(budget));
        record(&ctx, sys, &t, cfg);
        states += b.states;
        transitions += b.transitions + t.transitions;
        histories += t.histories + b.histories;
        flags_or |= t.flags_or | b.flags_or;
        for i in 0..16 {
            flag_counts[i] += t.flag_counts[i] + b.flag_counts[i];
        }
        all_complete &= t.complete && b.complete;
        per_cfg.push(json!({
            "config": cfg,
            "letters": sys.letters(),
            "tree": {"depth": t.depth, "histories": t.histories, "complete": t.complete},
            "bfs": {"depth_completed": b.depth, "states": b.states, "transitions": b.transitions,
                    "complete_within_bound": b.complete, "fixpoint": b.fixpoint},
        }));
        samples.offer(|| {
            // a representative history: the lexicographically middle one of the tree
            let n = explore_index_mid(sys.letters() as u64, tree_depth);
            json!({"config": cfg, "ops": sys.describe(&n)})
        });
    }
    // non-vacuity: the interesting branches were actually taken
    let needed: &[u64] = match which {
        Which::C11 => &[
            ss::F_GRANT,
            ss::F_DENY,
            ss::F_OVERSIZED_GRANT,
            ss::F_ACK_CAPPED,
            ss::F_STALE_ACK,
            ss::F_CANCELLED_WAIT,
            ss::F_RESUME_REJ,
        ],
        Which::C13 => &[
            ss::F_RESUME_OK,
            ss::F_RESUME_REJ,
            ss::F_EVICT,
            ss::F_RESUME_READY,
            ss::F_REPLAY_NONEMPTY,
        ],
    };
    for f in needed {
        if flags_or & f == 0 && !ctx.has_violation() {
            ctx.machinery(format!("vacuous exploration: branch flag {f:#x} never taken"));
        }
    }
    if flags_or & ss::F_MODEL_DIVERGED != 0 {
        ctx.note("implementation differs from the exact reference model on a point the property does not state (informational)");
    }
    let nv: serde_json::Map<String, Value> = ss::flag_names()
        .into_iter()
        .map(|(n, f)| (n.to_string(), json!(flag_counts[f.trailing_zeros() as usize])))
        .collect();
    let alphabet: Vec<String> = (0..configs[0].0.letters())
        .map(|l| configs[0].0.letter_name(l as u8))
        .collect();
    let coverage = json!({
        "states": states.max(1),
        "transitions": transitions.max(1),
        "traces_validated_against_impl": histories,
        "samples": samples.take(),
        "exhaustive": all_complete,
        "bound": {"tree_depth": tree_depth, "bfs_depth": bfs_depth},
        "alphabet": alphabet,
        "per_config": per_cfg,
        "nonvacuity": nv,
        "rule": "every history over the alphabet (arguments resolved against the current state) up to the tree depth without merging, and breadth-first to the BFS depth with merging on (exact model state, all observations incl. a destructive pending-resume probe); every step is executed on the real TransferControl rebuilt by replay",
    });
    ctx.finish(
        "model_checking",
        coverage,
        &[
            "values stay below 2^56 (the property bounds chunk lengths by 2^48)",
            "state merging in the BFS assumes the implementation is a deterministic function of the history; the un-merged tree is run as well",
            "deadlines are always already expired here; blocking behaviour is decided by C12",
        ],
    )
}

fn explore_index_mid(base: u64, depth: usize) -> Vec<u8> {
    let n = crate::par::pow(base, depth as u32);
    let mut v = Vec::new();
    crate::par::digits(n / 3 + 7, base, depth, &mut v);
    v.reverse();
    v
}

pub fn replay(which: Which, case: &Value) -> Result<(), String> {
    let cfg = &case["config"];
    let sys = match which {
        Which::C11 => StreamSys::c11(cfg["window"].as_u64().ok_or("window")?),
        Which::C13 => StreamSys::c13(cfg["ring_capacity"].as_u64().ok_or("ring_capacity")?),
    };
    let hist: Vec<u8> = case["history"]
        .as_array()
        .ok_or("history")?
        .iter()
        .map(|v| v.as_u64().unwrap_or(0) as u8)
        .collect();
    println!("ops: {:#?}", sys.describe(&hist));
    let o = sys.run(&hist, 0);
    if o.bad.is_empty() {
        Ok(())
    } else {
        Err(o
            .bad
            .iter()
            .map(|b| format!("{}: {}", b.key, b.what))
            .collect::<Vec<_>>()
            .join("\n"))
    }
}
