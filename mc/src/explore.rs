//! E1 engine: bounded-exhaustive search over operation histories of a real
//! (non-clonable) implementation object, by replay.
//!
//! Two drivers over the same `System`:
//!  * `tree`  — every history of exactly `depth` letters (all shorter ones are
//!              prefixes), no merging, oracle evaluated after every step;
//!  * `bfs`   — breadth-first with canonical-state de-duplication; a state is
//!              represented by the first (shortest, lexicographically least by
//!              construction order) history that reached it and is rebuilt by
//!              replay whenever it is expanded.

use crate::par;
use std::collections::HashSet;
use std::hash::{Hash, Hasher};

pub type Key = (u64, u64);

pub fn key_of<T: Hash>(t: &T) -> Key {
    let mut a = std::collections::hash_map::DefaultHasher::new();
    0xA5u8.hash(&mut a);
    t.hash(&mut a);
    let mut b = std::collections::hash_map::DefaultHasher::new();
    0x5Au8.hash(&mut b);
    t.hash(&mut b);
    0x77u8.hash(&mut b);
    (a.finish(), b.finish())
}

/// One violation found while running a history.
#[derive(Clone, Debug)]
pub struct Bad {
    pub key: String,
    pub what: String,
    /// index of the step (0-based) after which the oracle failed
    pub step: usize,
}

pub struct Outcome {
    /// canonical key of the final state (None if the run was cut by a violation)
    pub key: Option<Key>,
    pub bad: Vec<Bad>,
    /// property-specific non-vacuity flags (bit set)
    pub flags: u64,
}

pub trait System: Sync {
    fn letters(&self) -> usize;
    fn letter_name(&self, l: u8) -> String;
    /// Build a fresh implementation + model, apply `history`, evaluating the
    /// oracle after every step with index >= `check_from`.
    fn run(&self, history: &[u8], check_from: usize) -> Outcome;
}

#[derive(Default, Clone, Debug)]
pub struct Stats {
    pub histories: u64,
    pub steps: u64,
    pub states: u64,
    pub transitions: u64,
    pub depth: usize,
    pub flags_or: u64,
    pub flag_counts: [u64; 16],
    pub first_bad: Vec<(Vec<u8>, Bad)>,
    pub complete: bool,
    /// BFS only: the frontier became empty (all reachable states visited)
    pub fixpoint: bool,
}

impl Stats {
    fn absorb(&mut self, o: &Outcome, hist: &[u8]) {
        self.flags_or |= o.flags;
        for b in 0..16 {
            if o.flags & (1 << b) != 0 {
                self.flag_counts[b] += 1;
            }
        }
        for bad in &o.bad {
            if self.first_bad.len() < 64 {
                self.first_bad.push((hist[..=bad.step.min(hist.len() - 1)].to_vec(), bad.clone()));
            }
        }
    }
    fn merge(&mut self, o: Stats) {
        self.histories += o.histories;
        self.steps += o.steps;
        self.transitions += o.transitions;
        self.flags_or |= o.flags_or;
        for b in 0..16 {
            self.flag_counts[b] += o.flag_counts[b];
        }
        for fb in o.first_bad {
            if self.first_bad.len() < 64 {
                self.first_bad.push(fb);
            }
        }
    }
}

/// All histories of exactly `depth` letters. `deadline` bounds wall time; if
/// it is hit the result has `complete == false`.
pub fn tree<S: System>(sys: &S, depth: usize, deadline: Option<std::time::Instant>) -> Stats {
    let base = sys.letters() as u64;
    let n = par::pow(base, depth as u32);
    let cut = std::sync::atomic::AtomicBool::new(false);
    let parts = par::for_each_index(
        n,
        4096,
        |_| (Stats::default(), Vec::<u8>::new()),
        |(st, buf), i| {
            if cut.load(std::sync::atomic::Ordering::Relaxed) {
                return;
            }
            if i % 4096 == 0 {
                if let Some(d) = deadline {
                    if std::time::Instant::now() > d {
                        cut.store(true, std::sync::atomic::Ordering::Relaxed);
                        return;
                    }
                }
            }
            // most significant digit first so that index order == lexicographic order
            par::digits(i, base, depth, buf);
            buf.reverse();
            let o = sys.run(buf, 0);
            st.histories += 1;
            st.steps += depth as u64;
            st.absorb(&o, buf);
        },
    );
    let mut total = Stats {
        depth,
        complete: !cut.load(std::sync::atomic::Ordering::Relaxed),
        ..Default::default()
    };
    for (s, _) in parts {
        total.merge(s);
    }
    total.transitions = total.steps;
    total
}

/// Breadth-first search with de-duplication on `Outcome::key`.
pub fn bfs<S: System>(
    sys: &S,
    max_depth: usize,
    max_states: u64,
    deadline: Option<std::time::Instant>,
) -> Stats {
    let mut seen: HashSet<Key> = HashSet::new();
    let mut total = Stats::default();
    let root = sys.run(&[], 0);
    if let Some(k) = root.key {
        seen.insert(k);
    }
    total.states = 1;
    total.complete = true;
    let mut frontier: Vec<Vec<u8>> = vec![Vec::new()];
    let letters = sys.letters() as u64;
    for depth in 1..=max_depth {
        if frontier.is_empty() {
            total.fixpoint = true;
            break;
        }
        let n = frontier.len() as u64 * letters;
        let cut = std::sync::atomic::AtomicBool::new(false);
        let fr = &frontier;
        let parts = par::for_each_index(
            n,
            256,
            |_| (Stats::default(), Vec::<(Key, u64)>::new(), Vec::<u8>::new()),
            |(st, found, buf), i| {
                if cut.load(std::sync::atomic::Ordering::Relaxed) {
                    return;
                }
                if i % 256 == 0 {
                    if let Some(d) = deadline {
                        if std::time::Instant::now() > d {
                            cut.store(true, std::sync::atomic::Ordering::Relaxed);
                            return;
                        }
                    }
                }
                let h = &fr[(i / letters) as usize];
                buf.clear();
                buf.extend_from_slice(h);
                buf.push((i % letters) as u8);
                let o = sys.run(buf, buf.len() - 1);
                st.histories += 1;
                st.steps += buf.len() as u64;
                st.transitions += 1;
                st.absorb(&o, buf);
                if let Some(k) = o.key {
                    found.push((k, i));
                }
            },
        );
        let mut found_all: Vec<(Key, u64)> = Vec::new();
        for (s, f, _) in parts {
            total.merge(s);
            found_all.extend(f);
        }
        if cut.load(std::sync::atomic::Ordering::Relaxed) {
            total.complete = false;
            total.depth = depth - 1;
            return total;
        }
        if !total.first_bad.is_empty() {
            // a violation was found at this depth: it is a shortest one; stop here
            total.complete = false;
            total.depth = depth;
            return total;
        }
        // deterministic choice of representative: smallest index wins
        found_all.sort_by_key(|&(_, i)| i);
        let mut next: Vec<Vec<u8>> = Vec::new();
        for (k, i) in found_all {
            if seen.insert(k) {
                let mut h = frontier[(i / letters) as usize].clone();
                h.push((i % letters) as u8);
                next.push(h);
            }
        }
        total.states = seen.len() as u64;
        total.depth = depth;
        if total.states > max_states && depth < max_depth {
            total.complete = false;
            return total;
        }
        frontier = next;
    }
    total
}
